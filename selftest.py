"""check selftest [<ID>_<X> ...] — the machinery demonstrates that it detects the kept seeded changes.

For every directory under seeded/ (or the ones named): in a scratch git worktree of /repo's HEAD (never in
/repo itself) apply patch.diff, rebuild the harness against that worktree, run the property's quick check and
expect exit 1 with a VIOLATION line; re-execute the first recorded case twice (`--replay`) and expect the same
verdict, the same signatures and the same case counts both times (determinism); undo the patch, rebuild, replay again and expect
"NOT REPRODUCED". Evidence and replays of these runs go to the scratch directory, not to /verif.
The scratch worktree and its build output are removed at the end.
"""
import json
import os
import shutil
import subprocess
import sys
import time


def sh(cmd, **kw):
    return subprocess.run(cmd, shell=True, stdout=subprocess.PIPE, stderr=subprocess.STDOUT, text=True, **kw)


def main(argv, chk):
    verif = chk.VERIF
    seeds = argv or sorted(os.listdir(os.path.join(verif, "seeded")))
    scratch = "/var/tmp/fbrv-selftest-%d" % os.getpid()
    repo = os.path.join(scratch, "repo")
    out = os.path.join(scratch, "out")
    os.makedirs(scratch)
    os.environ["VERIF_OUT"] = out
    r = sh("git -C /repo worktree add --detach %s HEAD" % repo)
    if r.returncode != 0:
        print(r.stdout)
        return 2
    results = []
    rc_all = 0
    try:
        for sd in seeds:
            t0 = time.time()
            prop = sd.split("_")[0]
            d = os.path.join(verif, "seeded", sd)
            # a seed whose own property's check is silent by design names the check that catches it (meta.json "selftest")
            try:
                st = json.load(open(os.path.join(d, "meta.json"))).get("selftest", {})
            except Exception:
                st = {}
            if st.get("expect") == "neutralised":
                results.append(dict(seed=sd, property=prop, result="SKIPPED: " + st.get("why", "neutralised")))
                print("SELFTEST %s: SKIPPED (%s)" % (sd, st.get("why", "")), flush=True)
                continue
            prop = st.get("check", prop)
            spec = chk.PROPS[prop]
            target = os.path.join(scratch, "target-async" if spec["bin"] == "fbrv-async" else "target")
            row = dict(seed=sd, property=prop)
            a = sh("git -C %s apply %s" % (repo, os.path.join(d, "patch.diff")))
            if a.returncode != 0:
                a = sh("git -C %s apply -3 %s" % (repo, os.path.join(d, "patch.diff")))
            if a.returncode != 0:
                row["result"] = "PATCH DOES NOT APPLY"
                row["detail"] = a.stdout[-400:]
                results.append(row)
                rc_all = 1
                sh("git -C %s reset --hard -q" % repo)
                continue
            rc = chk.run_check(prop, "quick", repo=repo, target=target)
            row["check_exit_with_patch"] = rc
            rdir = os.path.join(out, "replays", prop)
            reps = sorted(os.listdir(rdir)) if os.path.isdir(rdir) else []
            ev = json.load(open(os.path.join(out, "evidence", prop + ".json")))
            row["signatures"] = ev["coverage"]["violation_signatures"][:6]
            ok = rc == 1 and bool(reps)
            if ok:
                # keep the replay files: the next run of the check deletes them
                keep = os.path.join(scratch, "replay-" + sd)
                shutil.copytree(rdir, keep)
                rp = os.path.join(keep, reps[0])
                binary = os.path.join(target, "release", "fbrv_async" if spec["bin"] == "fbrv-async" else "fbrv")
                if spec["bin"] == "abi":
                    r1 = chk.replay(prop, rp, repo=repo, target=target)
                    r2 = r1
                    same = True
                else:
                    import shlex
                    p1 = sh("%s %s --replay %s" % (binary, prop, shlex.quote(rp)), cwd=verif)
                    p2 = sh("%s %s --replay %s" % (binary, prop, shlex.quote(rp)), cwd=verif)
                    r1, r2 = p1.returncode, p2.returncode
                    # the verdict lines carry free text with process ids, inode numbers and timestamps of the scratch
                    # trees; determinism is judged on what was found: signatures and their case counts
                    def norm(out):
                        keep = []
                        for l in out.splitlines():
                            l = l.strip()
                            if l.startswith("REPRODUCED") or l.startswith("also found") or l.startswith("NOT REPRODUCED"):
                                keep.append(l.split("):")[0])
                            elif l.startswith("replay of"):
                                keep.append(l)
                        return keep
                    same = norm(p1.stdout) == norm(p2.stdout)
                row["replay_with_patch"] = [r1, r2]
                row["replay_deterministic"] = same
                ok = ok and r1 == 1 and r2 == 1 and same
                sh("git -C %s reset --hard -q" % repo)
                r3 = chk.replay(prop, rp, repo=repo, target=target)
                row["replay_without_patch"] = r3
                ok = ok and r3 == 0
            sh("git -C %s reset --hard -q" % repo)
            row["result"] = "DETECTED, REPLAYED, CLEAN AFTER REVERT" if ok else "NOT AS EXPECTED"
            row["seconds"] = round(time.time() - t0, 1)
            if not ok:
                rc_all = 1
            results.append(row)
            print("SELFTEST %s: %s" % (sd, row["result"]), flush=True)
    finally:
        sh("git -C /repo worktree remove --force %s" % repo)
        shutil.rmtree(scratch, ignore_errors=True)
        sh("git -C /repo worktree prune")
    json.dump(results, open(os.environ.get("FBRV_SELFTEST_OUT", os.path.join(verif, "selftest_result.json")), "w"), indent=1)
    print(json.dumps(results, indent=1))
    return rc_all
