/*
 * Cited excerpt of include/uapi/linux/fuse.h as of Linux v6.9 (protocol 7.40), for the constants
 * that are newer than the header installed in this sandbox (7.38) and that the library uses:
 *
 *   7.40
 *    - add FUSE_NO_EXPORT_SUPPORT init flag
 *    - add FUSE_NOTIFY_RESEND, add FUSE_HAS_RESEND init flag
 *    - add backing_id to fuse_open_out, add FUSE_PASSTHROUGH init flag
 *
 * Values are copied verbatim from upstream; facts taken from this file are flagged
 * "source: excerpt" in the C13 evidence.
 */
#ifndef FBRV_FUSE_POST738_H
#define FBRV_FUSE_POST738_H
#define FUSE_PASSTHROUGH	(1ULL << 37)
#define FUSE_NO_EXPORT_SUPPORT	(1ULL << 38)
#define FUSE_HAS_RESEND		(1ULL << 39)
#define FUSE_NOTIFY_RESEND 7
#endif
