// hand-written part of the ABI probe (prepended to the generated main.rs by c13.py)
fn extra_main() -> bool {
    let a: Vec<String> = std::env::args().collect();
    if a.len() >= 2 && a[1] == "opcodes" {
        use fuse_backend_rs::abi::fuse_abi::Opcode;
        let lo: u64 = a[2].parse().unwrap();
        let hi: u64 = a[3].parse().unwrap();
        let known: std::collections::HashSet<u32> = a[4].split(',').filter(|s| !s.is_empty()).map(|s| s.parse().unwrap()).collect();
        let unsupported: u32 = a[5].parse().unwrap();
        let mut n = 0u64;
        let mut bad = 0;
        let mut v = lo;
        while v <= hi {
            let got = Opcode::from(v as u32) as u32;
            // fast path: values far above every known opcode
            let want = if known.contains(&(v as u32)) { v as u32 } else { unsupported };
            if got != want {
                if bad < 20 {
                    println!("BAD {} {}", v, got);
                }
                bad += 1;
            }
            n += 1;
            v += 1;
        }
        println!("CHECKED {}", n);
        return true;
    }
    if a.len() >= 2 && a[1] == "conv" {
        conv();
        return true;
    }
    false
}

fn conv() {
    use fuse_backend_rs::abi::fuse_abi::{stat64, statvfs64, Attr, Kstatfs, SetattrIn};
    let b64: [u64; 7] = [0, 1, 0x7fff_ffff, 0xffff_ffff, 0x1_0000_0000, 0x7fff_ffff_ffff_ffff, u64::MAX];
    let b32: [u64; 5] = [0, 1, 0x7fff_ffff, 0x8000_0000, 0xffff_ffff];
    let mut n = 0u64;
    // ---- stat64 -> Attr (with flags) and back: 16 fields, all pairs over boundary values
    // field setters on stat64 and the wire field each must land in
    type SetSt = fn(&mut stat64, u64);
    type GetAt = fn(&Attr) -> u64;
    type GetSt = fn(&stat64) -> u64;
    let f: Vec<(&str, bool, SetSt, GetAt, GetSt)> = vec![
        ("ino", true, |s, v| s.st_ino = v, |a| a.ino, |s| s.st_ino),
        ("size", true, |s, v| s.st_size = v as i64, |a| a.size, |s| s.st_size as u64),
        ("blocks", true, |s, v| s.st_blocks = v as i64, |a| a.blocks, |s| s.st_blocks as u64),
        ("atime", true, |s, v| s.st_atime = v as i64, |a| a.atime, |s| s.st_atime as u64),
        ("mtime", true, |s, v| s.st_mtime = v as i64, |a| a.mtime, |s| s.st_mtime as u64),
        ("ctime", true, |s, v| s.st_ctime = v as i64, |a| a.ctime, |s| s.st_ctime as u64),
        ("atimensec", false, |s, v| s.st_atime_nsec = v as i64, |a| a.atimensec as u64, |s| s.st_atime_nsec as u64),
        ("mtimensec", false, |s, v| s.st_mtime_nsec = v as i64, |a| a.mtimensec as u64, |s| s.st_mtime_nsec as u64),
        ("ctimensec", false, |s, v| s.st_ctime_nsec = v as i64, |a| a.ctimensec as u64, |s| s.st_ctime_nsec as u64),
        ("mode", false, |s, v| s.st_mode = v as u32, |a| a.mode as u64, |s| s.st_mode as u64),
        ("nlink", false, |s, v| s.st_nlink = v, |a| a.nlink as u64, |s| s.st_nlink as u64),
        ("uid", false, |s, v| s.st_uid = v as u32, |a| a.uid as u64, |s| s.st_uid as u64),
        ("gid", false, |s, v| s.st_gid = v as u32, |a| a.gid as u64, |s| s.st_gid as u64),
        ("rdev", false, |s, v| s.st_rdev = v, |a| a.rdev as u64, |s| s.st_rdev as u64),
        ("blksize", false, |s, v| s.st_blksize = v as i64, |a| a.blksize as u64, |s| s.st_blksize as u64),
    ];
    let dom = |wide: bool| -> &[u64] { if wide { &b64 } else { &b32 } };
    for i in 0..f.len() {
        for j in i..f.len() {
            for &vi in dom(f[i].1) {
                for &vj in dom(f[j].1) {
                    for flags in [0u32, 2, u32::MAX] {
                        let mut st: stat64 = unsafe { std::mem::zeroed() };
                        // distinct background so that a dropped field shows
                        for (k, g) in f.iter().enumerate() {
                            (g.2)(&mut st, 0x11 * (k as u64 + 1));
                        }
                        (f[i].2)(&mut st, vi);
                        (f[j].2)(&mut st, vj);
                        let at = Attr::with_flags(st, flags);
                        n += 1;
                        for (k, g) in f.iter().enumerate() {
                            let want = if k == j { vj } else if k == i { vi } else { 0x11 * (k as u64 + 1) };
                            let mask = if g.1 { u64::MAX } else { 0xffff_ffff };
                            if (g.3)(&at) != want & mask {
                                println!("BAD stat64-to-attr {} wire field {} = {:#x}, host value {:#x}", g.0, g.0, (g.3)(&at), want);
                            }
                        }
                        if at.flags != flags {
                            println!("BAD stat64-to-attr flags flags {:#x} became {:#x}", flags, at.flags);
                        }
                        // and back: every field the wire format carries survives
                        let back: stat64 = at.into();
                        for g in f.iter() {
                            let wire = (g.3)(&at);
                            let host = (g.4)(&back);
                            let mask = if g.1 { u64::MAX } else { 0xffff_ffff };
                            if host & mask != wire {
                                println!("BAD attr-to-stat64 {} wire {:#x} became host {:#x}", g.0, wire, host);
                            }
                        }
                    }
                }
            }
        }
    }
    // ---- statvfs64 -> Kstatfs
    type SetV = fn(&mut statvfs64, u64);
    type GetK = fn(&Kstatfs) -> u64;
    let g: Vec<(&str, bool, SetV, GetK)> = vec![
        ("blocks", true, |s, v| s.f_blocks = v, |k| k.blocks),
        ("bfree", true, |s, v| s.f_bfree = v, |k| k.bfree),
        ("bavail", true, |s, v| s.f_bavail = v, |k| k.bavail),
        ("files", true, |s, v| s.f_files = v, |k| k.files),
        ("ffree", true, |s, v| s.f_ffree = v, |k| k.ffree),
        ("bsize", false, |s, v| s.f_bsize = v, |k| k.bsize as u64),
        ("namelen", false, |s, v| s.f_namemax = v, |k| k.namelen as u64),
        ("frsize", false, |s, v| s.f_frsize = v, |k| k.frsize as u64),
    ];
    for i in 0..g.len() {
        for j in i..g.len() {
            for &vi in dom(g[i].1) {
                for &vj in dom(g[j].1) {
                    let mut sv: statvfs64 = unsafe { std::mem::zeroed() };
                    for (k, x) in g.iter().enumerate() {
                        (x.2)(&mut sv, 0x21 * (k as u64 + 1));
                    }
                    (g[i].2)(&mut sv, vi);
                    (g[j].2)(&mut sv, vj);
                    let ks = Kstatfs::from(sv);
                    n += 1;
                    for (k, x) in g.iter().enumerate() {
                        let want = if k == j { vj } else if k == i { vi } else { 0x21 * (k as u64 + 1) };
                        let mask = if x.1 { u64::MAX } else { 0xffff_ffff };
                        if (x.3)(&ks) != want & mask {
                            println!("BAD statvfs-to-kstatfs {} wire field {} = {:#x}, host value {:#x}", x.0, x.0, (x.3)(&ks), want);
                        }
                    }
                    if ks.padding != 0 || ks.spare.iter().any(|s| *s != 0) {
                        println!("BAD statvfs-to-kstatfs padding padding/spare not zero");
                    }
                }
            }
        }
    }
    // ---- SetattrIn -> stat64
    type SetS = fn(&mut SetattrIn, u64);
    let h: Vec<(&str, bool, SetS, GetSt)> = vec![
        ("size", true, |s, v| s.size = v, |s| s.st_size as u64),
        ("atime", true, |s, v| s.atime = v, |s| s.st_atime as u64),
        ("mtime", true, |s, v| s.mtime = v, |s| s.st_mtime as u64),
        ("ctime", true, |s, v| s.ctime = v, |s| s.st_ctime as u64),
        ("atimensec", false, |s, v| s.atimensec = v as u32, |s| s.st_atime_nsec as u64),
        ("mtimensec", false, |s, v| s.mtimensec = v as u32, |s| s.st_mtime_nsec as u64),
        ("ctimensec", false, |s, v| s.ctimensec = v as u32, |s| s.st_ctime_nsec as u64),
        ("mode", false, |s, v| s.mode = v as u32, |s| s.st_mode as u64),
        ("uid", false, |s, v| s.uid = v as u32, |s| s.st_uid as u64),
        ("gid", false, |s, v| s.gid = v as u32, |s| s.st_gid as u64),
    ];
    for i in 0..h.len() {
        for j in i..h.len() {
            for &vi in dom(h[i].1) {
                for &vj in dom(h[j].1) {
                    let mut si = SetattrIn::default();
                    for (k, x) in h.iter().enumerate() {
                        (x.2)(&mut si, 0x31 * (k as u64 + 1));
                    }
                    (h[i].2)(&mut si, vi);
                    (h[j].2)(&mut si, vj);
                    let st: stat64 = si.into();
                    n += 1;
                    for (k, x) in h.iter().enumerate() {
                        let want = if k == j { vj } else if k == i { vi } else { 0x31 * (k as u64 + 1) };
                        let mask = if x.1 { u64::MAX } else { 0xffff_ffff };
                        if (x.3)(&st) != want & mask {
                            println!("BAD setattr-to-stat64 {} request field {} = {:#x}, host value {:#x}", x.0, x.0, want, (x.3)(&st));
                        }
                    }
                }
            }
        }
    }
    println!("CHECKED {}", n);
}
