#!/usr/bin/env python3
"""ABI table generator.

Kernel side: extracts *names only* (structures, fields, #define / enum constants) from the installed
kernel headers with regular expressions, emits a C program that includes the headers and prints
sizeof/offsetof/values, compiles and runs it.  The C compiler is the oracle for every number.

  gen.py kabi  <out.rs>          write harness/src/kabi.rs (layout tables used by the wire client)
  gen.py kernel <out.json>       write the kernel fact table as JSON (C13)
  gen.py libprobe <repo> <dir>   write a Rust probe crate printing the library's facts (C13)
"""
import json
import os
import re
import subprocess
import sys
import tempfile

HERE = os.path.dirname(os.path.abspath(__file__))
FUSE_H = "/usr/include/linux/fuse.h"
VIRTIO_FS_H = "/usr/include/linux/virtio_fs.h"
POST_H = os.path.join(HERE, "fuse_post738.h")


def strip_comments(src):
    src = re.sub(r"/\*.*?\*/", " ", src, flags=re.S)
    src = re.sub(r"//[^\n]*", " ", src)
    return src


def parse_c_header(path):
    src = strip_comments(open(path).read())
    structs = {}
    for m in re.finditer(r"struct\s+(\w+)\s*\{(.*?)\}\s*(?:__attribute__\s*\(\(.*?\)\))?\s*;", src, flags=re.S):
        name, body = m.group(1), m.group(2)
        fields = []
        for fm in re.finditer(r"([\w\s]+?)\s+(\w+)\s*(\[\s*(\w*)\s*\])?\s*;", body):
            ftype = " ".join(fm.group(1).split())
            fname = fm.group(2)
            dim = fm.group(4)
            flexible = fm.group(3) is not None and (dim == "" or dim == "0")
            fields.append({"name": fname, "type": ftype, "flexible": flexible, "array": fm.group(3) is not None})
        structs[name] = fields
    consts = []
    for m in re.finditer(r"^[ \t]*#[ \t]*define[ \t]+(\w+)[ \t]+(.+?)[ \t]*$", src, flags=re.M):
        name, val = m.group(1), m.group(2)
        if name.startswith("_") or "(" in name:
            continue
        if not re.match(r"^[\w\s()<|+\-*]+$", val):
            continue
        consts.append(name)
    for m in re.finditer(r"enum\s+\w+\s*\{(.*?)\}\s*;", src, flags=re.S):
        for em in re.finditer(r"(\w+)\s*(?:=\s*[^,}]+)?\s*(?:,|$)", m.group(1).strip()):
            if em.group(1):
                consts.append(em.group(1))
    return structs, consts


def kernel_facts():
    structs, consts = {}, []
    for h in (FUSE_H, VIRTIO_FS_H, POST_H):
        if os.path.exists(h):
            s, c = parse_c_header(h)
            for k, v in s.items():
                structs.setdefault(k, v)
            for k in c:
                if k not in consts:
                    consts.append(k)
    post_names = set()
    if os.path.exists(POST_H):
        ps, pc = parse_c_header(POST_H)
        post_names = set(pc) | set(ps)
    lines = [
        "#include <stdio.h>", "#include <stddef.h>", "#include <stdint.h>",
        "#include <linux/fuse.h>", "#include <linux/virtio_fs.h>",
        '#include "%s"' % POST_H if os.path.exists(POST_H) else "",
        "#define MEMBER_SIZE(t, m) sizeof(((t *)0)->m)",
        "int main(void) {",
    ]
    for sname, fields in structs.items():
        if not (sname.startswith("fuse_") or sname.startswith("virtio_fs") or sname.startswith("cuse_")):
            continue
        lines.append('  printf("S %s %%zu\\n", sizeof(struct %s));' % (sname, sname))
        for f in fields:
            if f["flexible"]:
                lines.append('  printf("F %s %s %%zu 0 0\\n", offsetof(struct %s, %s));' % (sname, f["name"], sname, f["name"]))
            else:
                nested = f["type"].startswith("struct ")
                lines.append(
                    '  printf("F %s %s %%zu %%zu %d %s\\n", offsetof(struct %s, %s), MEMBER_SIZE(struct %s, %s));'
                    % (sname, f["name"], 1 if f["array"] else 0, f["type"].split()[-1] if nested else "-", sname, f["name"], sname, f["name"])
                )
    for c in consts:
        if re.match(r"^(FUSE|FOPEN|FATTR|CUSE|VIRTIO_FS)_", c) or c in ("FUSE_ROOT_ID",):
            lines.append("#ifdef %s" % c if False else "")
            lines.append('  printf("C %s %%llu\\n", (unsigned long long)(%s));' % (c, c))
    lines.append("  return 0;\n}")
    with tempfile.TemporaryDirectory(prefix="fbrv-abi-", dir="/dev/shm") as td:
        cpath = os.path.join(td, "probe.c")
        open(cpath, "w").write("\n".join(lines))
        exe = os.path.join(td, "probe")
        subprocess.run(["cc", "-O0", "-o", exe, cpath], check=True)
        out = subprocess.run([exe], check=True, capture_output=True, text=True).stdout
    facts = {"structs": {}, "consts": {}, "excerpt": sorted(post_names)}
    for line in out.splitlines():
        p = line.split()
        if p[0] == "S":
            facts["structs"][p[1]] = {"size": int(p[2]), "fields": []}
        elif p[0] == "F":
            facts["structs"][p[1]]["fields"].append(
                {"name": p[2], "off": int(p[3]), "size": int(p[4]), "array": p[5] == "1", "nested": None if len(p) < 7 or p[6] == "-" else p[6]}
            )
        elif p[0] == "C":
            facts["consts"][p[1]] = int(p[2])
    return facts


def flatten(facts, sname, prefix="", base=0):
    out = []
    for f in facts["structs"][sname]["fields"]:
        out.append((prefix + f["name"], base + f["off"], f["size"]))
        if f["nested"] and not f["array"] and f["nested"] in facts["structs"]:
            out.extend(flatten(facts, f["nested"], prefix + f["name"] + ".", base + f["off"]))
    return out


def write_kabi(path):
    facts = kernel_facts()
    o = [
        "// GENERATED by /verif/abi/gen.py from /usr/include/linux/fuse.h, virtio_fs.h and abi/fuse_post738.h.",
        "// Every number below was printed by a C program compiled against those headers. Do not edit.",
        "#![allow(dead_code)]",
        "pub struct Fld { pub name: &'static str, pub off: usize, pub size: usize }",
        "pub struct Lay { pub name: &'static str, pub size: usize, pub fields: &'static [Fld] }",
        "impl Lay {",
        "    pub fn f(&self, name: &str) -> &Fld {",
        "        self.fields.iter().find(|f| f.name == name).unwrap_or_else(|| panic!(\"kabi: no field {}.{}\", self.name, name))",
        "    }",
        "}",
    ]
    for sname in facts["structs"]:
        fl = flatten(facts, sname)
        o.append("pub static %s: Lay = Lay { name: \"%s\", size: %d, fields: &[" % (sname.upper(), sname, facts["structs"][sname]["size"]))
        for (n, off, size) in fl:
            o.append("    Fld { name: \"%s\", off: %d, size: %d }," % (n, off, size))
        o.append("] };")
    for c, v in facts["consts"].items():
        o.append("pub const %s: u64 = %d;" % (c, v))
    o.append("pub static ALL_LAYOUTS: &[&Lay] = &[%s];" % ", ".join("&" + s.upper() for s in facts["structs"]))
    o.append("pub static ALL_CONSTS: &[(&str, u64)] = &[%s];" % ", ".join('("%s", %d)' % (c, v) for c, v in facts["consts"].items()))
    new = "\n".join(o) + "\n"
    old = open(path).read() if os.path.exists(path) else None
    if old != new:
        open(path, "w").write(new)
    return facts


# ---------------------------------------------------------------------------------------------
# Library side (C13)

def parse_rust_abi(path):
    src = open(path).read()
    src_nc = re.sub(r"/\*.*?\*/", " ", src, flags=re.S)
    src_nc = re.sub(r"//[^\n]*", " ", src_nc)
    structs = {}
    for m in re.finditer(r"#\[repr\(C(?:,\s*packed)?\)\]\s*(?:#\[[^\]]*\]\s*)*pub struct (\w+)\s*\{(.*?)\n\}", src_nc, flags=re.S):
        name, body = m.group(1), m.group(2)
        fields = re.findall(r"pub\s+(\w+)\s*:\s*([^,\n]+)", body)
        structs[name] = [(f, t.strip()) for f, t in fields]
    pub_consts = re.findall(r"^pub const (\w+)\s*:\s*(\w+)\s*=", src_nc, flags=re.M)
    bitflags = {}
    for m in re.finditer(r"pub struct (\w+)\s*:\s*(\w+)\s*\{(.*?)\n\s*\}", src_nc, flags=re.S):
        bitflags[m.group(1)] = re.findall(r"const\s+(\w+)\s*=", m.group(3))
    enums = {}
    for m in re.finditer(r"pub enum (\w+)\s*\{(.*?)\n\}", src_nc, flags=re.S):
        enums[m.group(1)] = re.findall(r"(\w+)\s*=\s*[\d_]+", m.group(2))
    return structs, pub_consts, bitflags, enums


def write_libprobe(repo, outdir):
    os.makedirs(os.path.join(outdir, "src"), exist_ok=True)
    s1, c1, b1, e1 = parse_rust_abi(os.path.join(repo, "src/abi/fuse_abi_linux.rs"))
    s2, c2, b2, e2 = parse_rust_abi(os.path.join(repo, "src/abi/virtio_fs.rs"))
    o = [
        "// GENERATED by /verif/abi/gen.py from the current /repo/src/abi/*.rs. Do not edit.",
        "#![allow(unused_imports, non_camel_case_types)]",
        "use std::mem::{offset_of, size_of};",
        "fn sz<T>(_: &T) -> usize { size_of::<T>() }",
        "fn main() {",
    ]
    for mod, structs, consts, bfs, enums in (("fuse_abi", s1, c1, b1, e1), ("virtio_fs", s2, c2, b2, e2)):
        p = "fuse_backend_rs::abi::%s" % mod
        for sname, fields in structs.items():
            o.append('    println!("S %s {}", size_of::<%s::%s>());' % (sname, p, sname))
            o.append("    { let v: %s::%s = Default::default();" % (p, sname))
            for f, t in fields:
                o.append('      println!("F %s %s {} {}", offset_of!(%s::%s, %s), sz(&v.%s));' % (sname, f, p, sname, f, f))
            o.append("    }")
        for c, t in consts:
            o.append('    println!("C %s {}", %s::%s as u64);' % (c, p, c))
        for b, names in bfs.items():
            for n in names:
                o.append('    println!("B %s %s {}", %s::%s::%s.bits() as u64);' % (b, n, p, b, n))
        for e, names in enums.items():
            for n in names:
                o.append('    println!("E %s %s {}", %s::%s::%s as u64);' % (e, n, p, e, n))
    o.append("}")
    open(os.path.join(outdir, "src/main.rs"), "w").write("\n".join(o) + "\n")
    open(os.path.join(outdir, "Cargo.toml"), "w").write(
        '[package]\nname = "abiprobe"\nversion = "0.1.0"\nedition = "2021"\npublish = false\n\n[workspace]\n\n'
        '[dependencies]\nfuse-backend-rs = { path = "%s", features = ["fusedev", "virtiofs", "persist"] }\n'
        '\n[profile.release]\nopt-level = 2\ndebug = 1\nincremental = true\ncodegen-units = 16\n' % repo
    )


if __name__ == "__main__":
    cmd = sys.argv[1]
    if cmd == "kabi":
        write_kabi(sys.argv[2])
    elif cmd == "kernel":
        json.dump(kernel_facts(), open(sys.argv[2], "w"), indent=1)
    elif cmd == "libprobe":
        write_libprobe(sys.argv[2], sys.argv[3])
    else:
        sys.exit("usage")
