"""C13: wire structures and constants match the kernel's FUSE ABI.

The "state space" is the finite table of ABI facts; it is enumerated completely:
  kernel side : C program compiled against /usr/include/linux/fuse.h, virtio_fs.h (+ cited excerpt)
  library side: Rust probe generated from the current /repo/src/abi/*.rs (size_of / offset_of!)
plus Opcode::from(u32) on all 2^32 values and the stat conversions over boundary values (pairwise).
"""
import json
import os
import re
import subprocess
import time

import gen

HERE = os.path.dirname(os.path.abspath(__file__))
VERIF = os.path.dirname(HERE)


def snake(name):
    s = re.sub(r"(?<!^)(?=[A-Z])", "_", name.replace("_", "")).lower()
    return s


def run(tier, seed, repo, t0, verdict, cargo_env, target):
    m = dict(evaluations=0, transitions=0, outcomes={}, samples=[], violations={}, capped=False, extra={}, states=set(),
             states_count=0, wall_max=0.0, per_shard=[], states_total=0)
    died = []

    def viol(sig, what, case):
        v = m["violations"].setdefault(sig, dict(signature=sig, count=0, what=what, case=case))
        v["count"] += 1

    def fact(kind, ok):
        m["evaluations"] += 1
        m["transitions"] += 1
        key = "%s:%s" % (kind, "match" if ok else "MISMATCH")
        m["outcomes"][key] = m["outcomes"].get(key, 0) + 1

    kern = gen.kernel_facts()
    amap = json.load(open(os.path.join(HERE, "map.json")))
    probe_dir = os.path.join(HERE, "probe")
    gen.write_libprobe(repo, probe_dir)
    # the hand-written part of the probe (opcode sweep, conversions)
    main = open(os.path.join(probe_dir, "src", "main.rs")).read()
    main = main.replace("fn main() {", open(os.path.join(HERE, "probe_extra.rs")).read() + "\nfn main() {\n    if extra_main() { return; }", 1)
    open(os.path.join(probe_dir, "src", "main.rs"), "w").write(main)
    lock = os.path.join(probe_dir, "Cargo.lock")
    if not os.path.exists(lock):
        import shutil
        shutil.copy(os.path.join(VERIF, "harness", "Cargo.lock"), lock)
    p = subprocess.run(["cargo", "build", "--release", "--offline"], cwd=probe_dir, env=cargo_env(target), stdout=subprocess.PIPE, stderr=subprocess.STDOUT, text=True)
    if p.returncode != 0:
        # a library-side definition the probe cannot even name (renamed/removed field) is itself a finding only if the
        # kernel has it; report as machinery error with the compiler output
        print(p.stdout[-4000:])
        print("MACHINERY-ERROR: ABI probe does not build")
        return 2
    exe = os.path.join(target, "release", "abiprobe")
    out = subprocess.run([exe], stdout=subprocess.PIPE, text=True, check=True).stdout
    lib = dict(structs={}, consts={}, bits={}, enums={})
    for line in out.splitlines():
        q = line.split()
        if q[0] == "S":
            lib["structs"][q[1]] = dict(size=int(q[2]), fields=[])
        elif q[0] == "F":
            lib["structs"][q[1]]["fields"].append(dict(name=q[2], off=int(q[3]), size=int(q[4])))
        elif q[0] == "C":
            lib["consts"][q[1]] = int(q[2])
        elif q[0] == "B":
            lib["bits"]["%s::%s" % (q[1], q[2])] = int(q[3])
        elif q[0] == "E":
            lib["enums"]["%s::%s" % (q[1], q[2])] = int(q[3])

    # ---- structures
    smap = amap["structs"]
    fmap = amap["fields"]
    compared_structs = 0
    for sname, sl in lib["structs"].items():
        spec = smap.get(sname, "fuse_" + snake(sname))
        if spec is None:
            continue  # not a kernel structure (reviewed in map.json)
        if isinstance(spec, str):
            spec = dict(kernel=spec, mode="full")
        kname = spec["kernel"]
        if kname not in kern["structs"]:
            viol("C13/struct/%s/unknown" % sname, "library structure %s has no kernel counterpart %s (add to abi/map.json if intended)" % (sname, kname), dict(struct=sname))
            fact("struct", False)
            continue
        ks = kern["structs"][kname]
        compared_structs += 1
        base = spec.get("offset", 0)
        mode = spec.get("mode", "full")
        if mode == "full":
            ok = sl["size"] == ks["size"]
        elif mode == "prefix":
            ok = sl["size"] <= ks["size"]
        else:  # suffix
            ok = base + sl["size"] == ks["size"]
        fact("struct-size", ok)
        if not ok:
            viol("C13/struct/%s/size" % sname, "size_of::<%s>() = %d, sizeof(struct %s) = %d (%s)" % (sname, sl["size"], kname, ks["size"], mode), dict(struct=sname, kernel=kname))
        kfields = {f["name"]: f for f in ks["fields"]}
        seen = set()
        for f in sl["fields"]:
            kf_name = fmap.get("%s.%s" % (sname, f["name"]), f["name"])
            kf = kfields.get(kf_name)
            merged = amap.get("merged", {}).get("%s.%s" % (sname, f["name"]))
            if merged:
                parts = [kfields[x] for x in merged if x in kfields]
                if len(parts) == len(merged):
                    kf = dict(name="+".join(merged), off=parts[0]["off"], size=sum(x["size"] for x in parts))
                    kf_name = kf["name"]
                    seen.update(merged)
            if kf is None:
                fact("field", False)
                viol("C13/struct/%s/field/%s" % (sname, f["name"]), "%s.%s has no counterpart in struct %s" % (sname, f["name"], kname), dict(struct=sname, field=f["name"]))
                continue
            seen.add(kf_name)
            ok = (f["off"] + base == kf["off"]) and (f["size"] == kf["size"])
            fact("field", ok)
            if not ok:
                viol("C13/struct/%s/field/%s" % (sname, f["name"]),
                     "%s.%s at offset %d width %d, kernel %s.%s at offset %d width %d" % (sname, f["name"], f["off"] + base, f["size"], kname, kf_name, kf["off"], kf["size"]),
                     dict(struct=sname, field=f["name"]))
        if mode == "full":
            # every kernel field must be present (order follows from equal offsets)
            for kf in ks["fields"]:
                if kf["name"] not in seen and kf["size"] > 0:
                    fact("field", False)
                    viol("C13/struct/%s/missing/%s" % (sname, kf["name"]), "kernel field %s.%s (offset %d) has no counterpart in %s" % (kname, kf["name"], kf["off"], sname), dict(struct=sname, field=kf["name"]))
        if len(m["samples"]) < 4:
            m["samples"].append(dict(struct=sname, kernel=kname, size=sl["size"], fields=[(f["name"], f["off"], f["size"]) for f in sl["fields"][:6]]))

    # ---- constants
    cmap = amap["consts"]
    for kind, table in (("const", lib["consts"]), ("flag", lib["bits"]), ("enum", lib["enums"])):
        for lname, lval in table.items():
            kname = cmap.get(lname)
            if kname is None and lname in cmap:
                continue  # explicitly not a kernel name
            if kname is None:
                short = lname.split("::")[-1]
                cands = []
                if lname.startswith("NotifyOpcode::"):
                    cands.append("FUSE_NOTIFY_" + snake(short).upper())
                cands += [short, "FUSE_" + short, "FUSE_" + snake(short).upper(), "FUSE_NOTIFY_" + snake(short).upper(), "FOPEN_" + short, "FATTR_" + short]
                kname = next((c for c in cands if c in kern["consts"]), None)
            if kname is None or kname not in kern["consts"]:
                fact(kind, False)
                viol("C13/%s/%s/unknown" % (kind, lname), "library constant %s has no kernel counterpart (add to abi/map.json if it is not a kernel name)" % lname, dict(name=lname))
                continue
            ok = kern["consts"][kname] == lval
            fact(kind, ok)
            if not ok:
                viol("C13/%s/%s" % (kind, lname), "%s = %#x, kernel %s = %#x" % (lname, lval, kname, kern["consts"][kname]), dict(name=lname, kernel=kname))
            if len(m["samples"]) < 8 and kind == "flag":
                m["samples"].append(dict(constant=lname, kernel=kname, value=lval, source="excerpt" if kname in kern.get("excerpt", []) else "header"))

    # ---- opcodes: all 2^32 values, in 16 slices
    nd = {kern["consts"][x] for x in amap.get("not_dispatchable_opcodes", []) if x in kern["consts"]}
    ops_lib = {v: k for k, v in lib["enums"].items() if k.startswith("Opcode::") and k != "Opcode::MaxOpcode" and v not in nd}
    unsupported = lib["enums"].get("Opcode::MaxOpcode")
    spec = ",".join(str(v) for v in sorted(ops_lib))
    procs = []
    for i in range(16):
        lo = i << 28
        hi = ((i + 1) << 28) - 1
        procs.append(subprocess.Popen([exe, "opcodes", str(lo), str(hi), spec, str(unsupported)], stdout=subprocess.PIPE, text=True))
    total_ops = 0
    for pr in procs:
        o, _ = pr.communicate()
        if pr.returncode != 0:
            died.append((0, pr.returncode, o[-500:]))
        for line in o.splitlines():
            if line.startswith("CHECKED"):
                total_ops += int(line.split()[1])
            elif line.startswith("BAD"):
                _, v, got = line.split()
                viol("C13/opcode/%s" % v, "Opcode::from(%s) = %s" % (v, got), dict(value=int(v)))
    m["evaluations"] += total_ops
    m["transitions"] += total_ops
    m["outcomes"]["opcode-from:checked"] = total_ops
    # the kernel's opcodes of protocol <= 7.33 must all be known to the library, with their numbers (E lines above
    # compared names); report kernel opcodes the library lacks
    for kname, kval in kern["consts"].items():
        if kname in amap["opcodes_733"] and kval not in ops_lib and kval not in nd:
            fact("opcode-known", False)
            viol("C13/opcode-missing/%s" % kname, "kernel opcode %s = %d is not an Opcode variant" % (kname, kval), dict(name=kname))
        elif kname in amap["opcodes_733"]:
            fact("opcode-known", True)

    # ---- conversions
    o = subprocess.run([exe, "conv"], stdout=subprocess.PIPE, text=True)
    if o.returncode != 0:
        died.append((0, o.returncode, o.stdout[-500:]))
    for line in o.stdout.splitlines():
        if line.startswith("CHECKED"):
            n = int(line.split()[1])
            m["evaluations"] += n
            m["transitions"] += n
            m["outcomes"]["conversion:checked"] = m["outcomes"].get("conversion:checked", 0) + n
        elif line.startswith("BAD"):
            _, which, field, rest = line.split(" ", 3)
            viol("C13/conv/%s/%s" % (which, field), rest, dict(conversion=which, field=field))

    m["states_total"] = sum(v for k, v in m["outcomes"].items() if not k.startswith("opcode-from") and not k.startswith("conversion"))
    m["states_total"] += 2  # opcode sweep + conversion sweep as fact families
    m["extra"].update(structs_compared=compared_structs, opcode_values_checked=total_ops, kernel_header="linux/fuse.h 7.%d + cited excerpt" % kern["consts"].get("FUSE_KERNEL_MINOR_VERSION", 0),
                      excerpt_names=kern.get("excerpt", []), excluded_by_map=[k for k, v in cmap.items() if v is None] + [k for k, v in smap.items() if v is None])
    m["per_shard"] = [m["evaluations"]]
    return verdict("C13", tier, seed, m, died, t0, level="model_checking",
                   assumptions=["the installed kernel header (7.38) and the cited excerpt for newer constants define the ABI", "abi/map.json (reviewed by hand) pairs library names with kernel names"],
                   rule="complete enumeration of the finite ABI fact table (every field of every structure, every constant, every u32 opcode value, pairwise boundary values of every conversion field); a state is one compared fact",
                   technique="complete enumeration of a finite fact table (degenerate model checking: no behaviours, all 2^32 opcode values and all struct/constant facts compared against the C compiler's view of the kernel header)")
