#!/bin/sh
# MANIFEST.setup_cmd: build everything offline from files on disk.
set -e
cd "$(dirname "$0")"
export CARGO_NET_OFFLINE=true
python3 abi/gen.py kabi harness/src/kabi.rs
./check build
