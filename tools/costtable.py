#!/usr/bin/env python3
"""Rewrites the measured cost table in DESIGN.md section 9 from evidence/*.json (quick tier)."""
import json, os, re
V = os.path.dirname(os.path.dirname(os.path.abspath(__file__)))
rows = []
for i in range(1, 21):
    pid = "C%02d" % i
    e = json.load(open(os.path.join(V, "evidence", pid + ".json")))
    c = e["coverage"]
    rows.append("| %s | %s | %s | %s | %s | %d s |%s" % (pid, "{:,}".format(c["evaluations"]), "{:,}".format(c["states"]), "{:,}".format(c["transitions"]), c.get("distinct_outcomes", "-"), round(e["wall_s"]), " capped" if c.get("capped") else ""))
s = open(os.path.join(V, "DESIGN.md")).read()
start = s.index("| id | executions evaluated |")
end = s.index("\n\n", start)
hdr = "| id | executions evaluated | distinct cases (states) | operations / steps checked | distinct outcomes | wall |\n|---|---|---|---|---|---|\n"
s = s[:start] + hdr + "\n".join(rows) + s[end:]
open(os.path.join(V, "DESIGN.md"), "w").write(s)
print("\n".join(rows))
