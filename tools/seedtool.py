#!/usr/bin/env python3
"""Seeded-change workflow (see the brief):

  seedtool.py verify <ID> <X>    confirm in the scratch worktree /tmp/seed-<ID> (moved to /repo's HEAD):
                                 demo passes without the patch, the patch applies and builds, the
                                 pinned suite still passes with it, the demo fails with it.
  seedtool.py detect <ID> <X> [prop ...]   apply the patch to /repo, run the quick check(s), revert; report.
  seedtool.py keep <ID> <X>      copy patch, demo, meta into /verif/seeded/<ID>_<X>/

Source of a seed: /tmp/seed-out/<ID>/<X>/ (or /verif/seeded/<ID>_<X>/ once kept).
"""
import glob
import json
import os
import re
import shutil
import subprocess
import sys

VERIF = os.path.dirname(os.path.dirname(os.path.abspath(__file__)))
SEED_OUT = os.environ.get("SEED_OUT", "/tmp/seed-out")   # round 2: SEED_OUT=/tmp/seed2-out SEED_WT=/tmp/seed2-
SEED_WT = os.environ.get("SEED_WT", "/tmp/seed-")


def sh(cmd, cwd=None, timeout=3600):
    p = subprocess.run(cmd, cwd=cwd, shell=isinstance(cmd, str), stdout=subprocess.PIPE, stderr=subprocess.STDOUT, text=True, timeout=timeout)
    return p.returncode, p.stdout


def seed_dir(pid, x):
    kept = os.path.join(VERIF, "seeded", "%s_%s" % (pid, x))
    if os.path.exists(os.path.join(kept, "patch.diff")):
        return kept
    return "%s/%s/%s" % (SEED_OUT, pid, x)


def features_for(sd):
    txt = ""
    for f in glob.glob(os.path.join(sd, "demo", "*")):
        if f.endswith(".md") or f.endswith(".rs"):
            txt += open(f, errors="replace").read()
    m = re.findall(r"--features[ =]([\w,\-]+)", txt)
    if m:
        return m[0]
    if "virtio_queue" in txt or "virtiofs" in txt:
        return "fusedev,virtiofs"
    return None


def demo_tests(sd):
    return [f for f in glob.glob(os.path.join(sd, "demo", "*.rs"))]


def run_demo(wt, sd):
    """returns (all_passed, output)"""
    inst = os.path.join(sd, "demo_install.sh")
    if os.path.exists(inst):
        # hand-written installer for demos that are not plain integration tests
        rc, o = sh(["sh", inst, wt, sd], cwd=wt)
        cmd = open(os.path.join(sd, "demo_cmd")).read().strip()
        rc2, o2 = sh(cmd, cwd=wt)
        return rc == 0 and rc2 == 0, (o + o2)[-3000:]
    feats = features_for(sd)
    ok = True
    out = ""
    for t in demo_tests(sd):
        name = os.path.splitext(os.path.basename(t))[0]
        shutil.copy(t, os.path.join(wt, "tests", name + ".rs"))
        cmd = ["cargo", "test", "--offline", "--test", name]
        if feats:
            cmd += ["--features", feats]
        cmd += ["--", "--test-threads=1"]
        rc, o = sh(cmd, cwd=wt)
        out += o[-3000:]
        ok = ok and rc == 0
    return ok, out


def clean_demo(wt, sd):
    if os.path.exists(os.path.join(sd, "demo_install.sh")):
        # installers modify tracked files too: restore everything but the patch is re-applied by the caller's flow
        return
    for t in demo_tests(sd):
        p = os.path.join(wt, "tests", os.path.basename(t))
        if os.path.exists(p):
            os.remove(p)


def apply_patch(repo, patch):
    rc, o = sh(["git", "apply", patch], cwd=repo)
    if rc != 0:
        rc, o2 = sh(["git", "apply", "-3", patch], cwd=repo)
        o += o2
    return rc == 0, o


def verify(pid, x):
    sd = seed_dir(pid, x)
    wt = "%s%s" % (SEED_WT, pid)
    head = sh(["git", "rev-parse", "HEAD"], cwd="/repo")[1].strip()
    if not os.path.exists(wt):
        sh(["git", "worktree", "add", "--detach", wt, head], cwd="/repo")
    sh("git reset -q --hard && git clean -fdq -e target && git checkout -q --detach %s" % head, cwd=wt)
    res = {"seed": "%s_%s" % (pid, x), "repo_head": head}
    ok0, o0 = run_demo(wt, sd)
    res["demo_passes_without_patch"] = ok0
    if os.path.exists(os.path.join(sd, "demo_install.sh")):
        sh("git checkout -q -- . && git clean -fdq -e target", cwd=wt)
    ap, oa = apply_patch(wt, os.path.join(sd, "patch.diff"))
    res["patch_applies"] = ap
    if ap:
        rc, o = sh(["cargo", "build", "--offline", "--features", "fusedev,virtiofs,persist"], cwd=wt)
        res["builds_all_features"] = rc == 0
        clean_demo(wt, sd)
        rc, o = sh(["cargo", "test", "--workspace", "--no-fail-fast", "--offline"], cwd=wt)
        m = re.findall(r"test result: (\w+)\. (\d+) passed; (\d+) failed", o)
        res["suite"] = m
        res["suite_passes_with_patch"] = rc == 0 and any(int(p) == 134 and int(f) == 0 for _, p, f in m)
        ok1, o1 = run_demo(wt, sd)
        res["demo_fails_with_patch"] = not ok1
        res["demo_tail_with_patch"] = o1[-800:]
    else:
        res["apply_output"] = oa[-1500:]
    clean_demo(wt, sd)
    sh("git checkout -q -- . && git clean -fdq -e target", cwd=wt)
    res["confirmed"] = bool(res.get("demo_passes_without_patch") and res.get("patch_applies") and res.get("suite_passes_with_patch") and res.get("demo_fails_with_patch"))
    print(json.dumps(res, indent=1))
    os.makedirs("%s/%s/%s" % (SEED_OUT, pid, x), exist_ok=True)
    json.dump(res, open(os.path.join("%s/%s/%s" % (SEED_OUT, pid, x), "verified.json"), "w"), indent=1)
    return 0 if res["confirmed"] else 1


def detect(pid, x, props):
    sd = seed_dir(pid, x)
    rc, st = sh(["git", "status", "--porcelain", "--untracked-files=no"], cwd="/repo")
    if st.strip():
        print("refusing: /repo has uncommitted changes:\n" + st)
        return 2
    ok, o = apply_patch("/repo", os.path.join(sd, "patch.diff"))
    if not ok:
        print("patch does not apply to /repo:", o[-1000:])
        sh("git reset -q --hard HEAD", cwd="/repo")
        return 2
    results = {}
    try:
        for p in props:
            rc, out = sh([os.path.join(VERIF, "check"), p, "--tier", "quick"], cwd=VERIF)
            viol = [l for l in out.splitlines() if l.startswith("VIOLATION")]
            sigs = [l.strip() for l in out.splitlines() if l.strip().startswith("signature:")]
            capped = None
            try:
                capped = json.load(open(os.path.join(VERIF, "evidence", p + ".json")))["coverage"].get("capped")
            except Exception:
                pass
            results[p] = {"exit": rc, "violations": viol, "signatures": sigs[:6], "capped": capped, "tail": out[-600:] if rc not in (0, 1) else ""}
    finally:
        sh("git reset -q --hard HEAD", cwd="/repo")
    print(json.dumps(results, indent=1))
    out = os.path.join("%s/%s/%s" % (SEED_OUT, pid, x), "detected.json")
    os.makedirs(os.path.dirname(out), exist_ok=True)
    json.dump(results, open(out, "w"), indent=1)
    return 0 if any(r["exit"] == 1 for r in results.values()) else 1


def keep(pid, x):
    sd = "%s/%s/%s" % (SEED_OUT, pid, x)
    dst = os.path.join(VERIF, "seeded", "%s_%s" % (pid, x))
    os.makedirs(dst, exist_ok=True)
    shutil.copy(os.path.join(sd, "patch.diff"), dst)
    for extra in ("demo_install.sh", "demo_cmd"):
        if os.path.exists(os.path.join(sd, extra)):
            shutil.copy(os.path.join(sd, extra), dst)
    if os.path.exists(os.path.join(dst, "demo")):
        shutil.rmtree(os.path.join(dst, "demo"))
    shutil.copytree(os.path.join(sd, "demo"), os.path.join(dst, "demo"))
    meta = json.load(open(os.path.join(sd, "meta.json")))
    for extra in ("verified.json", "detected.json"):
        p = os.path.join(sd, extra)
        if os.path.exists(p):
            meta[extra.split(".")[0]] = json.load(open(p))
    meta["what_i_ran"] = "tools/seedtool.py verify %s %s (scratch worktree at /repo HEAD: demo without patch, git apply, cargo build all features, cargo test --workspace, demo with patch); tools/seedtool.py detect %s %s (git -C /repo apply, ./check <prop> --tier quick, git -C /repo checkout -- .)" % (pid, x, pid, x)
    json.dump(meta, open(os.path.join(dst, "meta.json"), "w"), indent=1)
    print("kept", dst)
    return 0


if __name__ == "__main__":
    cmd, pid, x = sys.argv[1], sys.argv[2], sys.argv[3]
    if cmd == "verify":
        sys.exit(verify(pid, x))
    if cmd == "detect":
        sys.exit(detect(pid, x, sys.argv[4:] or [pid]))
    if cmd == "keep":
        sys.exit(keep(pid, x))
