#!/bin/sh
# round 3 of seeded changes: verify in a scratch worktree, then detect against /repo (apply, quick check, revert)
# usage: tools/round3.sh <ID> <X> [extra props to run]
export SEED_OUT=/tmp/seed5-out SEED_WT=/tmp/seed5-
id=$1; x=$2; shift 2
python3 /verif/tools/seedtool.py verify $id $x > /tmp/seed5-out/$id/$x/verify.log 2>&1
echo "verify rc=$? $(grep -E '"confirmed"|demo_passes_without|suite_passes|demo_fails_with|patch_applies' /tmp/seed5-out/$id/$x/verify.log | tr -d '\n')"
