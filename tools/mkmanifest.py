#!/usr/bin/env python3
"""Regenerates /verif/MANIFEST.json from props_meta.json (one place to keep claims, levels, notes)."""
import json, os
V = os.path.dirname(os.path.dirname(os.path.abspath(__file__)))
meta = json.load(open(os.path.join(V, "props_meta.json")))
props = [json.loads(l) for l in open(os.path.join(V, "properties.jsonl"))]
hooks = json.load(open(os.path.join(V, "hooks.json")))
checks, na = [], []
for p in props:
    pid = p["id"]
    m = meta.get(pid)
    if not m or not m.get("claimed"):
        na.append({"property_id": pid, "reason": (m or {}).get("na_reason", "check not built yet in this round; see DESIGN.md")})
        continue
    checks.append({
        "property_id": pid,
        "quick_cmd": "./check %s --tier quick" % pid,
        "thorough_cmd": "./check %s --tier thorough" % pid,
        "evidence_file": "/verif/evidence/%s.json" % pid,
        "replay_cmd_template": "./check replay %s {path}" % pid,
        "engine": m["engine"],
        "level_claimed": {"category": m.get("level", "model_checking"), "text": m["level_text"], "design_ref": m["design_ref"]},
        "level_note": m["level_note"],
        "technique": m["technique"],
    })
man = {
    "version": 1,
    "setup_cmd": "./setup.sh",
    "hooks": hooks,
    "engines": json.load(open(os.path.join(V, "engines.json"))),
    "checks": checks,
    "not_applicable": na,
    "notes": "All checks are exhaustive enumerations over stated finite spaces executed on the real code (DESIGN.md). exit 2 = machinery failure, never a verdict.",
}
json.dump(man, open(os.path.join(V, "MANIFEST.json"), "w"), indent=1)
print("checks:", [c["property_id"] for c in checks], "na:", [n["property_id"] for n in na])
