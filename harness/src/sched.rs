//! SCHED(p): a cooperative scheduler over real OS threads plus a depth-first enumerator of its
//! schedules with an optional preemption bound.
//!
//! Exactly one registered thread runs at a time. Control changes hands only at the yield points of hook H1
//! (`fuse_backend_rs::passthrough::verif_sched`): before/after the lock-free probes, between the count load
//! and the compare-exchange, before lock acquisitions, inside forget between the decrement and the removal,
//! and in every wait (lock polling, retry loop). A thread that yields from a wait is not enabled again until
//! some other thread has run a step, which makes waiting visible and keeps the schedule tree finite.
use std::cell::Cell;
use std::sync::{Arc, Condvar, Mutex, Once};
use std::time::Duration;

#[derive(Clone, Copy, Debug, PartialEq)]
enum TSt {
    Ready(u32),
    Waiting(u32, u64),
    Running,
    Done,
}

struct Inner {
    st: Vec<TSt>,
    current: Option<usize>,
    /// per thread: number of completed real steps (it reached a non-waiting yield point or finished)
    progress_by: Vec<u64>,
    /// progress of the OTHER threads at which a waiting thread was last given a retry without progress
    forced: Vec<Option<u64>>,
    prefix: Vec<(usize, usize)>,
    last: Option<usize>,
    ex: Exec,
    err: Option<String>,
    over: bool,
}

pub struct Sched {
    m: Mutex<Inner>,
    /// one condition variable per worker plus one for the controller (last)
    cvs: Vec<Condvar>,
}

thread_local! {
    static ME: Cell<Option<(usize, *const Sched)>> = const { Cell::new(None) };
}

static INSTALL: Once = Once::new();

fn install_hook() {
    INSTALL.call_once(|| {
        fuse_backend_rs::passthrough::verif_sched::verif_set_sched_hook(Some(Arc::new(|id: u32, waiting: bool| {
            match ME.with(|m| m.get()) {
                None => false,
                Some((me, s)) => {
                    // SAFETY: the Sched outlives its worker threads (they are joined, or leaked together with it)
                    let s: &Sched = unsafe { &*s };
                    s.yield_now(me, id, waiting);
                    true
                }
            }
        })));
    });
}

#[derive(Clone, Debug)]
pub struct Point {
    /// enabled threads in canonical order (the thread that ran last first if it can continue, then ascending)
    pub enabled: Vec<usize>,
    pub chosen: usize,
    /// the thread that ran last could have continued (choosing another one is a preemption)
    pub last_ready: bool,
    /// yield point identifiers of the enabled threads
    pub at: Vec<u32>,
}

#[derive(Debug, Default, Clone)]
pub struct Exec {
    pub points: Vec<Point>,
    pub steps: u64,
    pub deadlock: Option<String>,
    pub hung: bool,
}

impl Exec {
    pub fn choices(&self) -> Vec<usize> {
        self.points.iter().map(|p| p.chosen).collect()
    }
    pub fn preemptions(&self) -> usize {
        self.points.iter().filter(|p| p.last_ready && p.chosen != 0).count()
    }
    pub fn describe(&self) -> Vec<String> {
        self.points.iter().map(|p| format!("enabled {:?} at points {:?} -> thread {}", p.enabled, p.at, p.enabled[p.chosen])).collect()
    }
}

const STEP_LIMIT: u64 = 5000;

fn others(g: &Inner, t: usize) -> u64 {
    g.progress_by.iter().sum::<u64>() - g.progress_by[t]
}

/// The scheduling decision, taken by whichever thread just gave up control. None: the execution is over
/// (all done, deadlock, or a machinery error).
fn decide(g: &mut Inner) -> Option<usize> {
    let n = g.st.len();
    if g.st.iter().all(|s| *s == TSt::Done) {
        g.over = true;
        return None;
    }
    let mut enabled: Vec<usize> = Vec::new();
    let mut last_ready = false;
    if let Some(l) = g.last {
        if matches!(g.st[l], TSt::Ready(_)) {
            enabled.push(l);
            last_ready = true;
        }
    }
    for t in 0..n {
        if Some(t) == g.last && last_ready {
            continue;
        }
        match g.st[t] {
            TSt::Ready(_) => enabled.push(t),
            // a waiter is released by progress of OTHER threads only (its own steps inside a retry loop do not count)
            TSt::Waiting(_, p) if others(g, t) > p => enabled.push(t),
            _ => {}
        }
    }
    if enabled.is_empty() {
        // what a waiter waits for may already have happened before it started waiting: one retry without
        // progress; a waiter that comes back to the same wait with still no progress is stuck
        for t in 0..n {
            if matches!(g.st[t], TSt::Waiting(..)) && g.forced[t] != Some(others(g, t)) {
                enabled.push(t);
            }
        }
        for t in enabled.clone() {
            g.forced[t] = Some(others(g, t));
        }
    }
    if enabled.is_empty() {
        g.ex.deadlock = Some(format!("no enabled thread (a waiter that nothing can release any more): states {:?}", g.st));
        g.over = true;
        return None;
    }
    let i = g.ex.points.len();
    let chosen = if enabled.len() == 1 {
        0
    } else if i < g.prefix.len() {
        if g.prefix[i].1 != enabled.len() || g.prefix[i].0 >= enabled.len() {
            g.err = Some(format!("divergence at choice {}: expected {} enabled threads, found {:?}", i, g.prefix[i].1, enabled));
            g.over = true;
            return None;
        }
        g.prefix[i].0
    } else {
        0
    };
    if enabled.len() > 1 {
        let at = enabled.iter().map(|t| match g.st[*t] { TSt::Ready(p) | TSt::Waiting(p, _) => p, _ => 0 }).collect();
        g.ex.points.push(Point { enabled: enabled.clone(), chosen, last_ready, at });
    }
    g.ex.steps += 1;
    if g.ex.steps > STEP_LIMIT {
        // No execution of the bounded programs needs more than a few dozen steps. A waiter is only ever released by
        // real steps of other threads, and a thread's real steps are finite unless it is itself going round a retry
        // loop - so an execution this long is a set of threads that keep each other spinning: a livelock.
        g.ex.deadlock = Some(format!("livelock: more than {} scheduling steps, threads keep re-entering their retry loops: states {:?}", STEP_LIMIT, g.st));
        g.over = true;
        return None;
    }
    let t = enabled[chosen];
    g.last = Some(t);
    Some(t)
}

impl Sched {
    fn ctl(&self) -> &Condvar {
        &self.cvs[self.cvs.len() - 1]
    }

    fn wait_turn(&self, me: usize) {
        let mut g = self.m.lock().unwrap();
        while g.current != Some(me) {
            g = self.cvs[me].wait(g).unwrap();
        }
        g.st[me] = TSt::Running;
    }

    fn hand_over(&self, mut g: std::sync::MutexGuard<'_, Inner>, me: Option<usize>) -> bool {
        match decide(&mut g) {
            Some(t) if Some(t) == me => {
                g.st[t] = TSt::Running;
                g.current = Some(t);
                true
            }
            Some(t) => {
                g.current = Some(t);
                self.cvs[t].notify_one();
                false
            }
            None => {
                g.current = None;
                self.ctl().notify_one();
                false
            }
        }
    }

    fn yield_now(&self, me: usize, id: u32, waiting: bool) {
        let g = {
            let mut g = self.m.lock().unwrap();
            if !waiting {
                g.progress_by[me] += 1;
            }
            let p = others(&g, me);
            g.st[me] = if waiting { TSt::Waiting(id, p) } else { TSt::Ready(id) };
            g
        };
        if !self.hand_over(g, Some(me)) {
            self.wait_turn(me);
        }
    }

    fn finish(&self, me: usize) {
        let mut g = self.m.lock().unwrap();
        g.st[me] = TSt::Done;
        g.progress_by[me] += 1;
        self.hand_over(g, None);
    }
}

/// Runs the thread bodies once under the schedule `prefix` (then default choices: keep running the same thread).
/// `prefix` entries are (choice index, number of enabled threads expected) — a mismatch is a divergence.
pub fn run_once(bodies: Vec<Box<dyn FnOnce() + Send>>, prefix: &[(usize, usize)]) -> Result<Exec, String> {
    install_hook();
    let n = bodies.len();
    let sched = Arc::new(Sched {
        m: Mutex::new(Inner { st: vec![TSt::Ready(0); n], current: None, progress_by: vec![0; n], forced: vec![None; n], prefix: prefix.to_vec(), last: None, ex: Exec::default(), err: None, over: false }),
        cvs: (0..=n).map(|_| Condvar::new()).collect(),
    });
    let workers = POOL.with(|p| {
        let mut p = p.borrow_mut();
        while p.len() < n {
            p.push(Worker::spawn());
        }
        p.iter().take(n).cloned().collect::<Vec<_>>()
    });
    for (i, b) in bodies.into_iter().enumerate() {
        workers[i].submit(Job { body: b, sched: sched.clone(), index: i });
    }
    {
        let g = sched.m.lock().unwrap();
        sched.hand_over(g, None);
    }
    let (ex, err) = {
        let mut g = sched.m.lock().unwrap();
        while !g.over {
            let (g2, to) = sched.ctl().wait_timeout(g, Duration::from_secs(20)).unwrap();
            g = g2;
            if to.timed_out() && !g.over {
                g.ex.hung = true;
                g.err = Some(format!("thread {:?} did not reach a yield point within 20 s (blocked outside the scheduler's view)", g.current));
                g.over = true;
            }
        }
        (g.ex.clone(), g.err.clone())
    };
    if ex.deadlock.is_some() || err.is_some() {
        // the worker threads cannot be completed; abandon them (and the scheduler they point to) and start
        // with fresh ones next time
        POOL.with(|p| p.borrow_mut().clear());
        std::mem::forget(sched);
        return match err {
            Some(e) => Err(e),
            None => Ok(ex),
        };
    }
    for w in &workers {
        w.wait_idle();
    }
    Ok(ex)
}

struct Job {
    body: Box<dyn FnOnce() + Send>,
    sched: Arc<Sched>,
    index: usize,
}

struct WorkerInner {
    job: Mutex<(Option<Job>, bool)>,
    cv: Condvar,
}

#[derive(Clone)]
struct Worker(Arc<WorkerInner>);

thread_local! {
    static POOL: std::cell::RefCell<Vec<Worker>> = const { std::cell::RefCell::new(Vec::new()) };
}

impl Worker {
    fn spawn() -> Worker {
        let w = Worker(Arc::new(WorkerInner { job: Mutex::new((None, false)), cv: Condvar::new() }));
        let w2 = w.clone();
        std::thread::spawn(move || loop {
            let job = {
                let mut g = w2.0.job.lock().unwrap();
                loop {
                    if let Some(j) = g.0.take() {
                        break j;
                    }
                    g = w2.0.cv.wait(g).unwrap();
                }
            };
            let Job { body, sched, index } = job;
            ME.with(|m| m.set(Some((index, Arc::as_ptr(&sched)))));
            sched.wait_turn(index);
            let _ = std::panic::catch_unwind(std::panic::AssertUnwindSafe(body));
            ME.with(|m| m.set(None));
            sched.finish(index);
            drop(sched);
            let mut g = w2.0.job.lock().unwrap();
            g.1 = false;
            w2.0.cv.notify_all();
        });
        w
    }

    fn submit(&self, j: Job) {
        let mut g = self.0.job.lock().unwrap();
        g.0 = Some(j);
        g.1 = true;
        self.0.cv.notify_all();
    }

    fn wait_idle(&self) {
        let mut g = self.0.job.lock().unwrap();
        while g.1 {
            g = self.0.cv.wait(g).unwrap();
        }
    }
}

/// Depth-first enumeration of all schedules with at most `bound` preemptions (None: all).
/// `mk` builds fresh thread bodies and an evaluation closure for one execution; `eval` is called after it.
pub fn explore<M, E>(bound: Option<usize>, max_schedules: u64, mut mk: M, mut eval: E) -> Result<(u64, bool, usize), String>
where
    M: FnMut() -> Vec<Box<dyn FnOnce() + Send>>,
    E: FnMut(&Exec) -> bool,
{
    let mut stack: Vec<Vec<(usize, usize)>> = vec![Vec::new()];
    let mut n = 0u64;
    let mut capped = false;
    let mut max_points = 0usize;
    while let Some(prefix) = stack.pop() {
        if n >= max_schedules {
            capped = true;
            break;
        }
        let ex = run_once(mk(), &prefix)?;
        n += 1;
        max_points = max_points.max(ex.points.len());
        let stop = eval(&ex);
        if stop {
            break;
        }
        let mut pre = 0usize;
        let choices: Vec<(usize, usize)> = ex.points.iter().map(|p| (p.chosen, p.enabled.len())).collect();
        for i in 0..ex.points.len() {
            let p = &ex.points[i];
            if i >= prefix.len() {
                for alt in 1..p.enabled.len() {
                    let cost = pre + if p.last_ready { 1 } else { 0 };
                    if let Some(b) = bound {
                        if cost > b {
                            continue;
                        }
                    }
                    let mut np = choices[..i].to_vec();
                    np.push((alt, p.enabled.len()));
                    stack.push(np);
                }
            }
            if p.last_ready && p.chosen != 0 {
                pre += 1;
            }
        }
    }
    Ok((n, capped, max_points))
}
