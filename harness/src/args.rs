use crate::report::Report;

pub struct Args {
    pub prop: String,
    pub tier: String,
    pub shard: usize,
    pub nshards: usize,
    pub out: Option<String>,
    pub replay: Option<String>,
    pub budget_s: f64,
    pub seed: u64,
    pub opts: Vec<(String, String)>,
}

impl Args {
    pub fn parse() -> Args {
        let mut a = Args {
            prop: String::new(),
            tier: "quick".into(),
            shard: 0,
            nshards: 1,
            out: None,
            replay: None,
            budget_s: 0.0,
            seed: 0,
            opts: vec![],
        };
        let v: Vec<String> = std::env::args().skip(1).collect();
        let mut i = 0;
        while i < v.len() {
            let s = v[i].as_str();
            let mut val = || {
                i += 1;
                v.get(i).cloned().unwrap_or_else(|| panic!("missing value for {}", s))
            };
            match s {
                "--tier" => a.tier = val(),
                "--shard" => a.shard = val().parse().unwrap(),
                "--nshards" => a.nshards = val().parse().unwrap(),
                "--out" => a.out = Some(val()),
                "--replay" => a.replay = Some(val()),
                "--budget-s" => a.budget_s = val().parse().unwrap(),
                "--seed" => a.seed = val().parse().unwrap(),
                x if x.starts_with("--") => {
                    let k = x[2..].to_string();
                    let vv = val();
                    a.opts.push((k, vv));
                }
                x => a.prop = x.to_string(),
            }
            i += 1;
        }
        if let Some(c) = a.replay_case() {
            if let Some(t) = c["tier"].as_str() {
                a.tier = t.to_string();
            }
            a.shard = 0;
            a.nshards = 1;
            a.budget_s = 0.0;
        }
        a
    }
    pub fn thorough(&self) -> bool {
        self.tier == "thorough"
    }
    pub fn opt(&self, k: &str) -> Option<&str> {
        self.opts.iter().find(|(a, _)| a == k).map(|(_, v)| v.as_str())
    }
    pub fn report(&self) -> Report {
        let mut r = Report::new(&self.prop, &self.tier, self.shard, self.nshards, self.out.clone(), self.budget_s);
        if let Some(u) = self.replay_unit() {
            r.only_unit = Some(u);
            r.max_samples = 0;
        }
        r
    }

    /// Replay mode: the recorded case file (as written by ./check under replays/) names the tier and the
    /// enumeration unit; the engine is re-run on that unit alone.
    pub fn replay_case(&self) -> Option<serde_json::Value> {
        let p = self.replay.as_ref()?;
        let txt = std::fs::read_to_string(p).unwrap_or_else(|e| panic!("cannot read replay file {}: {}", p, e));
        Some(serde_json::from_str(&txt).unwrap_or_else(|e| panic!("replay file {} is not JSON: {}", p, e)))
    }

    pub fn replay_unit(&self) -> Option<u64> {
        self.replay_case().and_then(|c| c["case"]["unit"].as_u64())
    }

    /// After a replay run: did the recorded signature come back? Prints the verdict and returns the exit code.
    pub fn replay_verdict(&self, rep: &Report) -> i32 {
        let c = self.replay_case().unwrap();
        let sig = c["signature"].as_str().unwrap_or("");
        println!("replay of {} (tier {}, unit {}): {} cases evaluated", sig, self.tier, rep.only_unit.map(|u| u.to_string()).unwrap_or_default(), rep.evaluations);
        for (s, v) in &rep.violations {
            println!("  {} {} ({} cases): {}", if s == sig { "REPRODUCED" } else { "also found" }, s, v.count, v.what);
        }
        if rep.violations.contains_key(sig) {
            println!("VIOLATION property={} replay={}", rep.prop, self.replay.as_ref().unwrap());
            1
        } else {
            println!("NOT REPRODUCED on the current tree: {}", sig);
            0
        }
    }
}
