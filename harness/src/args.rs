use crate::report::Report;

pub struct Args {
    pub prop: String,
    pub tier: String,
    pub shard: usize,
    pub nshards: usize,
    pub out: Option<String>,
    pub replay: Option<String>,
    pub budget_s: f64,
    pub seed: u64,
    pub opts: Vec<(String, String)>,
}

impl Args {
    pub fn parse() -> Args {
        let mut a = Args {
            prop: String::new(),
            tier: "quick".into(),
            shard: 0,
            nshards: 1,
            out: None,
            replay: None,
            budget_s: 0.0,
            seed: 0,
            opts: vec![],
        };
        let v: Vec<String> = std::env::args().skip(1).collect();
        let mut i = 0;
        while i < v.len() {
            let s = v[i].as_str();
            let mut val = || {
                i += 1;
                v.get(i).cloned().unwrap_or_else(|| panic!("missing value for {}", s))
            };
            match s {
                "--tier" => a.tier = val(),
                "--shard" => a.shard = val().parse().unwrap(),
                "--nshards" => a.nshards = val().parse().unwrap(),
                "--out" => a.out = Some(val()),
                "--replay" => a.replay = Some(val()),
                "--budget-s" => a.budget_s = val().parse().unwrap(),
                "--seed" => a.seed = val().parse().unwrap(),
                x if x.starts_with("--") => {
                    let k = x[2..].to_string();
                    let vv = val();
                    a.opts.push((k, vv));
                }
                x => a.prop = x.to_string(),
            }
            i += 1;
        }
        a
    }
    pub fn thorough(&self) -> bool {
        self.tier == "thorough"
    }
    pub fn opt(&self, k: &str) -> Option<&str> {
        self.opts.iter().find(|(a, _)| a == k).map(|(_, v)| v.as_str())
    }
    pub fn report(&self) -> Report {
        Report::new(&self.prop, &self.tier, self.shard, self.nshards, self.out.clone(), self.budget_s)
    }
}
