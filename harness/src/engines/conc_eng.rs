//! C09: concurrent lookups and forgets never lose a reference or duplicate an inode.
//!
//! Real `PassthroughFs` objects, real threads, every interleaving of the H1 yield points (see sched.rs).
use crate::args::Args;
use crate::report::Report;
use crate::sched;
use serde_json::{json, Value};
use std::ffi::CString;
use std::path::PathBuf;
use std::sync::{Arc, Mutex};

use fuse_backend_rs::api::filesystem::{Context, FileSystem};
use fuse_backend_rs::passthrough::{Config, PassthroughFs};

#[derive(Clone, Copy, Debug, PartialEq, Eq, Hash)]
pub enum COp {
    /// lookup of the file through its name `a` in the root
    La,
    /// ... through its hard link `h` in the root
    Lh,
    /// ... through its hard link `rd/x`
    Lx,
    /// readdirplus of `rd` (delivers `x`: one reference)
    Rp,
    /// forget one reference this thread holds
    F,
    /// forget two references at once
    F2,
    /// getattr on the inode number this thread holds a reference to
    G,
    /// batch_forget with one entry (inode, 1)
    Bf1,
    /// batch_forget with two entries (inode, 1), (inode, 1)
    Bf2,
    /// CREATE without O_EXCL on the existing name `a`: an entry (one reference) and a handle, released at once
    Cr,
    /// plain READDIR of `rd2`, which holds two names of the file: every entry is looked up and forgotten again inside
    /// the server; the client receives no reference
    Rd,
}

#[derive(Clone, Debug)]
pub struct Scenario {
    pub cfg: usize,
    pub grants: Vec<u64>,
    pub progs: Vec<Vec<COp>>,
}

pub const CFGS: [(&str, bool, bool); 3] = [("default", false, false), ("use_host_ino", true, false), ("file-handles", false, true)];

fn valid(prog: &[COp], grant: u64) -> bool {
    let mut owned = grant;
    for op in prog {
        match op {
            COp::La | COp::Lh | COp::Lx | COp::Rp | COp::Cr => owned += 1,
            COp::F | COp::Bf1 => {
                if owned < 1 {
                    return false;
                }
                owned -= 1;
            }
            COp::F2 | COp::Bf2 => {
                if owned < 2 {
                    return false;
                }
                owned -= 2;
            }
            COp::G => {
                if owned < 1 {
                    return false;
                }
            }
            COp::Rd => {}
        }
    }
    true
}

fn owned_after(prog: &[COp], grant: u64) -> u64 {
    let mut owned = grant;
    for op in prog {
        match op {
            COp::La | COp::Lh | COp::Lx | COp::Rp | COp::Cr => owned += 1,
            COp::F | COp::Bf1 => owned -= 1,
            COp::F2 | COp::Bf2 => owned -= 2,
            COp::G | COp::Rd => {}
        }
    }
    owned
}

pub fn programs(maxlen: usize, grant: u64, alphabet: &[COp]) -> Vec<Vec<COp>> {
    let mut out: Vec<Vec<COp>> = Vec::new();
    let mut cur: Vec<Vec<COp>> = vec![vec![]];
    for _ in 0..maxlen {
        let mut next = Vec::new();
        for p in &cur {
            for op in alphabet {
                let mut q = p.clone();
                q.push(*op);
                if valid(&q, grant) {
                    // a trailing getattr observes nothing new after another getattr
                    if q.len() >= 2 && q[q.len() - 1] == COp::G && q[q.len() - 2] == COp::G {
                        continue;
                    }
                    next.push(q);
                }
            }
        }
        out.extend(next.iter().cloned());
        cur = next;
    }
    out
}

pub struct Tree {
    pub dir: PathBuf,
}

impl Tree {
    pub fn new(tag: &str) -> Tree {
        let dir = crate::env::scratch_root("tmpfs").join(format!("c09-{}-{}", std::process::id(), tag));
        let _ = std::fs::remove_dir_all(&dir);
        std::fs::create_dir_all(dir.join("rd")).unwrap();
        std::fs::write(dir.join("a"), b"c09\n").unwrap();
        std::fs::hard_link(dir.join("a"), dir.join("h")).unwrap();
        std::fs::hard_link(dir.join("a"), dir.join("rd/x")).unwrap();
        std::fs::create_dir_all(dir.join("rd2")).unwrap();
        std::fs::hard_link(dir.join("a"), dir.join("rd2/y1")).unwrap();
        std::fs::hard_link(dir.join("a"), dir.join("rd2/y2")).unwrap();
        Tree { dir }
    }
}

impl Drop for Tree {
    fn drop(&mut self) {
        let _ = std::fs::remove_dir_all(&self.dir);
    }
}

#[derive(Default, Debug, Clone)]
pub struct ThreadLog {
    pub inodes: Vec<u64>,
    pub errors: Vec<String>,
}

pub struct Run {
    pub fs: Arc<PassthroughFs<()>>,
    pub rd: u64,
    pub rd2: u64,
    pub granted_ino: Option<u64>,
    pub logs: Vec<Arc<Mutex<ThreadLog>>>,
}

fn cs(s: &str) -> CString {
    CString::new(s).unwrap()
}

pub fn new_fs(tree: &Tree, cfg: usize) -> Arc<PassthroughFs<()>> {
    let (_, host_ino, fh) = CFGS[cfg];
    let c = Config { root_dir: tree.dir.to_string_lossy().to_string(), do_import: true, use_host_ino: host_ino, inode_file_handles: fh, no_opendir: true, ..Config::default() };
    let fs = PassthroughFs::<()>::new(c).expect("PassthroughFs::new");
    fs.import().expect("import");
    Arc::new(fs)
}

fn do_op(fs: &PassthroughFs<()>, rd: u64, rd2: u64, op: COp, my_ino: &mut Option<u64>, log: &Mutex<ThreadLog>) {
    let ctx = Context::new();
    let mut look = |parent: u64, name: &str| match fs.lookup(&ctx, parent, &cs(name)) {
        Ok(e) => {
            log.lock().unwrap().inodes.push(e.inode);
            Some(e.inode)
        }
        Err(e) => {
            log.lock().unwrap().errors.push(format!("lookup({}) failed: {}", name, e));
            None
        }
    };
    match op {
        COp::La => {
            if let Some(i) = look(1, "a") {
                *my_ino = Some(i);
            }
        }
        COp::Lh => {
            if let Some(i) = look(1, "h") {
                *my_ino = Some(i);
            }
        }
        COp::Lx => {
            if let Some(i) = look(rd, "x") {
                *my_ino = Some(i);
            }
        }
        COp::Rp => {
            let mut got: Vec<u64> = Vec::new();
            let h = fs.opendir(&ctx, rd, libc::O_RDONLY as u32).ok().and_then(|(h, _)| h).unwrap_or(0);
            let r = fs.readdirplus(&ctx, rd, h, 4096, 0, &mut |_d, e| {
                got.push(e.inode);
                Ok(1)
            });
            let _ = fs.releasedir(&ctx, rd, 0, h);
            match r {
                Ok(()) if got.len() == 1 => {
                    log.lock().unwrap().inodes.push(got[0]);
                    *my_ino = Some(got[0]);
                }
                other => log.lock().unwrap().errors.push(format!("readdirplus(rd) delivered {:?} ({:?})", got, other.err())),
            }
        }
        COp::F | COp::F2 => {
            if let Some(i) = *my_ino {
                fs.forget(&ctx, i, if op == COp::F { 1 } else { 2 });
            } else {
                log.lock().unwrap().errors.push("forget without a known inode (an earlier lookup failed)".into());
            }
        }
        COp::Bf1 | COp::Bf2 => {
            if let Some(i) = *my_ino {
                fs.batch_forget(&ctx, if op == COp::Bf1 { vec![(i, 1)] } else { vec![(i, 1), (i, 1)] });
            } else {
                log.lock().unwrap().errors.push("forget without a known inode (an earlier lookup failed)".into());
            }
        }
        COp::Cr => {
            let args = fuse_backend_rs::abi::fuse_abi::CreateIn { flags: libc::O_RDWR as u32, mode: 0o644, umask: 0, fuse_flags: 0 };
            match fs.create(&ctx, 1, &cs("a"), args) {
                Ok((e, h, _, _)) => {
                    log.lock().unwrap().inodes.push(e.inode);
                    *my_ino = Some(e.inode);
                    if let Some(h) = h {
                        let _ = fs.release(&ctx, e.inode, libc::O_RDWR as u32, h, false, false, None);
                    }
                }
                Err(e) => log.lock().unwrap().errors.push(format!("lookup(create a) failed: {}", e)),
            }
        }
        COp::Rd => {
            let mut names = 0usize;
            let h = fs.opendir(&ctx, rd2, libc::O_RDONLY as u32).ok().and_then(|(h, _)| h).unwrap_or(0);
            let r = fs.readdir(&ctx, rd2, h, 4096, 0, &mut |_d| {
                names += 1;
                Ok(1)
            });
            let _ = fs.releasedir(&ctx, rd2, 0, h);
            if r.is_err() || names != 2 {
                log.lock().unwrap().errors.push(format!("lookup(readdir rd2) listed {} names ({:?})", names, r.err()));
            }
        }
        COp::G => match *my_ino {
            Some(i) => {
                if let Err(e) = fs.getattr(&ctx, i, None) {
                    log.lock().unwrap().errors.push(format!("getattr({}) failed while this thread still holds a reference: {}", i, e));
                }
            }
            None => log.lock().unwrap().errors.push("getattr without a known inode (an earlier lookup failed)".into()),
        },
    }
}

/// Builds a fresh filesystem, applies the grants, and returns the thread bodies.
pub fn prepare(tree: &Tree, sc: &Scenario) -> (Run, Vec<Box<dyn FnOnce() + Send>>) {
    let fs = new_fs(tree, sc.cfg);
    let ctx = Context::new();
    let rd = fs.lookup(&ctx, 1, &cs("rd")).expect("lookup rd").inode;
    let rd2 = fs.lookup(&ctx, 1, &cs("rd2")).expect("lookup rd2").inode;
    let mut granted_ino = None;
    for g in &sc.grants {
        for _ in 0..*g {
            granted_ino = Some(fs.lookup(&ctx, 1, &cs("a")).expect("grant lookup").inode);
        }
    }
    let mut bodies: Vec<Box<dyn FnOnce() + Send>> = Vec::new();
    let mut logs = Vec::new();
    for (t, prog) in sc.progs.iter().enumerate() {
        let log = Arc::new(Mutex::new(ThreadLog::default()));
        logs.push(log.clone());
        let fs2 = fs.clone();
        let prog = prog.clone();
        let mut my = if sc.grants[t] > 0 { granted_ino } else { None };
        bodies.push(Box::new(move || {
            for op in prog {
                do_op(&fs2, rd, rd2, op, &mut my, &log);
            }
        }));
    }
    (Run { fs, rd, rd2, granted_ino, logs }, bodies)
}

/// The oracle for one completed execution.
pub fn judge(run: &Run, sc: &Scenario) -> Vec<(String, String)> {
    let mut bad = Vec::new();
    let mut inos: Vec<u64> = Vec::new();
    if let Some(g) = run.granted_ino {
        inos.push(g);
    }
    for (t, l) in run.logs.iter().enumerate() {
        let l = l.lock().unwrap();
        for e in &l.errors {
            let class = if e.starts_with("getattr") { "reference-not-usable" } else if e.starts_with("lookup") || e.starts_with("readdirplus") { "lookup-failed" } else { "follow-up" };
            bad.push((class.to_string(), format!("thread {}: {}", t, e)));
        }
        inos.extend(l.inodes.iter());
    }
    let mut distinct = inos.clone();
    distinct.sort_unstable();
    distinct.dedup();
    if distinct.len() > 1 {
        bad.push(("different-inode-numbers".into(), format!("lookups of one file returned inode numbers {:?}", distinct)));
    }
    let expected: u64 = sc.progs.iter().zip(&sc.grants).map(|(p, g)| owned_after(p, *g)).sum();
    if let Some(ino) = distinct.first() {
        let got = run.fs.verif_refcount(*ino);
        let want = if expected > 0 { Some(expected) } else { None };
        if got != want && bad.is_empty() {
            let class = match (got, want) {
                (None, Some(_)) => "live-inode-missing",
                (Some(g), Some(w)) if g < w => "reference-lost",
                (Some(_), Some(_)) => "reference-excess",
                (Some(_), None) => "entry-not-removed",
                _ => "count",
            };
            bad.push((class.into(), format!("final lookup count of inode {} is {:?}, lookups minus forgets is {:?}", ino, got, want)));
        }
    }
    let live = run.fs.verif_table_sizes().0;
    let want_live = 3 + if expected > 0 { 1 } else { 0 };
    if live != want_live && bad.is_empty() {
        bad.push(("inode-objects".into(), format!("{} live inode objects, expected {} (root, rd, rd2{})", live, want_live, if expected > 0 { ", the file" } else { "" })));
    }
    // every outstanding reference must still be usable, and dropping them must remove the entry
    if bad.is_empty() && expected > 0 {
        let ctx = Context::new();
        let ino = distinct[0];
        if let Err(e) = run.fs.getattr(&ctx, ino, None) {
            bad.push(("reference-not-usable".into(), format!("getattr({}) after the run failed with {} although {} references are outstanding", ino, e, expected)));
        }
        run.fs.forget(&ctx, ino, expected);
        if run.fs.verif_refcount(ino).is_some() || run.fs.verif_table_sizes().0 != 3 {
            bad.push(("entry-not-removed".into(), format!("after forgetting the {} outstanding references inode {} is still live", expected, ino)));
        }
    }
    bad
}

pub fn scenarios(thorough: bool) -> Vec<Scenario> {
    let mut out = Vec::new();
    let alpha2: Vec<COp> = vec![COp::La, COp::Lh, COp::Lx, COp::Rp, COp::F, COp::F2, COp::G];
    let alpha3: Vec<COp> = vec![COp::La, COp::Lh, COp::F, COp::G];
    for cfg in 0..CFGS.len() {
        // two threads
        let maxlen = if thorough { 3 } else { 2 };
        for g0 in 0..=2u64 {
            for g1 in 0..=g0.min(1) {
                let p0 = programs(maxlen, g0, &alpha2);
                let p1 = programs(if thorough { 2 } else { 2 }, g1, &alpha2);
                for a in &p0 {
                    for b in &p1 {
                        // by symmetry keep one of (a,b)/(b,a) when the grants are equal
                        if g0 == g1 && format!("{:?}", a) > format!("{:?}", b) {
                            continue;
                        }
                        // some thread must forget or two threads must look up: otherwise nothing races
                        out.push(Scenario { cfg, grants: vec![g0, g1], progs: vec![a.clone(), b.clone()] });
                    }
                }
            }
        }
        // two threads, second alphabet: references dropped through batch_forget, taken through CREATE on the existing name
        let alpha_b: Vec<COp> = vec![COp::La, COp::Cr, COp::Bf1, COp::Bf2, COp::G];
        for g0 in 0..=2u64 {
            for g1 in 0..=g0.min(1) {
                let p0 = programs(2, g0, &alpha_b);
                let p1 = programs(2, g1, &alpha_b);
                for a in &p0 {
                    for b in &p1 {
                        if g0 == g1 && format!("{:?}", a) > format!("{:?}", b) {
                            continue;
                        }
                        // scenarios made of La / G only are part of the first family
                        if !a.iter().chain(b.iter()).any(|o| matches!(o, COp::Cr | COp::Bf1 | COp::Bf2)) {
                            continue;
                        }
                        out.push(Scenario { cfg, grants: vec![g0, g1], progs: vec![a.clone(), b.clone()] });
                    }
                }
            }
        }
        // two threads, third alphabet: a plain READDIR over two names of the file (lookups and forgets inside the server)
        // against lookups and forgets of the client
        let alpha_c: Vec<COp> = vec![COp::La, COp::Rd, COp::F];
        for g0 in 0..=1u64 {
            for g1 in 0..=g0 {
                let p0 = programs(2, g0, &alpha_c);
                let p1 = programs(if thorough { 2 } else { 1 }, g1, &alpha_c);
                for a in &p0 {
                    for b in &p1 {
                        if g0 == g1 && format!("{:?}", a) > format!("{:?}", b) {
                            continue;
                        }
                        if !a.iter().chain(b.iter()).any(|o| matches!(o, COp::Rd)) {
                            continue;
                        }
                        out.push(Scenario { cfg, grants: vec![g0, g1], progs: vec![a.clone(), b.clone()] });
                    }
                }
            }
        }
        // three threads, shorter programs
        for grants in [[0u64, 0, 0], [1, 0, 0], [1, 1, 0], [1, 1, 1]] {
            let ps: Vec<Vec<Vec<COp>>> = grants.iter().map(|g| programs(if thorough { 2 } else { 1 }, *g, &alpha3)).collect();
            for a in &ps[0] {
                for b in &ps[1] {
                    for c in &ps[2] {
                        if grants[0] == grants[1] && format!("{:?}", a) > format!("{:?}", b) {
                            continue;
                        }
                        if grants[1] == grants[2] && format!("{:?}", b) > format!("{:?}", c) {
                            continue;
                        }
                        out.push(Scenario { cfg, grants: grants.to_vec(), progs: vec![a.clone(), b.clone(), c.clone()] });
                    }
                }
            }
        }
    }
    out
}

pub fn c09(args: &Args) -> Report {
    let mut rep = args.report();
    let thorough = args.thorough();
    let all = scenarios(thorough);
    let tree = Tree::new(&format!("s{}", args.shard));
    let bound2: Option<usize> = if thorough { None } else { Some(2) };
    let bound3: Option<usize> = if thorough { Some(3) } else { Some(2) };
    let cap: u64 = if thorough { 2_000_000 } else { 20_000 };
    let mut total_sched = 0u64;
    let mut max_points = 0usize;
    let mut capped_scen = 0u64;
    let mut machinery: Vec<String> = Vec::new();
    for (idx, sc) in all.iter().enumerate() {
        if !rep.mine(idx as u64) {
            continue;
        }
        if rep.over_budget() {
            break;
        }
        let bound = if sc.progs.len() == 2 { bound2 } else { bound3 };
        let cur: std::cell::RefCell<Option<Run>> = std::cell::RefCell::new(None);
        let mut viols: Vec<(String, String, Vec<usize>, Vec<String>)> = Vec::new();
        let mut outcomes: std::collections::BTreeMap<String, u64> = Default::default();
        let res = sched::explore(
            bound,
            cap,
            || {
                let (run, bodies) = prepare(&tree, sc);
                *cur.borrow_mut() = Some(run);
                bodies
            },
            |ex| {
                let run = cur.borrow_mut().take().unwrap();
                let mut bad = if let Some(d) = &ex.deadlock { vec![(if d.starts_with("livelock") { "livelock" } else { "deadlock" }.to_string(), d.clone())] } else { judge(&run, sc) };
                let key = format!("{}thr:pre{}:{}", sc.progs.len(), ex.preemptions().min(4), if bad.is_empty() { "ok" } else { "VIOLATION" });
                *outcomes.entry(key).or_insert(0) += 1;
                let stop = !bad.is_empty();
                for (c, m) in bad.drain(..) {
                    viols.push((c, m, ex.choices().into_iter().take(200).collect(), ex.describe().into_iter().take(200).collect()));
                }
                stop
            },
        );
        match res {
            Ok((n, capped, mp)) => {
                total_sched += n;
                max_points = max_points.max(mp);
                if capped {
                    capped_scen += 1;
                    rep.capped = true;
                }
                rep.evaluations += n;
                rep.transitions += n * (mp as u64).max(1);
                for (k, v) in outcomes {
                    rep.outcome_n(&k, v);
                }
                rep.state_of(&(sc.cfg, format!("{:?}{:?}", sc.grants, sc.progs)));
                rep.sample(|| json!({"config": CFGS[sc.cfg].0, "grants": sc.grants, "programs": format!("{:?}", sc.progs), "schedules": n, "choice_points_max": mp}));
            }
            Err(e) => machinery.push(format!("{:?}: {}", sc, e)),
        }
        let mut seen = std::collections::BTreeSet::new();
        for (class, msg, choices, desc) in viols {
            if !seen.insert(class.clone()) {
                continue;
            }
            let progs = format!("{:?}", sc.progs);
            let grants = sc.grants.clone();
            let cfgname = CFGS[sc.cfg].0;
            rep.violation(&format!("C09/{}", class), &msg, || json!({"engine": "conc", "config": cfgname, "grants": grants, "programs": progs, "schedule": choices, "schedule_readable": desc}));
        }
    }
    rep.set("scenarios_all_shards", json!(all.len()));
    rep.set("schedules_this_shard", json!(total_sched));
    rep.set("max_choice_points", json!(max_points));
    rep.set("scenarios_capped", json!(capped_scen));
    rep.set("preemption_bound", json!({"two_threads": bound2, "three_threads": bound3}));
    if !machinery.is_empty() {
        rep.set("machinery_errors", json!(machinery));
        eprintln!("MACHINERY: {}", machinery[0]);
        std::process::exit(3);
    }
    rep
}
