//! Engine V: the VFS with scripted backends (C07 routing, C14 id mapping, C19 save/restore).
//! Every sequence of mount-table actions up to a depth; after every action a fixed observation
//! script walks the namespace through `Server<Arc<Vfs>>` and compares replies and backend call
//! logs with the reference model `refvfs`.

use std::any::Any;
use std::collections::{BTreeMap, BTreeSet};
use std::ffi::CStr;
use std::io;
use std::sync::{Arc, Mutex};
use std::time::Duration;

use fuse_backend_rs::abi::fuse_abi::{stat64, CreateIn, FsOptions, OpenOptions, SetattrValid};
use fuse_backend_rs::api::filesystem::{Context, DirEntry, Entry, FileSystem, ZeroCopyReader, ZeroCopyWriter};
use fuse_backend_rs::api::server::Server;
use fuse_backend_rs::api::{BackendFileSystem, Vfs, VfsOptions};
use serde_json::{json, Value};

use crate::args::Args;
use crate::client::{Client, EPANIC};
use crate::kabi as k;
use crate::report::Report;

pub type M = (u32, u32, u32); // (internal, external, range)

pub const IDS: [u32; 22] = [
    0, 4, 5, 9, 10, 14, 15, 99, 100, 109, 110, 999, 1000, 1009, 1010, 1999, 2000, 2009, 2010, 4294967285, 4294967286, 4294967295,
];

pub fn to_int(m: Option<M>, x: u32) -> u32 {
    match m {
        Some((i, e, n)) if x >= e && (x - e) < n => x - e + i,
        _ => x,
    }
}
pub fn to_ext(m: Option<M>, y: u32) -> u32 {
    match m {
        Some((i, e, n)) if y >= i && (y - i) < n => y - i + e,
        _ => y,
    }
}

// ------------------------------------------------------------------------------------------------
// scripted backend

thread_local! {
    /// called from Backend::destroy(), i.e. in the middle of Vfs::umount
    static DESTROY_HOOK: std::cell::RefCell<Option<Box<dyn Fn(usize)>>> = std::cell::RefCell::new(None);
}

pub struct Backend {
    pub inst: usize,
    pub root: u64,
    pub log: Arc<Mutex<Vec<String>>>,
}

const NFILES: u64 = 22;
const INO_D: u64 = 3;
const INO_G: u64 = 4;
const INO_F0: u64 = 100;
const INO_NEW: u64 = 50;

fn owner_of(ino: u64) -> (u32, u32) {
    let l = IDS.len() as u64;
    if (INO_F0..INO_F0 + NFILES).contains(&ino) {
        let i = ino - INO_F0;
        (IDS[i as usize], IDS[((i + 11) % l) as usize])
    } else if ino == 1 {
        // mount roots are owned by ids inside the small overlapping ranges
        (0, 109)
    } else if ino == 7 {
        (4, 100)
    } else {
        (IDS[((ino * 7) % l) as usize], IDS[((ino * 11 + 3) % l) as usize])
    }
}

impl Backend {
    fn say(&self, s: String) {
        self.log.lock().unwrap().push(format!("i{}:{}", self.inst, s));
    }
    fn is_dir(&self, ino: u64) -> bool {
        ino == self.root || ino == INO_D
    }
    fn known(&self, ino: u64) -> bool {
        ino == self.root || ino == INO_D || ino == INO_G || ino == INO_NEW || (INO_F0..INO_F0 + NFILES).contains(&ino)
    }
    fn entry_with(&self, ino: u64, owner: (u32, u32)) -> Entry {
        let mut st: stat64 = unsafe { std::mem::zeroed() };
        st.st_ino = ino;
        st.st_mode = if self.is_dir(ino) { libc::S_IFDIR | 0o755 } else { libc::S_IFREG | 0o644 };
        st.st_nlink = 1;
        st.st_uid = owner.0;
        st.st_gid = owner.1;
        st.st_size = 7;
        Entry { inode: ino, generation: 0, attr: st, attr_flags: 0, attr_timeout: Duration::from_secs(1), entry_timeout: Duration::from_secs(1) }
    }
    fn entry(&self, ino: u64) -> Entry {
        self.entry_with(ino, owner_of(ino))
    }
    fn children(&self, dir: u64) -> Vec<(String, u64)> {
        if dir == self.root {
            let mut v: Vec<(String, u64)> = (0..NFILES).map(|i| (format!("f{}", i), INO_F0 + i)).collect();
            v.push(("d".into(), INO_D));
            v
        } else if dir == INO_D {
            vec![("g".into(), INO_G)]
        } else {
            vec![]
        }
    }
    fn c(ctx: &Context) -> String {
        format!("ctx=({},{})", ctx.uid, ctx.gid)
    }
    fn enoent() -> io::Error {
        io::Error::from_raw_os_error(libc::ENOENT)
    }
}

impl FileSystem for Backend {
    type Inode = u64;
    type Handle = u64;

    fn init(&self, _c: FsOptions) -> io::Result<FsOptions> {
        self.log.lock().unwrap().push(format!("i{}:init", self.inst));
        Ok(FsOptions::empty())
    }
    fn destroy(&self) {
        self.log.lock().unwrap().push(format!("i{}:destroy", self.inst));
        // a client request arriving while the umount is in flight (see World::apply)
        DESTROY_HOOK.with(|h| {
            if let Some(f) = h.borrow().as_ref() {
                f(self.inst);
            }
        });
    }
    fn lookup(&self, ctx: &Context, parent: u64, name: &CStr) -> io::Result<Entry> {
        self.say(format!("lookup ino={} {}", parent, Self::c(ctx)));
        let n = name.to_str().unwrap_or("");
        if n == "." {
            return Ok(self.entry(parent));
        }
        match self.children(parent).into_iter().find(|(c, _)| c == n) {
            Some((_, ino)) => Ok(self.entry(ino)),
            None => Err(Self::enoent()),
        }
    }
    fn forget(&self, ctx: &Context, inode: u64, count: u64) {
        self.say(format!("forget ino={} n={} {}", inode, count, Self::c(ctx)));
    }
    fn getattr(&self, ctx: &Context, inode: u64, _h: Option<u64>) -> io::Result<(stat64, Duration)> {
        self.say(format!("getattr ino={} {}", inode, Self::c(ctx)));
        if !self.known(inode) {
            return Err(Self::enoent());
        }
        Ok((self.entry(inode).attr, Duration::from_secs(1)))
    }
    fn setattr(&self, ctx: &Context, inode: u64, attr: stat64, _h: Option<u64>, valid: SetattrValid) -> io::Result<(stat64, Duration)> {
        self.say(format!("setattr ino={} {} st=({},{}) valid={:#x}", inode, Self::c(ctx), attr.st_uid, attr.st_gid, valid.bits()));
        let mut o = owner_of(inode);
        if valid.contains(SetattrValid::UID) {
            o.0 = attr.st_uid;
        }
        if valid.contains(SetattrValid::GID) {
            o.1 = attr.st_gid;
        }
        Ok((self.entry_with(inode, o).attr, Duration::from_secs(1)))
    }
    fn readlink(&self, ctx: &Context, inode: u64) -> io::Result<Vec<u8>> {
        self.say(format!("readlink ino={} {}", inode, Self::c(ctx)));
        Ok(b"target".to_vec())
    }
    fn symlink(&self, ctx: &Context, _l: &CStr, parent: u64, _n: &CStr) -> io::Result<Entry> {
        self.say(format!("symlink ino={} {}", parent, Self::c(ctx)));
        Ok(self.entry_with(INO_NEW, (ctx.uid, ctx.gid)))
    }
    fn mknod(&self, ctx: &Context, parent: u64, _n: &CStr, _m: u32, _r: u32, _u: u32) -> io::Result<Entry> {
        self.say(format!("mknod ino={} {}", parent, Self::c(ctx)));
        Ok(self.entry_with(INO_NEW, (ctx.uid, ctx.gid)))
    }
    fn mkdir(&self, ctx: &Context, parent: u64, _n: &CStr, _m: u32, _u: u32) -> io::Result<Entry> {
        self.say(format!("mkdir ino={} {}", parent, Self::c(ctx)));
        Ok(self.entry_with(INO_NEW, (ctx.uid, ctx.gid)))
    }
    fn unlink(&self, ctx: &Context, parent: u64, _n: &CStr) -> io::Result<()> {
        self.say(format!("unlink ino={} {}", parent, Self::c(ctx)));
        Ok(())
    }
    fn rmdir(&self, ctx: &Context, parent: u64, _n: &CStr) -> io::Result<()> {
        self.say(format!("rmdir ino={} {}", parent, Self::c(ctx)));
        Ok(())
    }
    fn rename(&self, ctx: &Context, olddir: u64, _o: &CStr, newdir: u64, _n: &CStr, _f: u32) -> io::Result<()> {
        self.say(format!("rename ino={},{} {}", olddir, newdir, Self::c(ctx)));
        Ok(())
    }
    fn link(&self, ctx: &Context, inode: u64, newparent: u64, _n: &CStr) -> io::Result<Entry> {
        self.say(format!("link ino={},{} {}", inode, newparent, Self::c(ctx)));
        Ok(self.entry(inode))
    }
    fn open(&self, ctx: &Context, inode: u64, _f: u32, _ff: u32) -> io::Result<(Option<u64>, OpenOptions, Option<u32>)> {
        self.say(format!("open ino={} {}", inode, Self::c(ctx)));
        Ok((Some(inode + 1000), OpenOptions::empty(), None))
    }
    fn create(&self, ctx: &Context, parent: u64, _n: &CStr, _a: CreateIn) -> io::Result<(Entry, Option<u64>, OpenOptions, Option<u32>)> {
        self.say(format!("create ino={} {}", parent, Self::c(ctx)));
        Ok((self.entry_with(INO_NEW, (ctx.uid, ctx.gid)), Some(INO_NEW + 1000), OpenOptions::empty(), None))
    }
    fn read(&self, ctx: &Context, inode: u64, _h: u64, w: &mut dyn ZeroCopyWriter, _s: u32, _o: u64, _l: Option<u64>, _f: u32) -> io::Result<usize> {
        self.say(format!("read ino={} {}", inode, Self::c(ctx)));
        let d = format!("data-of-i{}", self.inst);
        w.write_all(d.as_bytes())?;
        Ok(d.len())
    }
    fn write(&self, ctx: &Context, inode: u64, _h: u64, _r: &mut dyn ZeroCopyReader, size: u32, _o: u64, _l: Option<u64>, _d: bool, _f: u32, _ff: u32) -> io::Result<usize> {
        self.say(format!("write ino={} {}", inode, Self::c(ctx)));
        Ok(size as usize)
    }
    fn release(&self, ctx: &Context, inode: u64, _f: u32, _h: u64, _fl: bool, _fr: bool, _l: Option<u64>) -> io::Result<()> {
        self.say(format!("release ino={} {}", inode, Self::c(ctx)));
        Ok(())
    }
    fn opendir(&self, ctx: &Context, inode: u64, _f: u32) -> io::Result<(Option<u64>, OpenOptions)> {
        self.say(format!("opendir ino={} {}", inode, Self::c(ctx)));
        Ok((Some(inode + 2000), OpenOptions::empty()))
    }
    fn readdir(&self, ctx: &Context, inode: u64, _h: u64, _s: u32, offset: u64, add: &mut dyn FnMut(DirEntry) -> io::Result<usize>) -> io::Result<()> {
        self.say(format!("readdir ino={} {}", inode, Self::c(ctx)));
        for (i, (n, ino)) in self.children(inode).iter().enumerate().skip(offset as usize) {
            if add(DirEntry { ino: *ino, offset: i as u64 + 1, type_: if self.is_dir(*ino) { 4 } else { 8 }, name: n.as_bytes() })? == 0 {
                break;
            }
        }
        Ok(())
    }
    fn readdirplus(&self, ctx: &Context, inode: u64, _h: u64, _s: u32, offset: u64, add: &mut dyn FnMut(DirEntry, Entry) -> io::Result<usize>) -> io::Result<()> {
        self.say(format!("readdirplus ino={} {}", inode, Self::c(ctx)));
        for (i, (n, ino)) in self.children(inode).iter().enumerate().skip(offset as usize) {
            if add(DirEntry { ino: *ino, offset: i as u64 + 1, type_: if self.is_dir(*ino) { 4 } else { 8 }, name: n.as_bytes() }, self.entry(*ino))? == 0 {
                break;
            }
        }
        Ok(())
    }
    fn releasedir(&self, ctx: &Context, inode: u64, _f: u32, _h: u64) -> io::Result<()> {
        self.say(format!("releasedir ino={} {}", inode, Self::c(ctx)));
        Ok(())
    }
    fn access(&self, ctx: &Context, inode: u64, _m: u32) -> io::Result<()> {
        self.say(format!("access ino={} {}", inode, Self::c(ctx)));
        Ok(())
    }
    fn statfs(&self, ctx: &Context, inode: u64) -> io::Result<libc::statvfs64> {
        self.say(format!("statfs ino={} {}", inode, Self::c(ctx)));
        Ok(unsafe { std::mem::zeroed() })
    }
    fn lseek(&self, ctx: &Context, inode: u64, _h: u64, o: u64, _w: u32) -> io::Result<u64> {
        self.say(format!("lseek ino={} {}", inode, Self::c(ctx)));
        Ok(o)
    }
}

impl BackendFileSystem for Backend {
    fn mount(&self) -> io::Result<(Entry, u64)> {
        Ok((self.entry(self.root), fuse_backend_rs::api::VFS_MAX_INO))
    }
    fn as_any(&self) -> &dyn Any {
        self
    }
}

// ------------------------------------------------------------------------------------------------
// actions and the reference model

pub const PATHS: [&str; 4] = ["/", "/a", "/a/b", "/c"];
pub const KIND_ROOT: [u64; 3] = [1, 7, 1];
pub const MAPS: [Option<M>; 4] = [None, Some((100, 2000, 10)), Some((0, 5, 10)), Some((100, 2000, 0))];
/// mount paths that are not normalised: (spelling handed to mount/umount, the path it denotes, pseudo directories
/// that walking the spelling creates on the way); addressed as path index PATHS.len() + i
pub const SPELLED: [(&str, &str, &[&str]); 2] = [("/a/../c", "/c", &["/a"]), ("/a/./b", "/a/b", &[])];

fn path_of(idx: usize) -> (&'static str, &'static str, &'static [&'static str]) {
    if idx < PATHS.len() {
        (PATHS[idx], PATHS[idx], &[])
    } else {
        SPELLED[idx - PATHS.len()]
    }
}
pub const GLOBALS: [Option<M>; 5] = [None, Some((0, 1000, 10)), Some((0, 5, 10)), Some((0, 4294967286, 10)), Some((5, 5, 3))];

#[derive(Clone, Copy, Debug, PartialEq, Eq, Hash)]
pub enum Act {
    Mount { kind: usize, path: usize, map: usize },
    Umount { path: usize },
    /// n mount+umount cycles at /z: advances the slot allocator without changing the namespace
    Cycle(usize),
    /// restore_mount of a fresh backend onto a path that is mounted, at the index that mount has (what a manager
    /// replaying its mount list does): the backend is replaced in place; not applicable when the path is not mounted
    Remount { kind: usize, path: usize },
    /// a mount (with a per-mount mapping) that fails after its index was allocated: the path is not absolute
    MountBad { map: usize },
}

#[derive(Clone, Debug)]
pub struct Inst {
    pub id: usize,
    pub kind: usize,
    pub slot: u8,
    pub map: Option<M>,
    pub path: String,
    pub alive: bool,
}

pub struct World {
    pub vfs: Arc<Vfs>,
    pub server: Server<Arc<Vfs>>,
    pub log: Arc<Mutex<Vec<String>>>,
    pub insts: Vec<Inst>,
    /// mount path -> index into insts
    pub mounts: BTreeMap<String, usize>,
    /// pseudo directories that exist (paths), with the inode number first seen for them
    pub pseudo: BTreeMap<String, Option<u64>>,
    pub global: Option<M>,
    pub remove_pseudo_root: bool,
    pub viol: Vec<(String, String)>,
    pub requests: u64,
    pub ids: bool,
    pub aliased: u64,
}

fn ancestors(path: &str) -> Vec<String> {
    let mut v = Vec::new();
    let mut cur = String::new();
    for comp in path.split('/').filter(|c| !c.is_empty()) {
        cur.push('/');
        cur.push_str(comp);
        v.push(cur.clone());
    }
    v
}

impl World {
    pub fn new(global: Option<M>, remove_pseudo_root: bool, ids: bool) -> World {
        let opts = VfsOptions { id_mapping: global.unwrap_or((0, 0, 0)), no_open: false, no_opendir: false, ..VfsOptions::default() };
        let mut vfs = Vfs::new(opts);
        if remove_pseudo_root {
            vfs.set_remove_pseudo_root();
        }
        let vfs = Arc::new(vfs);
        World {
            server: Server::new(vfs.clone()),
            vfs,
            log: Arc::new(Mutex::new(Vec::new())),
            insts: Vec::new(),
            mounts: BTreeMap::new(),
            pseudo: BTreeMap::new(),
            global,
            remove_pseudo_root,
            viol: Vec::new(),
            requests: 0,
            ids,
            aliased: 0,
        }
    }

    fn take_log(&self) -> Vec<String> {
        std::mem::take(&mut *self.log.lock().unwrap())
    }

    fn bad(&mut self, class: &str, msg: String) {
        self.viol.push((class.to_string(), msg));
    }

    fn eff(&self, i: &Inst) -> Option<M> {
        i.map.or(self.global)
    }

    fn slot_live(&self, slot: u8) -> Option<usize> {
        self.insts.iter().position(|i| i.alive && i.slot == slot)
    }

    pub fn apply(&mut self, act: Act) {
        match act {
            Act::Mount { kind, path, map } => {
                let id = self.insts.len();
                let b = Backend { inst: id, root: KIND_ROOT[kind], log: self.log.clone() };
                let (spelled, p, extra) = path_of(path);
                let live = self.insts.iter().filter(|i| i.alive).count();
                let res = std::panic::catch_unwind(std::panic::AssertUnwindSafe(|| self.vfs.mount_with_id_mapping(Box::new(b), spelled, MAPS[map])));
                self.take_log();
                match res {
                    Err(_) => self.bad("mount-panic", format!("mount at {} panicked", p)),
                    Ok(Ok(slot)) => {
                        if slot == 0 {
                            self.bad("mount-slot-zero", format!("mount at {} got the pseudo fs index", p));
                        }
                        if let Some(j) = self.slot_live(slot) {
                            // the slot handed out must be vacant (an over-mounted predecessor at the same path is vacated by this very mount)
                            if self.insts[j].path != p {
                                self.bad("mount-slot-occupied", format!("mount at {} got slot {} which belongs to the live mount at {}", p, slot, self.insts[j].path));
                            }
                        }
                        if let Some(&old) = self.mounts.get(p) {
                            self.insts[old].alive = false;
                        }
                        self.insts.push(Inst { id, kind, slot, map: MAPS[map], path: p.to_string(), alive: true });
                        self.mounts.insert(p.to_string(), id);
                        for a in ancestors(p) {
                            self.pseudo.entry(a).or_insert(None);
                        }
                        for e in extra {
                            for a in ancestors(e) {
                                self.pseudo.entry(a).or_insert(None);
                            }
                        }
                    }
                    Ok(Err(e)) => {
                        if live < 255 {
                            self.bad("mount-refused", format!("mount at {} failed with {} live mounts: {:?}", p, live, e));
                        }
                        self.insts.push(Inst { id, kind, slot: 0, map: None, path: p.to_string(), alive: false });
                    }
                }
            }
            Act::Umount { path } => {
                let (spelled, p, extra) = path_of(path);
                // a spelling through another directory only resolves while that pseudo directory exists
                let resolvable = extra.iter().all(|e| self.pseudo.contains_key(*e));
                // while the backend is being torn down (inside its destroy()) a client walks to the mount path: it must not
                // be handed the root of the filesystem that is going away
                let walked: Arc<Mutex<Option<Result<u64, i32>>>> = Arc::new(Mutex::new(None));
                {
                    let vfs = self.vfs.clone();
                    let w2 = walked.clone();
                    let comps: Vec<String> = p.split('/').filter(|c| !c.is_empty()).map(|c| c.to_string()).collect();
                    DESTROY_HOOK.with(|h| {
                        *h.borrow_mut() = Some(Box::new(move |_inst| {
                            let ctx = Context::new();
                            let mut cur = 1u64;
                            let mut res: Result<u64, i32> = Ok(1);
                            for c in &comps {
                                match vfs.lookup(&ctx, cur.into(), &std::ffi::CString::new(c.as_str()).unwrap()) {
                                    Ok(e) => {
                                        cur = e.inode;
                                        res = Ok(e.inode);
                                    }
                                    Err(e) => {
                                        res = Err(e.raw_os_error().unwrap_or(-1));
                                        break;
                                    }
                                }
                            }
                            *w2.lock().unwrap() = Some(res);
                        }));
                    });
                }
                let dying = self.mounts.get(p).map(|i| self.insts[*i].slot);
                let res = std::panic::catch_unwind(std::panic::AssertUnwindSafe(|| self.vfs.umount(spelled)));
                DESTROY_HOOK.with(|h| *h.borrow_mut() = None);
                self.take_log();
                if let (Some(slot), Some(Ok(ino))) = (dying, *walked.lock().unwrap()) {
                    if p != "/" && ino >> 56 == slot as u64 {
                        self.bad("umount-in-flight/mount-point-still-crossed", format!("while the backend at {} (slot {}) was being destroyed, a walk to {} was handed its root {:#x}", p, slot, p, ino));
                    }
                }
                match res {
                    Err(_) => self.bad("umount-panic", format!("umount {} panicked", p)),
                    Ok(r) => {
                        let mounted = self.mounts.contains_key(p) && resolvable;
                        if r.is_ok() != mounted {
                            self.bad("umount-result", format!("umount {} returned {:?}, mounted = {}", p, r.is_ok(), mounted));
                        }
                        if r.is_ok() {
                            if let Some(i) = self.mounts.remove(p) {
                                self.insts[i].alive = false;
                            }
                            if self.remove_pseudo_root && p != "/" {
                                // a pseudo directory that still leads to other entries stays
                                let prefix = format!("{}/", p);
                                if !self.pseudo.keys().any(|k| k.starts_with(&prefix)) {
                                    self.pseudo.remove(p);
                                }
                            }
                        }
                    }
                }
            }
            Act::Remount { kind, path } => {
                let (_, p, _) = path_of(path);
                if let Some(&old) = self.mounts.get(p) {
                    let (slot, map) = (self.insts[old].slot, self.insts[old].map);
                    let id = self.insts.len();
                    let b = Backend { inst: id, root: KIND_ROOT[kind], log: self.log.clone() };
                    let res = std::panic::catch_unwind(std::panic::AssertUnwindSafe(|| self.vfs.restore_mount(Box::new(b), slot, p)));
                    self.take_log();
                    match res {
                        Err(_) => self.bad("remount-panic", format!("restore_mount at {} (index {}) panicked", p, slot)),
                        Ok(Err(e)) => self.bad("remount-refused", format!("restore_mount at {} (index {}) failed: {:?}", p, slot, e)),
                        Ok(Ok(())) => {
                            self.insts[old].alive = false;
                            self.insts.push(Inst { id, kind, slot, map, path: p.to_string(), alive: true });
                            self.mounts.insert(p.to_string(), id);
                        }
                    }
                }
            }
            Act::MountBad { map } => {
                let id = self.insts.len();
                let b = Backend { inst: id, root: 1, log: self.log.clone() };
                let res = std::panic::catch_unwind(std::panic::AssertUnwindSafe(|| self.vfs.mount_with_id_mapping(Box::new(b), "rel/path", MAPS[map])));
                self.take_log();
                match res {
                    Err(_) => self.bad("mount-panic", "mount at a relative path panicked".into()),
                    Ok(Ok(slot)) => self.bad("mount-bad-path-accepted", format!("mount at the relative path rel/path succeeded with index {}", slot)),
                    Ok(Err(_)) => {}
                }
                self.insts.push(Inst { id, kind: 0, slot: 0, map: None, path: "rel/path".into(), alive: false });
            }
            Act::Cycle(n) => {
                for _ in 0..n {
                    let id = 1_000_000;
                    let b = Backend { inst: id, root: 1, log: self.log.clone() };
                    match self.vfs.mount(Box::new(b), "/z") {
                        Ok(_) => {
                            let _ = self.vfs.umount("/z");
                        }
                        Err(_) => break,
                    }
                }
                self.take_log();
                if !self.remove_pseudo_root {
                    self.pseudo.entry("/z".into()).or_insert(None);
                }
            }
        }
    }

    /// One request; `expect`: the backend call log the model predicts.
    fn check_log(&mut self, probe: &str, expect: &[String]) {
        let got = self.take_log();
        if got != expect {
            let class = if got.is_empty() {
                "not-delivered"
            } else if expect.is_empty() {
                "reached-a-backend"
            } else if got.len() != expect.len() {
                "call-count"
            } else {
                let (g, e) = (&got[0], &expect[0]);
                let gi = g.split(':').next().unwrap_or("");
                let ei = e.split(':').next().unwrap_or("");
                let gino = g.split(' ').nth(1).unwrap_or("");
                let eino = e.split(' ').nth(1).unwrap_or("");
                if gi != ei {
                    "wrong-backend"
                } else if gino != eino {
                    "wrong-inode"
                } else if g.split("ctx=").nth(1).map(|x| x.split(' ').next()) != e.split("ctx=").nth(1).map(|x| x.split(' ').next()) {
                    "id:caller-ids"
                } else {
                    "id:owner-ids-to-set"
                }
            };
            self.bad(&format!("{}/{}", probe, class), format!("backends logged {:?}, expected {:?}", got, expect));
        }
    }

    fn id_check(&mut self, probe: &str, what: &str, got: (u32, u32), want: (u32, u32)) {
        if self.ids && got != want {
            self.bad(&format!("{}/id:{}", probe, what), format!("client sees owner ({},{}), expected ({},{})", got.0, got.1, want.0, want.1));
        }
    }

    /// The observation script.
    pub fn observe(&mut self, cl: &mut Client, deep: bool) {
        let srv = Server::new(self.vfs.clone());
        let root_mounted = self.mounts.contains_key("/");
        let n0 = cl.nreq;
        // callers cycle through the id table
        let mut rot = (cl.nreq as usize) % IDS.len();
        let mut next_ids = |cl: &mut Client, ids: bool| -> (u32, u32) {
            if !ids {
                cl.creds(0, 0);
                return (0, 0);
            }
            rot = (rot + 1) % IDS.len();
            let c = (IDS[rot], IDS[(rot + 7) % IDS.len()]);
            cl.creds(c.0, c.1);
            c
        };
        let ids = self.ids;

        // ---- 1. walk the pseudo tree from the root
        let mut reach: Vec<(usize, u64)> = Vec::new(); // (inst index, client inode of its root)
        if root_mounted {
            let ri = self.mounts["/"];
            reach.push((ri, 1));
        } else {
            let paths: Vec<String> = self.pseudo.keys().cloned().collect();
            for p in paths {
                // resolve parent inode by walking
                let comps: Vec<&str> = p.split('/').filter(|c| !c.is_empty()).collect();
                let mut cur = 1u64;
                let mut ok = true;
                let mut walked = String::new();
                for (ci, comp) in comps.iter().enumerate() {
                    walked.push('/');
                    walked.push_str(comp);
                    let last = ci + 1 == comps.len();
                    if !last {
                        if self.mounts.contains_key(&walked) {
                            // the walk enters a mounted filesystem: deeper pseudo entries are shadowed
                            ok = false;
                            break;
                        }
                        match cl.lookup(&srv, cur, comp.as_bytes()) {
                            Ok(e) => cur = e.nodeid,
                            Err(_) => {
                                ok = false;
                                break;
                            }
                        }
                        self.take_log();
                        continue;
                    }
                    let caller = next_ids(cl, ids);
                    let _ = caller;
                    let r = cl.lookup(&srv, cur, comp.as_bytes());
                    self.check_log("walk-lookup", &[]);
                    match (r, self.mounts.get(&walked).copied()) {
                        (Ok(e), Some(ii)) => {
                            let inst = self.insts[ii].clone();
                            let want = ((inst.slot as u64) << 56) | KIND_ROOT[inst.kind];
                            if e.nodeid != want || e.attr.ino != want {
                                self.bad("walk-lookup/mountpoint-inode", format!("lookup of mount point {} gives nodeid {:#x} st_ino {:#x}, expected {:#x}", walked, e.nodeid, e.attr.ino, want));
                            } else {
                                reach.push((ii, e.nodeid));
                            }
                            let o = owner_of(KIND_ROOT[inst.kind]);
                            let m = self.eff(&inst);
                            self.id_check("walk-lookup", "mount-root-owner", (e.attr.uid, e.attr.gid), (to_ext(m, o.0), to_ext(m, o.1)));
                        }
                        (Ok(e), None) => {
                            if e.nodeid >> 56 != 0 {
                                self.bad("walk-lookup/pseudo-inode", format!("pseudo directory {} has nodeid {:#x} outside the pseudo range", walked, e.nodeid));
                            }
                            let known = self.pseudo.get(&walked).copied().flatten();
                            match known {
                                Some(k0) if k0 != e.nodeid => self.bad("walk-lookup/pseudo-inode-changed", format!("pseudo directory {} was {:#x}, now {:#x}", walked, k0, e.nodeid)),
                                None => {
                                    self.pseudo.insert(walked.clone(), Some(e.nodeid));
                                }
                                _ => {}
                            }
                            // getattr agrees
                            if let Ok(a) = cl.getattr(&srv, e.nodeid, None) {
                                if a.ino != e.nodeid {
                                    self.bad("pseudo-getattr/inode", format!("pseudo dir {} st_ino {:#x} vs nodeid {:#x}", walked, a.ino, e.nodeid));
                                }
                            }
                            self.check_log("pseudo-getattr", &[]);
                        }
                        (Err(en), _) => {
                            if en == EPANIC {
                                self.bad("walk-lookup/panic", format!("lookup of {} panicked", walked));
                            } else {
                                self.bad("walk-lookup/missing", format!("pseudo path {} does not resolve: errno {}", walked, en));
                            }
                        }
                    }
                }
                let _ = ok;
            }
            // a name that was never mounted does not exist and reaches no backend
            let r = cl.lookup(&srv, 1, b"nonexistent");
            if r.is_ok() {
                self.bad("walk-lookup/phantom", "lookup of a name that was never mounted succeeded".into());
            }
            self.check_log("walk-lookup-missing", &[]);
            // listing of the root pseudo directory agrees with lookup
            for plus in [false, true] {
                if let Ok(ents) = cl.readdir(&srv, 1, 0, 0, 4096, plus) {
                    self.check_log("pseudo-readdir", &[]);
                    let top: BTreeSet<String> = self.pseudo.keys().filter(|p| p.matches('/').count() == 1).map(|p| p[1..].to_string()).collect();
                    let got: BTreeSet<String> = ents.iter().map(|d| String::from_utf8_lossy(&d.name).to_string()).collect();
                    if got != top {
                        self.bad("pseudo-readdir/names", format!("root lists {:?}, pseudo tree has {:?}", got, top));
                    }
                    for d in &ents {
                        let path = format!("/{}", String::from_utf8_lossy(&d.name));
                        let want = match self.mounts.get(&path) {
                            Some(&ii) => ((self.insts[ii].slot as u64) << 56) | KIND_ROOT[self.insts[ii].kind],
                            None => self.pseudo.get(&path).copied().flatten().unwrap_or(d.ino),
                        };
                        if d.ino != want {
                            self.bad(if plus { "pseudo-readdirplus/inode" } else { "pseudo-readdir/inode" }, format!("entry {} has ino {:#x}, lookup gives {:#x}", path, d.ino, want));
                        }
                        if let Some(eb) = &d.entry {
                            let e = crate::client::parse_entry(eb);
                            if e.nodeid != want || e.attr.ino != want {
                                self.bad("pseudo-readdirplus/entry-inode", format!("entry {}: nodeid {:#x} st_ino {:#x}, lookup gives {:#x}", path, e.nodeid, e.attr.ino, want));
                            }
                            if let Some(&ii) = self.mounts.get(&path) {
                                let inst = self.insts[ii].clone();
                                let o = owner_of(KIND_ROOT[inst.kind]);
                                let m = self.eff(&inst);
                                self.id_check("pseudo-readdirplus", "mount-root-owner", (e.attr.uid, e.attr.gid), (to_ext(m, o.0), to_ext(m, o.1)));
                            }
                        }
                    }
                } else {
                    self.take_log();
                }
            }
        }

        // live mounts that the walk cannot reach any more (a later mount on "/" or on a parent path shadows their mount
        // point): the node ids a client obtained earlier stay valid as long as the mount exists, and requests on them
        // must reach that backend with that mount's id mapping
        let reached: BTreeSet<usize> = reach.iter().map(|(ii, _)| *ii).collect();
        let shadowed: Vec<(usize, u64)> = self.insts.iter().enumerate().filter(|(i, inst)| inst.alive && inst.slot != 0 && !reached.contains(i)).map(|(i, inst)| (i, ((inst.slot as u64) << 56) | KIND_ROOT[inst.kind])).collect();
        reach.extend(shadowed);

        // ---- 2. requests on every reachable mount
        for (ii, ri) in reach.clone() {
            let inst = self.insts[ii].clone();
            let m = self.eff(&inst);
            let rr = KIND_ROOT[inst.kind];
            let tag = format!("i{}", inst.id);
            let slot = (inst.slot as u64) << 56;
            let ctxs = |c: (u32, u32)| format!("ctx=({},{})", to_int(m, c.0), to_int(m, c.1));
            // getattr on the mount root
            let c = next_ids(cl, ids);
            let r = cl.getattr(&srv, ri, None);
            self.check_log("getattr-root", &[format!("{}:getattr ino={} {}", tag, rr, ctxs(c))]);
            if let Ok(a) = &r {
                let want_ino = slot | rr;
                if a.ino != want_ino {
                    self.bad("getattr-root/st_ino", format!("st_ino {:#x}, the mount root is {:#x}", a.ino, want_ino));
                }
                let o = owner_of(rr);
                self.id_check("getattr-root", "owner", (a.uid, a.gid), (to_ext(m, o.0), to_ext(m, o.1)));
            } else {
                self.bad("getattr-root/failed", format!("getattr on mount root {:#x} failed: {:?}", ri, r));
            }
            // lookups of files: every id of the table appears as an owner
            let nf = if ids || deep { NFILES } else { 2 };
            let mut f0 = 0u64;
            for fi in 0..nf {
                let c = next_ids(cl, ids);
                let r = cl.lookup(&srv, ri, format!("f{}", fi).as_bytes());
                self.check_log("lookup", &[format!("{}:lookup ino={} {}", tag, rr, ctxs(c))]);
                match r {
                    Ok(e) => {
                        let want = slot | (INO_F0 + fi);
                        if e.nodeid != want || e.attr.ino != want {
                            self.bad("lookup/inode", format!("f{}: nodeid {:#x} st_ino {:#x}, expected {:#x}", fi, e.nodeid, e.attr.ino, want));
                        }
                        if fi == 0 {
                            f0 = e.nodeid;
                        }
                        let o = owner_of(INO_F0 + fi);
                        self.id_check("lookup", "owner", (e.attr.uid, e.attr.gid), (to_ext(m, o.0), to_ext(m, o.1)));
                    }
                    Err(en) => self.bad("lookup/failed", format!("lookup f{} under mount root failed: {}", fi, en)),
                }
            }
            // getattr / setattr on a file inode
            if f0 != 0 {
                let c = next_ids(cl, ids);
                let r = cl.getattr(&srv, f0, None);
                self.check_log("getattr", &[format!("{}:getattr ino={} {}", tag, INO_F0, ctxs(c))]);
                if let Ok(a) = r {
                    if a.ino != f0 {
                        self.bad("getattr/st_ino", format!("st_ino {:#x} for nodeid {:#x}", a.ino, f0));
                    }
                    let o = owner_of(INO_F0);
                    self.id_check("getattr", "owner", (a.uid, a.gid), (to_ext(m, o.0), to_ext(m, o.1)));
                }
                for (vi, valid) in [k::FATTR_UID | k::FATTR_GID, k::FATTR_UID, k::FATTR_GID, k::FATTR_MODE].iter().enumerate() {
                    if !ids && vi > 0 {
                        break;
                    }
                    let c = next_ids(cl, ids);
                    let set = if ids { let r0 = IDS.iter().position(|x| *x == c.0).unwrap_or(0); (IDS[(r0 + 3) % IDS.len()], IDS[(r0 + 13) % IDS.len()]) } else { (0, 0) };
                    let r = cl.setattr(&srv, f0, &[("valid", *valid), ("uid", set.0 as u64), ("gid", set.1 as u64), ("mode", 0o600)]);
                    self.check_log(
                        "setattr",
                        &[format!("{}:setattr ino={} {} st=({},{}) valid={:#x}", tag, INO_F0, ctxs(c), to_int(m, set.0), to_int(m, set.1), valid)],
                    );
                    if let Ok(a) = r {
                        let o = owner_of(INO_F0);
                        let bu = if valid & k::FATTR_UID != 0 { to_int(m, set.0) } else { o.0 };
                        let bg = if valid & k::FATTR_GID != 0 { to_int(m, set.1) } else { o.1 };
                        self.id_check("setattr", "owner", (a.uid, a.gid), (to_ext(m, bu), to_ext(m, bg)));
                    }
                }
            }
            // creating operations: the new object is owned by the (internal) caller, the client sees it mapped back
            for op in ["mkdir", "mknod", "symlink", "create"] {
                let c = next_ids(cl, ids);
                let r = match op {
                    "mkdir" => cl.mkdir(&srv, ri, b"n", 0o755, 0),
                    "mknod" => cl.mknod(&srv, ri, b"n", libc::S_IFREG | 0o644, 0, 0),
                    "symlink" => cl.symlink(&srv, ri, b"n", b"t"),
                    _ => cl.create(&srv, ri, b"n", libc::O_RDWR as u32, 0o644, 0).map(|x| x.0),
                };
                self.check_log(op, &[format!("{}:{} ino={} {}", tag, op, rr, ctxs(c))]);
                match r {
                    Ok(e) => {
                        if e.nodeid != slot | INO_NEW || e.attr.ino != slot | INO_NEW {
                            self.bad(&format!("{}/inode", op), format!("nodeid {:#x} st_ino {:#x}, expected {:#x}", e.nodeid, e.attr.ino, slot | INO_NEW));
                        }
                        self.id_check(op, "owner", (e.attr.uid, e.attr.gid), (to_ext(m, to_int(m, c.0)), to_ext(m, to_int(m, c.1))));
                    }
                    Err(en) => self.bad(&format!("{}/failed", op), format!("errno {}", en)),
                }
                if !ids && !deep && op == "mkdir" {
                    break;
                }
            }
            if f0 != 0 {
                let c = next_ids(cl, ids);
                let r = cl.link(&srv, f0, ri, b"l");
                self.check_log("link", &[format!("{}:link ino={},{} {}", tag, INO_F0, rr, ctxs(c))]);
                if let Ok(e) = r {
                    if e.nodeid != f0 {
                        self.bad("link/inode", format!("link returns nodeid {:#x} for {:#x}", e.nodeid, f0));
                    }
                    let o = owner_of(INO_F0);
                    self.id_check("link", "owner", (e.attr.uid, e.attr.gid), (to_ext(m, o.0), to_ext(m, o.1)));
                }
            }
            // name-only and two-inode operations inside the mount
            let c = next_ids(cl, ids);
            cl.unlink(&srv, ri, b"f1");
            self.check_log("unlink", &[format!("{}:unlink ino={} {}", tag, rr, ctxs(c))]);
            let c = next_ids(cl, ids);
            let e = cl.rename(&srv, ri, b"f1", ri, b"f2", 0);
            self.check_log("rename", &[format!("{}:rename ino={},{} {}", tag, rr, rr, ctxs(c))]);
            if e != 0 {
                self.bad("rename/failed", format!("rename inside one mount failed: {}", e));
            }
            // handle based
            if f0 != 0 && deep {
                let c = next_ids(cl, ids);
                let r = cl.read(&srv, f0, 1100, 0, 64, 0);
                self.check_log("read", &[format!("{}:read ino={} {}", tag, INO_F0, ctxs(c))]);
                if r.as_deref().ok() != Some(format!("data-of-i{}", inst.id).as_bytes()) {
                    self.bad("read/data", format!("read returned {:?}", r));
                }
                let c = next_ids(cl, ids);
                cl.forget(&srv, f0, 1);
                self.check_log("forget", &[format!("{}:forget ino={} n=1 {}", tag, INO_F0, ctxs(c))]);
            }
            // listings: the inode of a name is the same in lookup, readdir, readdirplus
            for plus in [false, true] {
                let c = next_ids(cl, ids);
                let r = cl.readdir(&srv, ri, 0, 0, 65536, plus);
                let opn = if plus { "readdirplus" } else { "readdir" };
                self.check_log(opn, &[format!("{}:{} ino={} {}", tag, opn, rr, ctxs(c))]);
                match r {
                    Ok(ents) => {
                        if ents.len() != NFILES as usize + 1 {
                            self.bad(&format!("{}/count", opn), format!("{} entries, the backend has {}", ents.len(), NFILES + 1));
                        }
                        for d in &ents {
                            let nm = String::from_utf8_lossy(&d.name).to_string();
                            let bino = if nm == "d" { INO_D } else { INO_F0 + nm[1..].parse::<u64>().unwrap_or(9999) };
                            if d.ino != slot | bino {
                                self.bad(&format!("{}/inode", opn), format!("{}: ino {:#x}, lookup gives {:#x}", nm, d.ino, slot | bino));
                            }
                            if let Some(eb) = &d.entry {
                                let e = crate::client::parse_entry(eb);
                                if e.nodeid != slot | bino || e.attr.ino != slot | bino {
                                    self.bad("readdirplus/entry-inode", format!("{}: nodeid {:#x} st_ino {:#x}, expected {:#x}", nm, e.nodeid, e.attr.ino, slot | bino));
                                }
                                let o = owner_of(bino);
                                self.id_check("readdirplus", "owner", (e.attr.uid, e.attr.gid), (to_ext(m, o.0), to_ext(m, o.1)));
                            }
                        }
                    }
                    Err(en) => self.bad(&format!("{}/failed", opn), format!("errno {}", en)),
                }
            }
        }

        // ---- 3. operations spanning two mounts (or a mount and the pseudo fs) are refused
        next_ids(cl, false);
        let mut roots: Vec<u64> = reach.iter().map(|x| x.1).collect();
        if !root_mounted {
            roots.push(1);
        }
        for (ai, a) in roots.iter().enumerate() {
            for (bi, b) in roots.iter().enumerate() {
                if ai == bi {
                    continue;
                }
                let e = cl.rename(&srv, *a, b"f0", *b, b"x", 0);
                if e == 0 {
                    self.bad("cross-mount-rename/accepted", format!("rename from {:#x} to {:#x} succeeded", a, b));
                }
                self.check_log("cross-mount-rename", &[]);
                if *a != 1 {
                    let src = (*a & (0xffu64 << 56)) | INO_F0;
                    let r = cl.link(&srv, if *a == 1 { 1 } else { src }, *b, b"x");
                    if r.is_ok() {
                        self.bad("cross-mount-link/accepted", format!("link from {:#x} into {:#x} succeeded", src, b));
                    }
                    self.check_log("cross-mount-link", &[]);
                }
            }
        }

        // ---- 4. inode numbers of dead mounts whose slot is vacant fail without reaching a backend
        let dead: Vec<Inst> = self.insts.iter().filter(|i| !i.alive && i.slot != 0).cloned().collect();
        for d in dead {
            if self.slot_live(d.slot).is_some() {
                self.aliased += 1;
                continue;
            }
            for ino in [KIND_ROOT[d.kind], INO_F0] {
                let n = ((d.slot as u64) << 56) | ino;
                let r = cl.getattr(&srv, n, None);
                if r.is_ok() {
                    self.bad("stale-inode/resolved", format!("inode {:#x} of the unmounted instance i{} still resolves", n, d.id));
                }
                self.check_log("stale-inode", &[]);
                let r = cl.lookup(&srv, n, b"f0");
                if r.is_ok() {
                    self.bad("stale-inode/resolved", format!("lookup under {:#x} of the unmounted instance i{} succeeded", n, d.id));
                }
                self.check_log("stale-inode", &[]);
            }
        }
        // a slot that was never used
        let n = (200u64 << 56) | 1;
        if self.slot_live(200).is_none() {
            if cl.getattr(&srv, n, None).is_ok() {
                self.bad("vacant-slot/resolved", format!("inode {:#x} in a vacant slot resolves", n));
            }
            self.check_log("vacant-slot", &[]);
        }
        self.requests += cl.nreq - n0;
    }
}

// ------------------------------------------------------------------------------------------------
// exploration

fn acts(ids: bool, cycles: bool) -> Vec<Act> {
    let mut v = Vec::new();
    let kinds: &[usize] = if ids { &[1] } else { &[0, 1, 2] };
    let maps: &[usize] = if ids { &[0, 1, 2, 3] } else { &[0] };
    for p in 0..PATHS.len() {
        for &kd in kinds {
            for &mp in maps {
                // id runs: one backend kind per (path, mapping), alternating between the kind whose root directory is
                // inode 1 (what most backends use; its node id is slot << 56 | 1) and the kind whose root is inode 7
                let kd = if ids { (p + mp) % 2 } else { kd };
                v.push(Act::Mount { kind: kd, path: p, map: mp });
            }
        }
    }
    for p in 0..PATHS.len() {
        v.push(Act::Umount { path: p });
    }
    // mount paths that are not normalised
    for i in 0..SPELLED.len() {
        v.push(Act::Mount { kind: kinds[0], path: PATHS.len() + i, map: maps[0] });
    }
    v.push(Act::Umount { path: PATHS.len() });
    // a backend replaced in place at its own index (restore_mount), and a mount that fails after taking an index
    for p in 0..PATHS.len() {
        if !ids || p == 1 || p == 3 {
            v.push(Act::Remount { kind: if ids { 1 } else { 2 }, path: p });
        }
    }
    if ids {
        for mp in [1, 3] {
            v.push(Act::MountBad { map: mp });
        }
    } else {
        v.push(Act::MountBad { map: 0 });
    }
    if cycles {
        v.push(Act::Cycle(253));
        v.push(Act::Cycle(254));
    }
    v
}

pub struct VExplore<'a> {
    rep: &'a mut Report,
    cl: Client,
    prop: &'a str,
    ids: bool,
    depth: usize,
    alphabet: Vec<Act>,
}

impl<'a> VExplore<'a> {
    fn run_seq(&mut self, global: Option<M>, rpr: bool, start: usize, seq: &[Act]) -> bool {
        // returns true if a violation cut the sequence
        let mut w = World::new(global, rpr, self.ids);
        match start {
            1 => w.apply(Act::Cycle(253)),
            _ => {}
        }
        let mut cut = false;
        for (i, a) in seq.iter().enumerate() {
            w.apply(*a);
            if w.viol.is_empty() {
                w.observe(&mut self.cl, i + 1 == seq.len() && seq.len() <= 2);
            }
            if !w.viol.is_empty() {
                cut = true;
                break;
            }
        }
        self.rep.eval();
        self.rep.transitions += w.requests + seq.len() as u64;
        self.rep.add("sum_aliased_slot_skips", w.aliased);
        let live: Vec<(String, u8)> = w.mounts.iter().map(|(p, i)| (p.clone(), w.insts[*i].slot)).collect();
        self.rep.state_of(&(format!("{:?}", live), w.pseudo.keys().cloned().collect::<Vec<_>>(), global, rpr));
        let last = format!("{:?}", seq.last().unwrap());
        let lastk = last.split(|c| c == ' ' || c == '(').next().unwrap_or("");
        self.rep.outcome(&format!("{}:{}:{}", lastk, live.len(), if cut { "VIOLATION" } else { "ok" }));
        self.rep.sample(|| json!({"global_mapping": format!("{:?}", global), "remove_pseudo_root": rpr, "start": start, "sequence": format!("{:?}", seq), "live_mounts": format!("{:?}", live)}));
        let mut seen = BTreeSet::new();
        for (class, msg) in &w.viol {
            if !seen.insert(class.clone()) {
                continue;
            }
            let is_id = class.contains("id:");
            if (self.prop == "C14") != is_id {
                continue;
            }
            let sig = format!("{}/{}", self.prop, class);
            let seqs = format!("{:?}", seq);
            self.rep.violation(&sig, msg, || json!({"engine": "vfs", "global_mapping": format!("{:?}", global), "remove_pseudo_root": rpr, "start": start, "sequence": seqs}));
        }
        cut
    }

    fn rec(&mut self, global: Option<M>, rpr: bool, start: usize, seq: &mut Vec<Act>) {
        let cut = self.run_seq(global, rpr, start, seq);
        if cut || seq.len() >= self.depth {
            return;
        }
        for a in self.alphabet.clone() {
            if matches!(a, Act::Cycle(_)) && seq.iter().any(|x| matches!(x, Act::Cycle(_))) {
                continue;
            }
            seq.push(a);
            self.rec(global, rpr, start, seq);
            seq.pop();
        }
    }
}

pub fn run(args: &Args, prop: &str) -> Report {
    let mut rep = args.report();
    let thorough = args.thorough();
    let ids = prop == "C14";
    let depth = match (ids, thorough) {
        (false, false) => 3,
        (false, true) => 4,
        (true, false) => 3,
        (true, true) => 4,
    };
    let alphabet = acts(ids, true);
    let globals: Vec<Option<M>> = if ids { GLOBALS.to_vec() } else { vec![None] };
    let mut idx = 0u64;
    let mut ex = VExplore { rep: &mut rep, cl: Client::new(), prop, ids, depth, alphabet: alphabet.clone() };
    ex.cl.cap = 1 << 17;
    for g in &globals {
        for rpr in [false, true] {
            if ids && rpr {
                continue;
            }
            for start in 0..2usize {
                for a in &alphabet {
                    for b in &alphabet {
                        // shard on the first two actions
                        if ex.rep.mine(idx) {
                            if matches!(a, Act::Cycle(_)) && matches!(b, Act::Cycle(_)) {
                                idx += 1;
                                continue;
                            }
                            let mut seq = vec![*a];
                            if b == &alphabet[0] {
                                // the length-1 prefix is evaluated once (with the first choice of b)
                                ex.run_seq(*g, rpr, start, &seq);
                            }
                            seq.push(*b);
                            ex.rec(*g, rpr, start, &mut seq);
                        }
                        idx += 1;
                    }
                    if ex.rep.over_budget() {
                        break;
                    }
                }
            }
        }
    }
    // targeted deeper histories (slot reuse after wrap-around), evaluated in every tier
    {
        let mp = |path: usize, map: usize| Act::Mount { kind: 1, path, map };
        let mut targeted: Vec<Vec<Act>> = Vec::new();
        for m in 1..MAPS.len() {
            // over-mount vacates a slot that had a per-mount mapping; 253 allocations later the slot is reused
            targeted.push(vec![mp(1, m), mp(1, 0), Act::Cycle(253), mp(3, 0)]);
            targeted.push(vec![mp(1, m), mp(1, 0), Act::Cycle(253), mp(3, 3 - m)]);
            // umount frees a slot that had a per-mount mapping; 254 allocations later the slot is reused
            targeted.push(vec![mp(1, m), Act::Umount { path: 1 }, Act::Cycle(254), mp(3, 0)]);
            targeted.push(vec![mp(2, m), Act::Umount { path: 2 }, Act::Cycle(254), mp(1, 0), mp(3, 0)]);
            targeted.push(vec![mp(0, m), mp(0, 0), Act::Cycle(253), mp(0, 0)]);
            // a mount that fails after its index (and mapping) was recorded; 254 allocations later the index is reused
            targeted.push(vec![Act::MountBad { map: m }, Act::Cycle(254), mp(3, 0)]);
            targeted.push(vec![mp(1, 0), Act::MountBad { map: m }, Act::Cycle(253), mp(3, 0), mp(2, 3 - m)]);
            // a backend replaced in place keeps the mapping of its mount
            targeted.push(vec![mp(1, m), Act::Remount { kind: 1, path: 1 }, mp(3, 0), Act::Remount { kind: 1, path: 3 }]);
        }
        let mut ex = VExplore { rep: &mut rep, cl: Client::new(), prop, ids, depth: 99, alphabet: vec![] };
        ex.cl.cap = 1 << 17;
        for g in &globals {
            for t in &targeted {
                if ex.rep.mine(idx) {
                    for n in 1..=t.len() {
                        if ex.run_seq(*g, false, 0, &t[..n]) {
                            break;
                        }
                    }
                }
                idx += 1;
            }
        }
    }
    // scripted scenario: the full table
    if rep.mine0((1 << 62) + 2) {
        full_table(&mut rep, prop);
    }
    rep.set("depth", json!(depth));
    rep.set("alphabet", json!(alphabet.iter().map(|a| format!("{:?}", a)).collect::<Vec<_>>()));
    rep.set("global_mappings", json!(globals.iter().map(|g| format!("{:?}", g)).collect::<Vec<_>>()));
    rep.set("start_states", json!(["fresh", "slot allocator advanced by 253 mount/umount cycles"]));
    rep.set("two_step_units_all_shards", json!(idx));
    rep
}

/// 255 live mounts: the next mount is refused and changes nothing; after one umount the freed slot
/// is handed out again and routes correctly.
fn full_table(rep: &mut Report, prop: &str) {
    let log = Arc::new(Mutex::new(Vec::new()));
    let vfs = Arc::new(Vfs::new(VfsOptions { no_open: false, no_opendir: false, ..VfsOptions::default() }));
    let srv = Server::new(vfs.clone());
    let mut cl = Client::new();
    let mut slots = BTreeSet::new();
    let mut problems: Vec<(String, String)> = vec![];
    for i in 0..255usize {
        match vfs.mount(Box::new(Backend { inst: i, root: 1, log: log.clone() }), &format!("/m{}", i)) {
            Ok(s) => {
                if !slots.insert(s) || s == 0 {
                    problems.push(("full-table/duplicate-slot".into(), format!("mount {} got slot {} again", i, s)));
                }
            }
            Err(e) => problems.push(("full-table/early-refusal".into(), format!("mount {} of 255 refused: {:?}", i, e))),
        }
    }
    let r = std::panic::catch_unwind(std::panic::AssertUnwindSafe(|| vfs.mount(Box::new(Backend { inst: 999, root: 1, log: log.clone() }), "/overflow")));
    match r {
        Err(_) => problems.push(("full-table/panic".into(), "the 256th mount panicked".into())),
        Ok(Ok(s)) => problems.push(("full-table/accepted".into(), format!("the 256th mount was accepted with slot {}", s))),
        Ok(Err(_)) => {}
    }
    log.lock().unwrap().clear();
    // every mount still routes to its own backend
    for i in [0usize, 1, 127, 253, 254] {
        if let Ok(e) = cl.lookup(&srv, 1, format!("m{}", i).as_bytes()) {
            let _ = cl.getattr(&srv, e.nodeid, None);
            let l = std::mem::take(&mut *log.lock().unwrap());
            if l != vec![format!("i{}:getattr ino=1 ctx=(0,0)", i)] {
                problems.push(("full-table/routing".into(), format!("getattr on /m{} logged {:?}", i, l)));
            }
        } else {
            problems.push(("full-table/walk".into(), format!("/m{} does not resolve", i)));
        }
    }
    let _ = vfs.umount("/m100");
    log.lock().unwrap().clear();
    match vfs.mount(Box::new(Backend { inst: 1000, root: 7, log: log.clone() }), "/again") {
        Ok(_) => {
            if let Ok(e) = cl.lookup(&srv, 1, b"again") {
                let _ = cl.getattr(&srv, e.nodeid, None);
                let l = std::mem::take(&mut *log.lock().unwrap());
                if l != vec!["i1000:getattr ino=7 ctx=(0,0)".to_string()] {
                    problems.push(("full-table/reuse-routing".into(), format!("getattr on /again logged {:?}", l)));
                }
            }
        }
        Err(e) => problems.push(("full-table/reuse-refused".into(), format!("mount after an umount refused: {:?}", e))),
    }
    rep.eval();
    rep.transitions += cl.nreq + 258;
    rep.outcome(&format!("full-table:{}", if problems.is_empty() { "ok" } else { "VIOLATION" }));
    if prop == "C07" {
        for (c, m) in problems {
            rep.violation(&format!("C07/{}", c), &m, || json!({"engine": "vfs-full-table"}));
        }
    }
}

pub fn _unused(_: Value) {}

// ------------------------------------------------------------------------------------------------
// C19: save / restore

#[derive(Clone, Copy, Debug, PartialEq, Eq, Hash)]
pub enum PAct {
    Mount { path: usize, map: usize },
    Umount { path: usize },
    Init(usize),
    Destroy,
    /// n mount+umount cycles at /z: moves the index allocator (a wrapping u8 cursor) without changing the namespace
    Cycle(usize),
}

const CAPS: [u64; 5] = [
    0x0000_0000_ffff_ffff & !(1 << 31),
    k::FUSE_ASYNC_READ | k::FUSE_BIG_WRITES,
    k::FUSE_INIT_EXT | k::FUSE_HAS_INODE_DAX | k::FUSE_NO_OPEN_SUPPORT | k::FUSE_NO_OPENDIR_SUPPORT | k::FUSE_ATOMIC_O_TRUNC,
    // exactly one of the zero-message capabilities (kernels before 5.1 offer only the first)
    k::FUSE_ASYNC_READ | k::FUSE_NO_OPEN_SUPPORT,
    k::FUSE_ASYNC_READ | k::FUSE_NO_OPENDIR_SUPPORT | k::FUSE_WRITEBACK_CACHE,
];

const PPATHS: [&str; 7] = ["/", "/a", "/a/b", "/c", "/n", "/n/m", "/a/../c"];

/// the path a PPATHS spelling denotes (key of the table of live mounts)
fn pnorm(p: &str) -> String {
    if p == "/a/../c" { "/c".to_string() } else { p.to_string() }
}

#[derive(Clone, Debug)]
struct Live {
    inst: usize,
    slot: u8,
    map: Option<M>,
}

/// A deterministic transcript of what a client can observe of `vfs`.
fn transcript(vfs: &Arc<Vfs>, log: &Arc<Mutex<Vec<String>>>, cl: &mut Client, old_inodes: &[u64]) -> Vec<String> {
    let srv = Server::new(vfs.clone());
    let mut t: Vec<String> = Vec::new();
    let take = |log: &Arc<Mutex<Vec<String>>>| -> String { std::mem::take(&mut *log.lock().unwrap()).join(";") };
    take(log);
    cl.creds(0, 0);
    let o = vfs.options();
    t.push(format!(
        "options in={:#x} out={:#x} no_open={} no_opendir={} no_writeback={} killpriv_v2={} no_readdir={} seal_size={} id_mapping={:?} initialized={}",
        o.in_opts.bits(), o.out_opts.bits(), o.no_open, o.no_opendir, o.no_writeback, o.killpriv_v2, o.no_readdir, o.seal_size, o.id_mapping, vfs.initialized()
    ));
    let mut found: Vec<u64> = vec![1];
    for p in PPATHS.iter().skip(1).chain(["/z"].iter()) {
        let mut cur = 1u64;
        let mut line = format!("walk {}:", p);
        for comp in p.split('/').filter(|c| !c.is_empty()) {
            match cl.lookup(&srv, cur, comp.as_bytes()) {
                Ok(e) => {
                    line.push_str(&format!(" {}={:#x}(ino {:#x} uid {} gid {} mode {:o})", comp, e.nodeid, e.attr.ino, e.attr.uid, e.attr.gid, e.attr.mode));
                    cur = e.nodeid;
                    if !found.contains(&cur) {
                        found.push(cur);
                    }
                }
                Err(en) => {
                    line.push_str(&format!(" {}=errno{}", comp, en));
                    break;
                }
            }
        }
        line.push_str(&format!(" log[{}]", take(log)));
        t.push(line);
    }
    let mut probe: Vec<u64> = found.clone();
    for i in old_inodes {
        if !probe.contains(i) {
            probe.push(*i);
        }
    }
    for (qi, n) in probe.iter().enumerate() {
        let c = (IDS[qi % IDS.len()], IDS[(qi * 3 + 5) % IDS.len()]);
        cl.creds(c.0, c.1);
        let a = cl.getattr(&srv, *n, None);
        t.push(format!(
            "getattr {:#x} as ({},{}): {} log[{}]",
            n,
            c.0,
            c.1,
            match a {
                Ok(a) => format!("ino {:#x} uid {} gid {}", a.ino, a.uid, a.gid),
                Err(e) => format!("errno{}", e),
            },
            take(log)
        ));
        for plus in [false, true] {
            let r = cl.readdir(&srv, *n, 0, 0, 65536, plus);
            t.push(format!(
                "readdir{} {:#x}: {} log[{}]",
                if plus { "plus" } else { "" },
                n,
                match r {
                    Ok(v) => {
                        let names: Vec<String> = v
                            .iter()
                            .map(|d| {
                                let e = d.entry.as_ref().map(|b| crate::client::parse_entry(b));
                                // the order of the entries and their continuation offsets are part of what a client sees
                                // (a listing may be continued after the restore)
                                format!("{}={:#x}@{}{}", String::from_utf8_lossy(&d.name), d.ino, d.off, e.map(|e| format!("/{:#x}/{}", e.nodeid, e.attr.uid)).unwrap_or_default())
                            })
                            .collect();
                        names.join(",")
                    }
                    Err(e) => format!("errno{}", e),
                },
                take(log)
            ));
        }
        cl.creds(0, 0);
        let l = cl.lookup(&srv, *n, b"f3");
        t.push(format!("lookup f3 under {:#x}: {} log[{}]", n, match l {
            Ok(e) => format!("{:#x} uid {}", e.nodeid, e.attr.uid),
            Err(e) => format!("errno{}", e),
        }, take(log)));
    }
    // behaviour that depends on the negotiated options
    let op = cl.open(&srv, 1, 0);
    t.push(format!("open root: {:?} log[{}]", op.map(|x| x.1), take(log)));
    let od = cl.opendir(&srv, 1, 0);
    t.push(format!("opendir root: {:?} log[{}]", od.map(|x| x.1), take(log)));
    t
}

/// Rebuilds the Vfs a prefix leads to (never saved or restored). Returns it with its live mounts.
fn c19_replay(rpr: bool, global: Option<M>, seq: &[PAct], cl: &mut Client) -> (Arc<Vfs>, BTreeMap<String, Live>, Arc<Mutex<Vec<String>>>) {
    let log = Arc::new(Mutex::new(Vec::new()));
    let opts = VfsOptions { id_mapping: global.unwrap_or((0, 0, 0)), ..VfsOptions::default() };
    let mut v = Vfs::new(opts);
    if rpr {
        v.set_remove_pseudo_root();
    }
    let orig = Arc::new(v);
    let srv = Server::new(orig.clone());
    let mut live: BTreeMap<String, Live> = BTreeMap::new();
    let mut ninst = 0usize;
    for a in seq {
        match a {
            PAct::Mount { path, map } => {
                let id = ninst;
                ninst += 1;
                if let Ok(slot) = orig.mount_with_id_mapping(Box::new(Backend { inst: id, root: 7, log: log.clone() }), PPATHS[*path], MAPS[*map]) {
                    live.insert(pnorm(PPATHS[*path]), Live { inst: id, slot, map: MAPS[*map] });
                }
            }
            PAct::Umount { path } => {
                if orig.umount(PPATHS[*path]).is_ok() {
                    live.remove(&pnorm(PPATHS[*path]));
                }
            }
            PAct::Init(i) => {
                cl.creds(0, 0);
                let _ = cl.init(&srv, CAPS[*i]);
            }
            PAct::Destroy => {
                let _ = cl.destroy(&srv);
            }
            PAct::Cycle(n) => {
                for _ in 0..*n {
                    if orig.mount(Box::new(Backend { inst: 1_000_000, root: 7, log: log.clone() }), "/z").is_err() {
                        break;
                    }
                    let _ = orig.umount("/z");
                }
            }
        }
    }
    log.lock().unwrap().clear();
    (orig, live, log)
}

fn c19_seq(rep: &mut Report, cl: &mut Client, rpr: bool, global: Option<M>, seq: &[PAct], v1: bool) -> bool {
    let log = Arc::new(Mutex::new(Vec::new()));
    let mk = |global: Option<M>| {
        let opts = VfsOptions { id_mapping: global.unwrap_or((0, 0, 0)), ..VfsOptions::default() };
        let mut v = Vfs::new(opts);
        if rpr {
            v.set_remove_pseudo_root();
        }
        Arc::new(v)
    };
    let orig = mk(global);
    let srv = Server::new(orig.clone());
    let mut live: BTreeMap<String, Live> = BTreeMap::new();
    let mut ninst = 0usize;
    let mut old_inodes: Vec<u64> = Vec::new();
    let mut problems: Vec<(String, String)> = Vec::new();
    let mut requests = 0u64;
    for (step, a) in seq.iter().enumerate() {
        match a {
            PAct::Mount { path, map } => {
                let id = ninst;
                ninst += 1;
                if let Ok(slot) = orig.mount_with_id_mapping(Box::new(Backend { inst: id, root: 7, log: log.clone() }), PPATHS[*path], MAPS[*map]) {
                    live.insert(pnorm(PPATHS[*path]), Live { inst: id, slot, map: MAPS[*map] });
                    old_inodes.push(((slot as u64) << 56) | 7);
                    old_inodes.push(((slot as u64) << 56) | INO_F0);
                }
            }
            PAct::Umount { path } => {
                if orig.umount(PPATHS[*path]).is_ok() {
                    live.remove(&pnorm(PPATHS[*path]));
                }
            }
            PAct::Init(i) => {
                cl.creds(0, 0);
                let _ = cl.init(&srv, CAPS[*i]);
            }
            PAct::Destroy => {
                let _ = cl.destroy(&srv);
            }
            PAct::Cycle(n) => {
                for _ in 0..*n {
                    if orig.mount(Box::new(Backend { inst: 1_000_000, root: 7, log: log.clone() }), "/z").is_err() {
                        break;
                    }
                    let _ = orig.umount("/z");
                }
            }
        }
        log.lock().unwrap().clear();
        // ---- save after this prefix, restore into a fresh Vfs, re-attach the backends
        let saved = if v1 { orig.verif_save_to_bytes_at(1) } else { orig.save_to_bytes() };
        let mut buf = match saved {
            Ok(b) => b,
            Err(e) => {
                problems.push(("save-failed".into(), format!("after step {}: {:?}", step, e)));
                break;
            }
        };
        let fresh = mk(None);
        let r = std::panic::catch_unwind(std::panic::AssertUnwindSafe(|| fresh.restore_from_bytes(&mut buf)));
        match r {
            Err(_) => {
                problems.push(("restore-panic".into(), format!("restore_from_bytes panicked after step {}", step)));
                break;
            }
            Ok(Err(e)) => {
                problems.push(("restore-failed".into(), format!("after step {}: {:?}", step, e)));
                break;
            }
            Ok(Ok(())) => {}
        }
        let log2 = Arc::new(Mutex::new(Vec::new()));
        let mut reattach_ok = true;
        for (p, l) in &live {
            let r = std::panic::catch_unwind(std::panic::AssertUnwindSafe(|| fresh.restore_mount(Box::new(Backend { inst: l.inst, root: 7, log: log2.clone() }), l.slot, p)));
            if !matches!(r, Ok(Ok(()))) {
                problems.push(("restore-mount-failed".into(), format!("restore_mount({}, slot {}) after step {}: {:?}", p, l.slot, step, r.map(|x| x.map_err(|e| e.to_string())).map_err(|_| "panic"))));
                reattach_ok = false;
            }
        }
        if !reattach_ok {
            break;
        }
        log2.lock().unwrap().clear();
        let n0 = cl.nreq;
        let t1 = transcript(&orig, &log, cl, &old_inodes);
        let t2 = transcript(&fresh, &log2, cl, &old_inodes);
        let skip_mapped = v1 && live.values().any(|l| l.map.is_some());
        if !skip_mapped {
            for (a, b) in t1.iter().zip(t2.iter()) {
                if a != b {
                    let class = a.split(|c: char| c == ' ' || c == ':').next().unwrap_or("line").to_string();
                    // the restored instance was created without the global mapping: everything but that must agree
                    problems.push((format!("differs:{}", class), format!("after step {} original says `{}`, restored says `{}`", step, a, b)));
                    break;
                }
            }
        }
        // ---- one more action on both: indices and pseudo inode numbers handed out must agree.
        // A disposable twin of the original is built by replaying the prefix (never saved or
        // restored); its restored counterpart is made from the twin's own snapshot.
        if problems.is_empty() {
            for (np, label) in [("/fresh/x", "new-path"), ("/a", "existing-path"), ("/a/b/c", "nested-path")] {
                let (twin, tlive, tlog) = c19_replay(rpr, global, &seq[..=step], cl);
                let saved = if v1 { twin.verif_save_to_bytes_at(1) } else { twin.save_to_bytes() };
                let mut b2 = match saved {
                    Ok(b) => b,
                    Err(_) => break,
                };
                let rest = mk(None);
                let lg = Arc::new(Mutex::new(Vec::new()));
                let res = std::panic::catch_unwind(std::panic::AssertUnwindSafe(|| -> Result<(Result<u8, String>, Result<u8, String>, Vec<String>), String> {
                    rest.restore_from_bytes(&mut b2).map_err(|e| format!("{:?}", e))?;
                    for (p, l) in &tlive {
                        rest.restore_mount(Box::new(Backend { inst: l.inst, root: 7, log: lg.clone() }), l.slot, p).map_err(|e| e.to_string())?;
                    }
                    let mut extra: Vec<String> = Vec::new();
                    // an umount of a live mount point behaves the same on both
                    if let Some(p) = tlive.keys().next() {
                        let u1 = twin.umount(p).map_err(|e| e.to_string());
                        let u2 = rest.umount(p).map_err(|e| e.to_string());
                        if u1 != u2 {
                            extra.push(format!("umount {} gives {:?} without save/restore and {:?} after it", p, u1, u2));
                        }
                    }
                    let i1 = twin.mount_with_id_mapping(Box::new(Backend { inst: 900, root: 7, log: tlog.clone() }), np, MAPS[1]).map_err(|e| e.to_string());
                    let i2 = rest.mount_with_id_mapping(Box::new(Backend { inst: 900, root: 7, log: lg.clone() }), np, MAPS[1]).map_err(|e| e.to_string());
                    Ok((i1, i2, extra))
                }));
                match res {
                    Err(_) => {
                        problems.push((format!("restored-instance-panic:{}", label), format!("after step {}: umount/mount at {} on the restored instance panicked", step, np)));
                        break;
                    }
                    Ok(Err(e)) => {
                        problems.push(("restore-failed".into(), format!("after step {}: {}", step, e)));
                        break;
                    }
                    Ok(Ok((i1, i2, extra))) => {
                        for e in extra {
                            problems.push((format!("umount-differs:{}", label), format!("after step {}: {}", step, e)));
                        }
                        if i1 != i2 {
                            problems.push((format!("next-index:{}", label), format!("after step {} a mount at {} gets index {:?} without save/restore and {:?} after it", step, np, i1, i2)));
                        }
                    }
                }
                let w = |v: &Arc<Vfs>, cl: &mut Client| -> String {
                    let s = Server::new(v.clone());
                    let mut cur = 1u64;
                    let mut out = String::new();
                    for comp in np.split('/').filter(|c| !c.is_empty()) {
                        match cl.lookup(&s, cur, comp.as_bytes()) {
                            Ok(e) => {
                                out.push_str(&format!("{}={:#x}(uid {}) ", comp, e.nodeid, e.attr.uid));
                                cur = e.nodeid;
                            }
                            Err(e) => {
                                out.push_str(&format!("{}=errno{} ", comp, e));
                                break;
                            }
                        }
                    }
                    out
                };
                let (w1, w2) = (w(&twin, cl), w(&rest, cl));
                let mapped_v1 = v1; // a v1 snapshot cannot carry the per-mount mapping given to the extra mount? it is given after the restore, so it must agree too
                let _ = mapped_v1;
                // a version-1 snapshot cannot carry per-mount mappings: owner ids of such mounts legitimately differ
                let v1_mapped = v1 && tlive.values().any(|l| l.map.is_some());
                if w1 != w2 && !v1_mapped {
                    problems.push((format!("next-pseudo-inode:{}", label), format!("after step {} the path {} resolves to `{}` without save/restore and `{}` after it", step, np, w1, w2)));
                }
                if !problems.is_empty() {
                    break;
                }
            }
        }
        requests += cl.nreq - n0;
        if !problems.is_empty() {
            break;
        }
    }
    rep.eval();
    rep.transitions += requests + seq.len() as u64;
    let lastk = format!("{:?}", seq.last().unwrap());
    let lastk = lastk.split(|c| c == ' ' || c == '(').next().unwrap_or("").to_string();
    rep.outcome(&format!("{}:{}:{}:{}", if v1 { "v1" } else { "v2" }, lastk, live.len(), if problems.is_empty() { "ok" } else { "VIOLATION" }));
    rep.state_of(&(format!("{:?}", live.iter().map(|(p, l)| (p.clone(), l.slot, l.map)).collect::<Vec<_>>()), rpr, global, v1, seq.iter().filter(|a| matches!(a, PAct::Init(_) | PAct::Destroy)).map(|a| format!("{:?}", a)).collect::<Vec<_>>()));
    rep.sample(|| json!({"sequence": format!("{:?}", seq), "remove_pseudo_root": rpr, "global_mapping": format!("{:?}", global), "snapshot_version": if v1 { 1 } else { 2 }, "live_mounts": live.len()}));
    let cut = !problems.is_empty();
    for (class, msg) in problems {
        let sig = format!("C19/{}{}{}", if v1 { "v1/" } else { "" }, class, if global.is_some() && class.starts_with("differs") { "@global-mapping" } else { "" });
        let seqs = format!("{:?}", seq);
        rep.violation(&sig, &msg, || json!({"engine": "vfs-persist", "sequence": seqs, "remove_pseudo_root": rpr, "global_mapping": format!("{:?}", global), "v1": v1}));
    }
    cut
}

static MAX_CYCLES: std::sync::atomic::AtomicUsize = std::sync::atomic::AtomicUsize::new(2);

pub fn c19(args: &Args) -> Report {
    let mut rep = args.report();
    let thorough = args.thorough();
    MAX_CYCLES.store(if thorough { 2 } else { 1 }, std::sync::atomic::Ordering::Relaxed);
    let depth = if thorough { 4 } else { 3 };
    let mut alphabet: Vec<PAct> = Vec::new();
    for p in 0..4 {
        for m in [0usize, 1, 3] {
            alphabet.push(PAct::Mount { path: p, map: m });
        }
    }
    alphabet.push(PAct::Mount { path: 6, map: 0 });
    for p in 0..4 {
        alphabet.push(PAct::Umount { path: p });
    }
    for i in 0..CAPS.len() {
        alphabet.push(PAct::Init(i));
    }
    alphabet.push(PAct::Destroy);
    // the index allocator is a wrapping cursor: histories in which it has passed, or wrapped below, live indices
    for n in [200usize, 54, 254] {
        alphabet.push(PAct::Cycle(n));
    }
    let mut cl = Client::new();
    cl.cap = 1 << 17;
    let mut idx = 0u64;
    fn rec(rep: &mut Report, cl: &mut Client, rpr: bool, g: Option<M>, v1: bool, seq: &mut Vec<PAct>, alphabet: &[PAct], depth: usize) {
        // a sequence is evaluated as a whole (every prefix is saved inside); extend only at full length
        if seq.len() == depth {
            c19_seq(rep, cl, rpr, g, seq, v1);
            return;
        }
        for a in alphabet {
            // at most two allocator cycles per history (one in the quick tier; the two-cycle histories that matter -
            // the cursor passes a live index and wraps below it - are in the targeted list)
            if matches!(a, PAct::Cycle(_)) && seq.iter().filter(|x| matches!(x, PAct::Cycle(_))).count() >= MAX_CYCLES.load(std::sync::atomic::Ordering::Relaxed) {
                continue;
            }
            seq.push(*a);
            rec(rep, cl, rpr, g, v1, seq, alphabet, depth);
            seq.pop();
        }
    }
    for rpr in [false, true] {
        for g in [None, Some((0u32, 1000u32, 10u32))] {
            for v1 in [false, true] {
                for a in &alphabet {
                    for b in &alphabet {
                        if rep.mine(idx) {
                            let mut seq = vec![*a, *b];
                            // quick tier: snapshots in the previous format are taken after every history of length 2 only
                            // (loading the old format is little history-sensitive); thorough: full depth
                            let d = if v1 && !thorough { 2 } else { depth };
                            rec(&mut rep, &mut cl, rpr, g, v1, &mut seq, &alphabet, d);
                        }
                        idx += 1;
                    }
                    if rep.over_budget() {
                        break;
                    }
                }
            }
        }
    }
    // targeted longer histories, in every tier: a pseudo directory with three and four children from which one that is
    // not the last is evicted (remove_pseudo_root), then re-created
    {
        let m = |p: usize| PAct::Mount { path: p, map: 0 };
        let targeted: Vec<Vec<PAct>> = vec![
            vec![m(1), m(3), m(4), PAct::Umount { path: 1 }],
            vec![m(1), m(3), m(4), PAct::Umount { path: 3 }, m(1)],
            vec![m(4), m(1), m(3), PAct::Umount { path: 4 }, m(4)],
            vec![m(2), m(3), m(5), PAct::Umount { path: 2 }, PAct::Umount { path: 3 }],
            // the allocator cursor passes a live mount (with and without a per-mount mapping) and wraps below it
            vec![PAct::Cycle(200), PAct::Mount { path: 1, map: 1 }, PAct::Cycle(54), m(3)],
            vec![PAct::Cycle(200), m(1), PAct::Cycle(54), PAct::Mount { path: 3, map: 3 }],
            vec![PAct::Cycle(200), PAct::Mount { path: 3, map: 3 }, PAct::Cycle(54), PAct::Umount { path: 3 }],
            vec![PAct::Cycle(254), PAct::Mount { path: 1, map: 1 }, PAct::Cycle(200)],
        ];
        for rpr in [false, true] {
            for g in [None, Some((0u32, 1000u32, 10u32))] {
                for v1 in [false, true] {
                    for t in &targeted {
                        if rep.mine(idx) {
                            c19_seq(&mut rep, &mut cl, rpr, g, t, v1);
                        }
                        idx += 1;
                    }
                }
            }
        }
    }
    rep.set("depth", json!(depth));
    rep.set("alphabet", json!(alphabet.iter().map(|a| format!("{:?}", a)).collect::<Vec<_>>()));
    rep.set("two_step_units_all_shards", json!(idx));
    rep
}
