//! Engine O: the overlay (C10: union semantics / lowers never modified; C11: restart equivalence / copy-up).
//!
//! Layers are real PassthroughFs instances over scratch directories, the OverlayFs is driven through
//! `Server` and the wire client. The oracle is `refoverlay` (the documented overlayfs rules over an in-memory
//! description of the layers) plus an ordinary in-memory tree for the effect of operations; C11 is a
//! differential between the running instance and a freshly started one over the same directories.
use crate::args::Args;
use crate::client::*;
use crate::ptworld::{cpath, set_xattr, snap, snap_diff, NodeSnap, CAPABLE_ALL};
use crate::report::Report;
use serde_json::{json, Value};
use std::collections::{BTreeMap, BTreeSet};
use std::os::unix::ffi::OsStrExt;
use std::os::unix::fs::PermissionsExt;
use std::path::{Path, PathBuf};
use std::sync::Arc;

use fuse_backend_rs::api::filesystem::Layer;
use fuse_backend_rs::api::server::Server;
use fuse_backend_rs::overlayfs::config::Config as OConfig;
use fuse_backend_rs::overlayfs::OverlayFs;
use fuse_backend_rs::passthrough::{Config as PConfig, PassthroughFs};

type BoxedLayer = Box<dyn Layer<Inode = u64, Handle = u64> + Send + Sync>;

// ------------------------------------------------------------------------------------------------
// layer descriptions

#[derive(Clone, Debug, PartialEq, Eq, Hash)]
pub enum LNode {
    File { content: Vec<u8>, mode: u32 },
    Dir { mode: u32, opaque: Option<&'static str>, children: BTreeMap<String, LNode> },
    Symlink(Vec<u8>),
    Whiteout,
}

pub const OPAQUE_NAMES: [&str; 3] = ["user.fuseoverlayfs.opaque", "trusted.overlay.opaque", "user.overlay.opaque"];

impl LNode {
    pub fn dir(mode: u32, opaque: Option<&'static str>, kids: Vec<(&str, LNode)>) -> LNode {
        LNode::Dir { mode, opaque, children: kids.into_iter().map(|(k, v)| (k.to_string(), v)).collect() }
    }
    pub fn file(tag: &str, mode: u32) -> LNode {
        LNode::File { content: tag.as_bytes().to_vec(), mode }
    }
    pub fn short(&self) -> String {
        match self {
            LNode::File { content, mode } => format!("file({},{:o})", String::from_utf8_lossy(content), mode),
            LNode::Dir { mode, opaque, children } => {
                format!("dir({:o}{}){{{}}}", mode, if opaque.is_some() { ",opaque" } else { "" }, children.iter().map(|(k, v)| format!("{}:{}", k, v.short())).collect::<Vec<_>>().join(","))
            }
            LNode::Symlink(t) => format!("symlink({})", String::from_utf8_lossy(t).replace('\u{fffd}', "\\x??")),
            LNode::Whiteout => "whiteout".into(),
        }
    }
}

fn materialize(dir: &Path, node: &LNode) {
    match node {
        LNode::Dir { mode, opaque, children } => {
            let _ = std::fs::create_dir(dir);
            for (name, child) in children {
                let p = dir.join(name);
                match child {
                    LNode::Dir { .. } => materialize(&p, child),
                    LNode::File { content, mode } => {
                        std::fs::write(&p, content).unwrap();
                        std::fs::set_permissions(&p, std::fs::Permissions::from_mode(*mode)).unwrap();
                    }
                    LNode::Symlink(t) => std::os::unix::fs::symlink(std::ffi::OsStr::from_bytes(t), &p).unwrap(),
                    LNode::Whiteout => {
                        let c = cpath(&p);
                        let r = unsafe { libc::mknod(c.as_ptr(), libc::S_IFCHR | 0o666, libc::makedev(0, 0)) };
                        assert_eq!(r, 0, "mknod whiteout");
                    }
                }
            }
            if let Some(x) = opaque {
                assert_eq!(set_xattr(dir, x, b"y"), 0, "set opaque xattr {}", x);
            }
            std::fs::set_permissions(dir, std::fs::Permissions::from_mode(*mode)).unwrap();
        }
        _ => unreachable!(),
    }
}

// ------------------------------------------------------------------------------------------------
// the visible tree (model and observation share the type)

#[derive(Clone, Debug, PartialEq, Eq)]
pub enum VNode {
    File { content: Vec<u8>, mode: u32, xattrs: BTreeMap<String, Vec<u8>> },
    Dir { mode: u32, children: BTreeMap<String, VNode>, xattrs: BTreeMap<String, Vec<u8>> },
    Symlink { target: Vec<u8> },
}

impl VNode {
    fn kind(&self) -> &'static str {
        match self {
            VNode::File { .. } => "file",
            VNode::Dir { .. } => "dir",
            VNode::Symlink { .. } => "symlink",
        }
    }
    fn children(&self) -> Option<&BTreeMap<String, VNode>> {
        match self {
            VNode::Dir { children, .. } => Some(children),
            _ => None,
        }
    }
    fn children_mut(&mut self) -> Option<&mut BTreeMap<String, VNode>> {
        match self {
            VNode::Dir { children, .. } => Some(children),
            _ => None,
        }
    }
}

/// refoverlay: the union of `layers` (upper first) at one path, by the overlayfs rules.
pub fn union(layers: &[&LNode]) -> Option<VNode> {
    // layers: the nodes found at this path in the layers that still contribute (topmost first)
    let first = layers.first()?;
    match first {
        LNode::Whiteout => None,
        LNode::File { content, mode } => Some(VNode::File { content: content.clone(), mode: *mode, xattrs: BTreeMap::new() }),
        LNode::Symlink(t) => Some(VNode::Symlink { target: t.clone() }),
        LNode::Dir { mode, .. } => {
            // contributing directories: this and lower ones until (including) the first opaque one, stopping above
            // the first non-directory or whiteout
            let mut dirs: Vec<&BTreeMap<String, LNode>> = Vec::new();
            for l in layers {
                match l {
                    LNode::Dir { opaque, children, .. } => {
                        dirs.push(children);
                        if opaque.is_some() {
                            break;
                        }
                    }
                    _ => break,
                }
            }
            let mut names: BTreeSet<&String> = BTreeSet::new();
            for d in &dirs {
                names.extend(d.keys());
            }
            let mut children = BTreeMap::new();
            for n in names {
                let stack: Vec<&LNode> = dirs.iter().filter_map(|d| d.get(n)).collect();
                if let Some(v) = union(&stack) {
                    children.insert(n.clone(), v);
                }
            }
            Some(VNode::Dir { mode: *mode, children, xattrs: BTreeMap::new() })
        }
    }
}

pub fn tree_diff(path: &str, a: Option<&VNode>, b: Option<&VNode>, la: &str, lb: &str) -> Option<(String, String)> {
    match (a, b) {
        (None, None) => None,
        (Some(x), None) => Some(("missing".into(), format!("{:?}: {} has a {}, {} has nothing", path, la, x.kind(), lb))),
        (None, Some(y)) => Some(("extra".into(), format!("{:?}: {} has nothing, {} has a {}", path, la, lb, y.kind()))),
        (Some(x), Some(y)) => {
            if x.kind() != y.kind() {
                return Some(("type".into(), format!("{:?}: {} has a {}, {} has a {}", path, la, x.kind(), lb, y.kind())));
            }
            match (x, y) {
                (VNode::File { content: c1, mode: m1, xattrs: x1 }, VNode::File { content: c2, mode: m2, xattrs: x2 }) => {
                    if c1 != c2 {
                        return Some(("content".into(), format!("{:?}: content {}: {:?}, {}: {:?}", path, la, String::from_utf8_lossy(c1), lb, String::from_utf8_lossy(c2))));
                    }
                    if m1 != m2 {
                        return Some(("mode".into(), format!("{:?}: mode {}: {:o}, {}: {:o}", path, la, m1, lb, m2)));
                    }
                    if x1 != x2 {
                        return Some(("xattr".into(), format!("{:?}: xattrs {}: {:?}, {}: {:?}", path, la, x1.keys().collect::<Vec<_>>(), lb, x2.keys().collect::<Vec<_>>())));
                    }
                    None
                }
                (VNode::Symlink { target: t1 }, VNode::Symlink { target: t2 }) => {
                    if t1 != t2 {
                        return Some(("target".into(), format!("{:?}: link target {}: {:?} ({} bytes), {}: {:?} ({} bytes)", path, la, String::from_utf8_lossy(t1), t1.len(), lb, String::from_utf8_lossy(t2), t2.len())));
                    }
                    None
                }
                (VNode::Dir { mode: m1, children: k1, xattrs: x1 }, VNode::Dir { mode: m2, children: k2, xattrs: x2 }) => {
                    if m1 != m2 {
                        return Some(("dir-mode".into(), format!("{:?}: directory mode {}: {:o}, {}: {:o}", path, la, m1, lb, m2)));
                    }
                    if x1 != x2 {
                        return Some(("xattr".into(), format!("{:?}: xattrs {}: {:?}, {}: {:?}", path, la, x1.keys().collect::<Vec<_>>(), lb, x2.keys().collect::<Vec<_>>())));
                    }
                    let names: BTreeSet<&String> = k1.keys().chain(k2.keys()).collect();
                    for n in names {
                        let p = if path.is_empty() { n.clone() } else { format!("{}/{}", path, n) };
                        if let Some(d) = tree_diff(&p, k1.get(n), k2.get(n), la, lb) {
                            return Some(d);
                        }
                    }
                    None
                }
                _ => None,
            }
        }
    }
}

// ------------------------------------------------------------------------------------------------
// the world: directories, layers, overlay instance

pub struct Stack {
    pub upper: Option<LNode>,
    pub lowers: Vec<LNode>,
}

impl Stack {
    pub fn label(&self) -> String {
        format!("upper={} lowers=[{}]", self.upper.as_ref().map(|u| u.short()).unwrap_or_else(|| "none".into()), self.lowers.iter().map(|l| l.short()).collect::<Vec<_>>().join(" | "))
    }
    pub fn visible(&self) -> VNode {
        let mut v: Vec<&LNode> = Vec::new();
        if let Some(u) = &self.upper {
            v.push(u);
        }
        v.extend(self.lowers.iter());
        union(&v).expect("root is a directory")
    }
}

pub struct Instance {
    pub srv: Server<Arc<OverlayFs>>,
}

pub struct OWorld {
    pub base: PathBuf,
    pub upper_dir: Option<PathBuf>,
    pub lower_dirs: Vec<PathBuf>,
    pub live: Instance,
    pub lower_snaps: Vec<BTreeMap<String, NodeSnap>>,
    pub upper_snap0: Option<BTreeMap<String, NodeSnap>>,
}

static OSEQ: std::sync::atomic::AtomicU64 = std::sync::atomic::AtomicU64::new(0);

fn new_layer(dir: &Path) -> Arc<BoxedLayer> {
    let c = PConfig { root_dir: dir.to_string_lossy().to_string(), xattr: true, do_import: true, ..PConfig::default() };
    let fs = PassthroughFs::<()>::new(c).expect("layer PassthroughFs::new");
    fs.import().expect("layer import");
    Arc::new(Box::new(fs) as BoxedLayer)
}

fn new_instance(upper: Option<&Path>, lowers: &[PathBuf], cl: &mut Client) -> Instance {
    let up = upper.map(new_layer);
    let lows: Vec<Arc<BoxedLayer>> = lowers.iter().map(|d| new_layer(d)).collect();
    let cfg = OConfig { do_import: true, work: String::new(), mountpoint: String::new(), ..OConfig::default() };
    let ofs = OverlayFs::new(up, lows, cfg).expect("OverlayFs::new");
    let srv = Server::new(Arc::new(ofs));
    cl.creds(0, 0);
    let r = cl.init(&srv, CAPABLE_ALL & !((1 << 17) | (1 << 24) | (1u64 << 25))); // no zero-message open/opendir, no writeback quirks
    assert!(r.ok(), "INIT failed: {}", r.errno);
    Instance { srv }
}

impl OWorld {
    pub fn new(stack: &Stack, cl: &mut Client) -> OWorld {
        let n = OSEQ.fetch_add(1, std::sync::atomic::Ordering::Relaxed);
        let base = crate::env::scratch_root("tmpfs").join(format!("ovl{}", n));
        let _ = std::fs::remove_dir_all(&base);
        std::fs::create_dir_all(&base).unwrap();
        let upper_dir = stack.upper.as_ref().map(|u| {
            let d = base.join("upper");
            materialize(&d, u);
            d
        });
        let mut lower_dirs = Vec::new();
        for (i, l) in stack.lowers.iter().enumerate() {
            let d = base.join(format!("lower{}", i));
            materialize(&d, l);
            lower_dirs.push(d);
        }
        let lower_snaps = lower_dirs.iter().map(|d| snap(d)).collect();
        let upper_snap0 = upper_dir.as_ref().map(|d| snap(d));
        let live = new_instance(upper_dir.as_deref(), &lower_dirs, cl);
        OWorld { base, upper_dir, lower_dirs, live, lower_snaps, upper_snap0 }
    }

    pub fn restarted(&self, cl: &mut Client) -> Instance {
        new_instance(self.upper_dir.as_deref(), &self.lower_dirs, cl)
    }

    pub fn lowers_changed(&self) -> Option<String> {
        for (i, d) in self.lower_dirs.iter().enumerate() {
            let now = snap(d);
            if let Some(diff) = snap_diff(&self.lower_snaps[i], &now) {
                return Some(format!("lower layer {}: {}", i, diff));
            }
        }
        None
    }
}

impl Drop for OWorld {
    fn drop(&mut self) {
        let _ = std::fs::remove_dir_all(&self.base);
    }
}

// ------------------------------------------------------------------------------------------------
// observation through the client

pub fn resolve(inst: &Instance, cl: &mut Client, path: &str) -> Result<EntryR, i32> {
    let mut node = 1u64;
    let mut last: Option<EntryR> = None;
    if path.is_empty() {
        let a = cl.getattr(&inst.srv, 1, None)?;
        return Ok(EntryR { nodeid: 1, generation: 0, attr: a });
    }
    for comp in path.split('/') {
        // the kernel's path walk refuses to step through a non-directory before any LOOKUP is sent
        if let Some(l) = &last {
            if l.attr.mode & libc::S_IFMT != libc::S_IFDIR {
                return Err(libc::ENOTDIR);
            }
        }
        let e = if COLD.with(|c| c.get()) {
            via_readdirplus(inst, cl, node, comp.as_bytes())?.ok_or(libc::ENOENT)?
        } else {
            cl.lookup(&inst.srv, node, comp.as_bytes())?
        };
        if e.nodeid == 0 {
            return Err(libc::ENOENT);
        }
        node = e.nodeid;
        last = Some(e);
    }
    Ok(last.unwrap())
}

fn user_xattrs(inst: &Instance, cl: &mut Client, node: u64) -> BTreeMap<String, Vec<u8>> {
    let mut out = BTreeMap::new();
    if let Ok(list) = cl.listxattr(&inst.srv, node, 4096) {
        for name in list.split(|b| *b == 0) {
            if name.is_empty() {
                continue;
            }
            let s = String::from_utf8_lossy(name).to_string();
            if !s.starts_with("user.") || OPAQUE_NAMES.contains(&s.as_str()) {
                continue;
            }
            if let Ok(v) = cl.getxattr(&inst.srv, node, name, 4096) {
                out.insert(s, v);
            }
        }
    }
    out
}

/// Walks the tree presented by `inst`. Problems found on the way (listing vs lookup disagreement, failing reads)
/// are returned as strings.
pub fn walk(inst: &Instance, cl: &mut Client, node: u64, attr: &AttrR, path: &str, problems: &mut Vec<(String, String)>, depth: usize) -> VNode {
    let mode = attr.mode & 0o7777;
    match attr.mode & libc::S_IFMT {
        libc::S_IFDIR => {
            let mut children = BTreeMap::new();
            let mut names: BTreeMap<Vec<u8>, u32> = BTreeMap::new();
            match cl.opendir(&inst.srv, node, 0) {
                Ok((fh, _)) => {
                    for plus in [false, true] {
                        let mut off = 0u64;
                        let mut seen: BTreeSet<Vec<u8>> = BTreeSet::new();
                        for _ in 0..64 {
                            match cl.readdir(&inst.srv, node, fh, off, 4096, plus) {
                                Ok(v) => {
                                    if v.is_empty() {
                                        break;
                                    }
                                    for d in v {
                                        off = d.off;
                                        if d.name == b"." || d.name == b".." {
                                            continue;
                                        }
                                        if !seen.insert(d.name.clone()) {
                                            problems.push(("listing-duplicate".into(), format!("{:?}: {:?} listed twice", path, String::from_utf8_lossy(&d.name))));
                                        }
                                        names.insert(d.name.clone(), d.typ);
                                    }
                                }
                                Err(e) => {
                                    problems.push(("readdir-failed".into(), format!("{:?}: readdir{} errno {}", path, if plus { "plus" } else { "" }, e)));
                                    break;
                                }
                            }
                        }
                        if plus && seen.len() != names.len() {
                            problems.push(("readdir-vs-readdirplus".into(), format!("{:?}: readdir lists {} names, readdirplus {}", path, names.len(), seen.len())));
                        }
                    }
                    let _ = cl.release(&inst.srv, node, fh, 0, true);
                }
                Err(e) => problems.push(("opendir-failed".into(), format!("{:?}: errno {}", path, e))),
            }
            if depth < 6 {
                for (name, typ) in names {
                    let p = if path.is_empty() { String::from_utf8_lossy(&name).to_string() } else { format!("{}/{}", path, String::from_utf8_lossy(&name)) };
                    match cl.lookup(&inst.srv, node, &name) {
                        Ok(e) if e.nodeid != 0 => {
                            let dt = (e.attr.mode & libc::S_IFMT) >> 12;
                            if typ != dt && typ != 0 {
                                problems.push(("listing-type".into(), format!("{:?}: listed with type {}, lookup says {}", p, typ, dt)));
                            }
                            if e.attr.mode & libc::S_IFMT == libc::S_IFCHR && e.attr.rdev == 0 {
                                problems.push(("whiteout-visible".into(), format!("{:?}: a whiteout device is visible through the overlay", p)));
                                continue;
                            }
                            let v = walk(inst, cl, e.nodeid, &e.attr, &p, problems, depth + 1);
                            children.insert(String::from_utf8_lossy(&name).to_string(), v);
                        }
                        Ok(_) => problems.push(("listed-but-negative".into(), format!("{:?}: listed by readdir but lookup returns a negative entry", p))),
                        Err(e) => problems.push(("listed-but-not-found".into(), format!("{:?}: listed by readdir but lookup fails with errno {}", p, e))),
                    }
                }
            }
            VNode::Dir { mode, children, xattrs: user_xattrs(inst, cl, node) }
        }
        libc::S_IFLNK => {
            let target = match cl.readlink(&inst.srv, node) {
                Ok(t) => t,
                Err(e) => {
                    problems.push(("readlink-failed".into(), format!("{:?}: errno {}", path, e)));
                    Vec::new()
                }
            };
            VNode::Symlink { target }
        }
        _ => {
            let mut content = Vec::new();
            if attr.mode & libc::S_IFMT == libc::S_IFREG {
                match cl.open(&inst.srv, node, libc::O_RDONLY as u32) {
                    Ok((fh, _)) => {
                        match cl.read(&inst.srv, node, fh, 0, 65536, 0) {
                            Ok(d) => content = d,
                            Err(e) => problems.push(("read-failed".into(), format!("{:?}: errno {}", path, e))),
                        }
                        let _ = cl.release(&inst.srv, node, fh, 0, false);
                    }
                    Err(e) => problems.push(("open-failed".into(), format!("{:?}: errno {}", path, e))),
                }
                if attr.size != content.len() as u64 {
                    problems.push(("size-vs-content".into(), format!("{:?}: st_size {} but {} bytes readable", path, attr.size, content.len())));
                }
            }
            VNode::File { content, mode, xattrs: user_xattrs(inst, cl, node) }
        }
    }
}

pub fn observe(inst: &Instance, cl: &mut Client, problems: &mut Vec<(String, String)>) -> VNode {
    match cl.getattr(&inst.srv, 1, None) {
        Ok(a) => walk(inst, cl, 1, &a, "", problems, 0),
        Err(e) => {
            problems.push(("root-getattr-failed".into(), format!("errno {}", e)));
            VNode::Dir { mode: 0, children: BTreeMap::new(), xattrs: BTreeMap::new() }
        }
    }
}

// ------------------------------------------------------------------------------------------------
// operations

#[derive(Clone, Debug, PartialEq, Eq, Hash)]
pub enum OOp {
    CreateExcl(String),
    CreateTrunc(String),
    Mkdir(String),
    Mknod(String),
    Symlink(String),
    Link(String, String),
    Unlink(String),
    Rmdir(String),
    Write(String),
    OpenTrunc(String),
    OpenRdTrunc(String),
    Truncate(String),
    Chmod(String),
    SetXattr(String),
    RemoveXattr(String),
    /// lchown: copies the object itself up, symbolic links included
    Chown(String),
    /// open O_RDONLY and keep the handle (no copy-up)
    OpenKeep(String),
    /// SETATTR(mode) carrying the kept handle
    ChmodKept(String),
    /// RENAME(src -> dst). The overlay does not implement it (EXDEV); the oracle is two-way: either it fails and
    /// nothing changes (view, layers, restart), or it succeeds and the view is what an ordinary filesystem shows
    Rename(String, String),
}

impl OOp {
    pub fn path(&self) -> &str {
        match self {
            OOp::CreateExcl(p) | OOp::CreateTrunc(p) | OOp::Mkdir(p) | OOp::Mknod(p) | OOp::Symlink(p) | OOp::Unlink(p) | OOp::Rmdir(p) | OOp::Write(p) | OOp::OpenTrunc(p) | OOp::OpenRdTrunc(p) | OOp::Truncate(p) | OOp::Chmod(p) | OOp::SetXattr(p) | OOp::RemoveXattr(p) | OOp::Chown(p) | OOp::OpenKeep(p) | OOp::ChmodKept(p) => p,
            OOp::Link(_, p) => p,
            OOp::Rename(_, p) => p,
        }
    }
    pub fn kind(&self) -> &'static str {
        match self {
            OOp::CreateExcl(_) => "create-excl",
            OOp::CreateTrunc(_) => "create-trunc",
            OOp::Mkdir(_) => "mkdir",
            OOp::Mknod(_) => "mknod",
            OOp::Symlink(_) => "symlink",
            OOp::Link(..) => "link",
            OOp::Unlink(_) => "unlink",
            OOp::Rmdir(_) => "rmdir",
            OOp::Write(_) => "write",
            OOp::OpenTrunc(_) => "open-trunc",
            OOp::OpenRdTrunc(_) => "open-rdonly-trunc",
            OOp::Truncate(_) => "truncate",
            OOp::Chmod(_) => "chmod",
            OOp::SetXattr(_) => "setxattr",
            OOp::RemoveXattr(_) => "removexattr",
            OOp::Chown(_) => "chown",
            OOp::OpenKeep(_) => "open-keep",
            OOp::ChmodKept(_) => "chmod-kept-handle",
            OOp::Rename(..) => "rename",
        }
    }
}

fn split(path: &str) -> (&str, &str) {
    match path.rfind('/') {
        Some(i) => (&path[..i], &path[i + 1..]),
        None => ("", path),
    }
}

fn mget<'a>(root: &'a VNode, path: &str) -> Result<&'a VNode, i32> {
    let mut cur = root;
    if path.is_empty() {
        return Ok(cur);
    }
    for comp in path.split('/') {
        match cur {
            VNode::Dir { children, .. } => match children.get(comp) {
                Some(c) => cur = c,
                None => return Err(libc::ENOENT),
            },
            _ => return Err(libc::ENOTDIR),
        }
    }
    Ok(cur)
}

fn mget_mut<'a>(root: &'a mut VNode, path: &str) -> Result<&'a mut VNode, i32> {
    let mut cur = root;
    if path.is_empty() {
        return Ok(cur);
    }
    for comp in path.split('/') {
        match cur {
            VNode::Dir { children, .. } => match children.get_mut(comp) {
                Some(c) => cur = c,
                None => return Err(libc::ENOENT),
            },
            _ => return Err(libc::ENOTDIR),
        }
    }
    Ok(cur)
}

/// The operation on an ordinary filesystem tree: Ok(()) or the errno; None = the model does not define the
/// outcome for this combination (skipped).
pub fn model_apply(root: &mut VNode, op: &OOp) -> Option<Result<(), i32>> {
    let (pp, name) = split(op.path());
    let add = |root: &mut VNode, node: VNode| -> Result<(), i32> {
        let parent = mget_mut(root, pp)?;
        match parent {
            VNode::Dir { children, .. } => {
                if children.contains_key(name) {
                    return Err(libc::EEXIST);
                }
                children.insert(name.to_string(), node);
                Ok(())
            }
            _ => Err(libc::ENOTDIR),
        }
    };
    let nx = BTreeMap::new;
    Some(match op {
        OOp::CreateExcl(_) => add(root, VNode::File { content: b"NEW".to_vec(), mode: 0o644, xattrs: nx() }),
        OOp::CreateTrunc(p) => match mget_mut(root, p) {
            Ok(VNode::File { content, .. }) => {
                *content = b"NEW".to_vec();
                Ok(())
            }
            Ok(VNode::Dir { .. }) => Err(libc::EISDIR),
            Ok(VNode::Symlink { .. }) => return None,
            Err(libc::ENOENT) => add(root, VNode::File { content: b"NEW".to_vec(), mode: 0o644, xattrs: nx() }),
            Err(e) => Err(e),
        },
        OOp::Mkdir(_) => add(root, VNode::Dir { mode: 0o755, children: BTreeMap::new(), xattrs: nx() }),
        OOp::Mknod(_) => add(root, VNode::File { content: vec![], mode: 0o600, xattrs: nx() }),
        OOp::Symlink(_) => add(root, VNode::Symlink { target: b"tgt".to_vec() }),
        OOp::Rename(src, dst) => {
            // POSIX rename on the plain tree
            let node = match mget(root, src) {
                Ok(n) => n.clone(),
                Err(e) => return Some(Err(e)),
            };
            if dst.starts_with(&format!("{}/", src)) {
                return Some(Err(libc::EINVAL));
            }
            if src == dst {
                return Some(Ok(()));
            }
            match mget(root, dst) {
                Ok(VNode::Dir { children, .. }) => {
                    if !matches!(node, VNode::Dir { .. }) {
                        return Some(Err(libc::EISDIR));
                    }
                    if !children.is_empty() {
                        return Some(Err(libc::ENOTEMPTY));
                    }
                }
                Ok(_) => {
                    if matches!(node, VNode::Dir { .. }) {
                        return Some(Err(libc::ENOTDIR));
                    }
                }
                Err(libc::ENOENT) => {}
                Err(e) => return Some(Err(e)),
            }
            match mget_mut(root, pp) {
                Ok(VNode::Dir { children, .. }) => {
                    children.insert(name.to_string(), node);
                }
                Ok(_) => return Some(Err(libc::ENOTDIR)),
                Err(e) => return Some(Err(e)),
            }
            let (spp, sname) = split(src);
            mget_mut(root, spp).unwrap().children_mut().unwrap().remove(sname);
            Ok(())
        }
        OOp::Link(src, _) => match mget(root, src) {
            Ok(VNode::Dir { .. }) => Err(libc::EPERM),
            Ok(n) => {
                let n = n.clone();
                add(root, n)
            }
            Err(e) => Err(e),
        },
        OOp::Unlink(p) => match mget(root, p) {
            Ok(VNode::Dir { .. }) => Err(libc::EISDIR),
            Ok(_) => {
                mget_mut(root, pp).unwrap().children_mut().unwrap().remove(name);
                Ok(())
            }
            Err(e) => Err(e),
        },
        OOp::Rmdir(p) => match mget(root, p) {
            Ok(VNode::Dir { children, .. }) => {
                if !children.is_empty() {
                    Err(libc::ENOTEMPTY)
                } else {
                    mget_mut(root, pp).unwrap().children_mut().unwrap().remove(name);
                    Ok(())
                }
            }
            Ok(_) => Err(libc::ENOTDIR),
            Err(e) => Err(e),
        },
        OOp::Write(p) => match mget_mut(root, p) {
            Ok(VNode::File { content, .. }) => {
                if content.len() < 2 {
                    content.resize(2, 0);
                }
                content[1] = b'W';
                Ok(())
            }
            Ok(VNode::Dir { .. }) => Err(libc::EISDIR),
            Ok(_) => return None,
            Err(e) => Err(e),
        },
        OOp::OpenTrunc(p) | OOp::OpenRdTrunc(p) => match mget_mut(root, p) {
            Ok(VNode::File { content, .. }) => {
                content.clear();
                Ok(())
            }
            Ok(VNode::Dir { .. }) => {
                if matches!(op, OOp::OpenTrunc(_)) {
                    Err(libc::EISDIR)
                } else {
                    return None;
                }
            }
            Ok(_) => return None,
            Err(e) => Err(e),
        },
        OOp::Truncate(p) => match mget_mut(root, p) {
            Ok(VNode::File { content, .. }) => {
                content.resize(2, 0);
                Ok(())
            }
            Ok(VNode::Dir { .. }) => Err(libc::EISDIR),
            Ok(_) => return None,
            Err(e) => Err(e),
        },
        OOp::Chmod(p) => match mget_mut(root, p) {
            Ok(VNode::File { mode, .. }) | Ok(VNode::Dir { mode, .. }) => {
                *mode = 0o700;
                Ok(())
            }
            Ok(_) => return None,
            Err(e) => Err(e),
        },
        OOp::SetXattr(p) => match mget_mut(root, p) {
            Ok(VNode::File { xattrs, .. }) | Ok(VNode::Dir { xattrs, .. }) => {
                xattrs.insert("user.c10".into(), b"v".to_vec());
                Ok(())
            }
            Ok(_) => return None,
            Err(e) => Err(e),
        },
        OOp::Chown(p) => match mget(root, p) {
            Ok(_) => Ok(()),
            Err(e) => Err(e),
        },
        OOp::OpenKeep(p) => match mget(root, p) {
            Ok(VNode::File { .. }) => Ok(()),
            Ok(_) => return None,
            Err(e) => Err(e),
        },
        OOp::ChmodKept(p) => match mget_mut(root, p) {
            Ok(VNode::File { mode, .. }) => {
                *mode = 0o700;
                Ok(())
            }
            Ok(_) => return None,
            Err(e) => Err(e),
        },
        OOp::RemoveXattr(p) => match mget_mut(root, p) {
            Ok(VNode::File { xattrs, .. }) | Ok(VNode::Dir { xattrs, .. }) => {
                if xattrs.remove("user.c10").is_some() {
                    Ok(())
                } else {
                    Err(libc::ENODATA)
                }
            }
            Ok(_) => return None,
            Err(e) => Err(e),
        },
    })
}

fn dir_parent(inst: &Instance, cl: &mut Client, pp: &str) -> Result<EntryR, i32> {
    let p = resolve(inst, cl, pp)?;
    if p.attr.mode & libc::S_IFMT != libc::S_IFDIR {
        return Err(libc::ENOTDIR);
    }
    Ok(p)
}

thread_local! {
    /// cold mode: the client learns names through READDIRPLUS (as after `ls -l`), it never sends LOOKUP
    static COLD: std::cell::Cell<bool> = const { std::cell::Cell::new(false) };
}

fn via_readdirplus(inst: &Instance, cl: &mut Client, parent: u64, name: &[u8]) -> Result<Option<EntryR>, i32> {
    let (fh, _) = cl.opendir(&inst.srv, parent, 0)?;
    let mut off = 0u64;
    let mut found = None;
    for _ in 0..64 {
        let v = cl.readdir(&inst.srv, parent, fh, off, 4096, true)?;
        if v.is_empty() {
            break;
        }
        for d in v {
            off = d.off;
            if d.name == name {
                if let Some(raw) = &d.entry {
                    let e = parse_entry(raw);
                    if e.nodeid != 0 {
                        found = Some(e);
                    }
                }
            }
        }
    }
    let _ = cl.release(&inst.srv, parent, fh, 0, true);
    Ok(found)
}

fn child(inst: &Instance, cl: &mut Client, parent: &EntryR, name: &str) -> Result<Option<EntryR>, i32> {
    if COLD.with(|c| c.get()) {
        return via_readdirplus(inst, cl, parent.nodeid, name.as_bytes());
    }
    match cl.lookup(&inst.srv, parent.nodeid, name.as_bytes()) {
        Ok(e) if e.nodeid != 0 => Ok(Some(e)),
        Ok(_) => Ok(None),
        Err(e) if e == libc::ENOENT => Ok(None),
        Err(e) => Err(e),
    }
}

/// The operation through the FUSE client, as a kernel would issue it (lookups first).
pub fn real_apply(inst: &Instance, cl: &mut Client, op: &OOp, kept: &mut BTreeMap<String, (u64, u64)>) -> Result<(), i32> {
    let (pp, name) = split(op.path());
    let s = &inst.srv;
    match op {
        OOp::CreateExcl(_) | OOp::CreateTrunc(_) => {
            let parent = dir_parent(inst, cl, pp)?;
            // open(O_CREAT): the kernel looks the name up first; CREATE is only sent for a name that does not exist
            if let Some(e) = child(inst, cl, &parent, name)? {
                if matches!(op, OOp::CreateExcl(_)) {
                    return Err(libc::EEXIST);
                }
                if e.attr.mode & libc::S_IFMT == libc::S_IFDIR {
                    return Err(libc::EISDIR);
                }
                let (fh, _) = cl.open(s, e.nodeid, (libc::O_WRONLY | libc::O_TRUNC) as u32)?;
                let w = cl.write(s, e.nodeid, fh, 0, b"NEW", libc::O_WRONLY as u32, 0);
                let _ = cl.release(s, e.nodeid, fh, 0, false);
                return w.map(|_| ());
            }
            let flags = libc::O_WRONLY as u32 | if matches!(op, OOp::CreateExcl(_)) { libc::O_EXCL as u32 } else { libc::O_TRUNC as u32 };
            let (e, fh, _) = cl.create(s, parent.nodeid, name.as_bytes(), flags, 0o644, 0o022)?;
            let w = cl.write(s, e.nodeid, fh, 0, b"NEW", libc::O_WRONLY as u32, 0);
            let _ = cl.release(s, e.nodeid, fh, 0, false);
            w.map(|_| ())
        }
        OOp::Mkdir(_) => {
            let parent = dir_parent(inst, cl, pp)?;
            if child(inst, cl, &parent, name)?.is_some() {
                return Err(libc::EEXIST);
            }
            cl.mkdir(s, parent.nodeid, name.as_bytes(), 0o755, 0o022).map(|_| ())
        }
        OOp::Mknod(_) => {
            let parent = dir_parent(inst, cl, pp)?;
            if child(inst, cl, &parent, name)?.is_some() {
                return Err(libc::EEXIST);
            }
            cl.mknod(s, parent.nodeid, name.as_bytes(), libc::S_IFREG | 0o600, 0, 0o022).map(|_| ())
        }
        OOp::Symlink(_) => {
            let parent = dir_parent(inst, cl, pp)?;
            if child(inst, cl, &parent, name)?.is_some() {
                return Err(libc::EEXIST);
            }
            cl.symlink(s, parent.nodeid, name.as_bytes(), b"tgt").map(|_| ())
        }
        OOp::Rename(src, _) => {
            // the kernel looks both names up (the source must exist) and then sends RENAME
            let (spp, sname) = split(src);
            let sparent = dir_parent(inst, cl, spp)?;
            if child(inst, cl, &sparent, sname)?.is_none() {
                return Err(libc::ENOENT);
            }
            let parent = dir_parent(inst, cl, pp)?;
            let _ = child(inst, cl, &parent, name)?;
            match cl.rename(s, sparent.nodeid, sname.as_bytes(), parent.nodeid, name.as_bytes(), 0) {
                0 => Ok(()),
                e => Err(e),
            }
        }
        OOp::Link(src, _) => {
            let srcn = resolve(inst, cl, src)?;
            let parent = dir_parent(inst, cl, pp)?;
            // the kernel looks the new name up first and refuses an existing one, and refuses directories
            if child(inst, cl, &parent, name)?.is_some() {
                return Err(libc::EEXIST);
            }
            if srcn.attr.mode & libc::S_IFMT == libc::S_IFDIR {
                return Err(libc::EPERM);
            }
            cl.link(s, srcn.nodeid, parent.nodeid, name.as_bytes()).map(|_| ())
        }
        OOp::Unlink(_) => {
            let parent = dir_parent(inst, cl, pp)?;
            let Some(e) = child(inst, cl, &parent, name)? else { return Err(libc::ENOENT) };
            if e.attr.mode & libc::S_IFMT == libc::S_IFDIR {
                return Err(libc::EISDIR); // decided by the kernel's VFS before FUSE_UNLINK is sent
            }
            match cl.unlink(s, parent.nodeid, name.as_bytes()) {
                0 => Ok(()),
                e => Err(e),
            }
        }
        OOp::Rmdir(_) => {
            let parent = dir_parent(inst, cl, pp)?;
            let Some(e) = child(inst, cl, &parent, name)? else { return Err(libc::ENOENT) };
            if e.attr.mode & libc::S_IFMT != libc::S_IFDIR {
                return Err(libc::ENOTDIR);
            }
            match cl.rmdir(s, parent.nodeid, name.as_bytes()) {
                0 => Ok(()),
                e => Err(e),
            }
        }
        OOp::Write(p) => {
            let e = resolve(inst, cl, p)?;
            if e.attr.mode & libc::S_IFMT == libc::S_IFDIR {
                return Err(libc::EISDIR);
            }
            let (fh, _) = cl.open(s, e.nodeid, libc::O_WRONLY as u32)?;
            let w = cl.write(s, e.nodeid, fh, 1, b"W", libc::O_WRONLY as u32, 0);
            let _ = cl.release(s, e.nodeid, fh, 0, false);
            w.map(|_| ())
        }
        OOp::OpenTrunc(p) | OOp::OpenRdTrunc(p) => {
            let e = resolve(inst, cl, p)?;
            let acc = if matches!(op, OOp::OpenTrunc(_)) { libc::O_WRONLY } else { libc::O_RDONLY };
            if e.attr.mode & libc::S_IFMT == libc::S_IFDIR && acc == libc::O_WRONLY {
                return Err(libc::EISDIR);
            }
            let (fh, _) = cl.open(s, e.nodeid, (acc | libc::O_TRUNC) as u32)?;
            let _ = cl.release(s, e.nodeid, fh, 0, false);
            Ok(())
        }
        OOp::Truncate(p) => {
            let e = resolve(inst, cl, p)?;
            if e.attr.mode & libc::S_IFMT == libc::S_IFDIR {
                return Err(libc::EISDIR);
            }
            cl.setattr(s, e.nodeid, &[("valid", 8), ("size", 2)]).map(|_| ())
        }
        OOp::Chmod(p) => {
            let e = resolve(inst, cl, p)?;
            cl.setattr(s, e.nodeid, &[("valid", 1), ("mode", 0o700)]).map(|_| ())
        }
        OOp::SetXattr(p) => {
            let e = resolve(inst, cl, p)?;
            match cl.setxattr(s, e.nodeid, b"user.c10", b"v", 0) {
                0 => Ok(()),
                e => Err(e),
            }
        }
        OOp::Chown(p) => {
            let e = resolve(inst, cl, p)?;
            cl.setattr(s, e.nodeid, &[("valid", 2 | 4), ("uid", 12), ("gid", 13)]).map(|_| ())
        }
        OOp::OpenKeep(p) => {
            let e = resolve(inst, cl, p)?;
            let (fh, _) = cl.open(s, e.nodeid, libc::O_RDONLY as u32)?;
            kept.insert(p.clone(), (e.nodeid, fh));
            Ok(())
        }
        OOp::ChmodKept(p) => {
            let e = resolve(inst, cl, p)?;
            match kept.get(p) {
                // fchmod(fd): SETATTR with FATTR_FH and the handle of the earlier open
                Some((node, fh)) if *node == e.nodeid => cl.setattr(s, e.nodeid, &[("valid", 1 | (1 << 6)), ("mode", 0o700), ("fh", *fh)]).map(|_| ()),
                _ => cl.setattr(s, e.nodeid, &[("valid", 1), ("mode", 0o700)]).map(|_| ()),
            }
        }
        OOp::RemoveXattr(p) => {
            let e = resolve(inst, cl, p)?;
            match cl.removexattr(s, e.nodeid, b"user.c10") {
                0 => Ok(()),
                e => Err(e),
            }
        }
    }
}

const COMPARED_ERRNOS: [i32; 6] = [libc::ENOENT, libc::EEXIST, libc::ENOTEMPTY, libc::ENOTDIR, libc::EISDIR, libc::EROFS];

// ------------------------------------------------------------------------------------------------
// one run: a stack, a sequence of operations, all oracles after every prefix

pub struct Found {
    pub c10: Vec<(String, String)>,
    pub c11: Vec<(String, String)>,
    pub steps: u64,
    pub results: Vec<String>,
}

fn layer_ctx(stack: &Stack, path: &str) -> String {
    // where does the name live: u = upper, l = some lower, in that order; used as signature context
    fn has(n: &LNode, path: &str) -> Option<&'static str> {
        let mut cur = n;
        for comp in path.split('/') {
            match cur {
                LNode::Dir { children, .. } => match children.get(comp) {
                    Some(c) => cur = c,
                    None => return None,
                },
                _ => return None,
            }
        }
        Some(match cur {
            LNode::File { .. } => "file",
            LNode::Dir { opaque: Some(_), .. } => "opaque-dir",
            LNode::Dir { .. } => "dir",
            LNode::Symlink(_) => "symlink",
            LNode::Whiteout => "whiteout",
        })
    }
    let u = stack.upper.as_ref().and_then(|u| has(u, path)).unwrap_or(if stack.upper.is_some() { "absent" } else { "no-upper" });
    let ls: Vec<&str> = stack.lowers.iter().map(|l| has(l, path).unwrap_or("absent")).collect();
    format!("upper-{}+lower-{}", u, ls.join("+"))
}

pub fn run_case(stack: &Stack, seq: &[OOp], cl: &mut Client, with_restart: bool, switch: bool, cold: bool) -> Found {
    let mut f = Found { c10: Vec::new(), c11: Vec::new(), steps: 0, results: Vec::new() };
    let n0 = cl.nreq;
    let mut w = OWorld::new(stack, cl);
    let mut model = stack.visible();
    let mut kept: BTreeMap<String, (u64, u64)> = BTreeMap::new();
    let mut groups: Vec<Vec<String>> = Vec::new();
    // initial view (cold mode: the client has not looked at anything yet when the first operation arrives)
    let mut problems = Vec::new();
    if !cold {
        let seen = observe(&w.live, cl, &mut problems);
        for (c, m) in problems.drain(..) {
            f.c10.push((format!("view/{}", c), m));
        }
        if let Some((c, m)) = tree_diff("", Some(&model), Some(&seen), "the overlayfs rules", "the overlay") {
            f.c10.push((format!("view/{}", c), m));
        }
    }
    if with_restart && f.c10.is_empty() {
        // a second instance over untouched directories must agree as well (it does by construction; cheap sanity)
    }
    for (i, op) in seq.iter().enumerate() {
        if !f.c10.is_empty() || !f.c11.is_empty() {
            break;
        }
        let ctx = layer_ctx(stack, op.path());
        let mut m2 = model.clone();
        let want = if stack.upper.is_none() {
            // without an upper layer every modifying operation fails and changes nothing; where the client (kernel)
            // fails first the errno is the ordinary one
            match model_apply(&mut m2, op) {
                Some(Ok(())) => Some(Err(libc::EROFS)),
                Some(Err(e)) => Some(Err(e)),
                None => None,
            }
        } else {
            model_apply(&mut m2, op)
        };
        COLD.with(|c| c.set(cold));
        let got = real_apply(&w.live, cl, op, &mut kept);
        COLD.with(|c| c.set(false));
        f.results.push(format!("{:?}", got));
        // RENAME: the overlay may refuse it (it does: EXDEV); then nothing may have changed. If it succeeds the result
        // must be the ordinary one.
        let want = if matches!(op, OOp::Rename(..)) {
            match (&got, want) {
                (Err(e), _) => {
                    m2 = model.clone();
                    Some(Err(*e))
                }
                (Ok(()), w) => w,
            }
        } else {
            want
        };
        let Some(want) = want else {
            // undefined in the model: only the invariants (lowers untouched, restart equivalence) are checked
            let mut pr = Vec::new();
            let live = observe(&w.live, cl, &mut pr);
            model = live;
            if let Some(d) = w.lowers_changed() {
                f.c10.push((format!("lower-modified/{}@{}", op.kind(), ctx), format!("after {:?}: {}", op, d)));
            }
            continue;
        };
        match (&want, &got) {
            (Ok(()), Err(e)) => f.c10.push((format!("op-failed/{}/errno{}@{}", op.kind(), e, ctx), format!("step {}: {:?} failed with errno {} although an ordinary filesystem performs it", i, op, e))),
            (Err(e), Ok(())) => f.c10.push((format!("op-succeeded/{}/want-errno{}@{}", op.kind(), e, ctx), format!("step {}: {:?} succeeded although an ordinary filesystem answers errno {}", i, op, e))),
            (Err(a), Err(b)) if a != b && COMPARED_ERRNOS.contains(a) && stack.upper.is_some() => {
                f.c10.push((format!("errno/{}/got{}-want{}@{}", op.kind(), b, a, ctx), format!("step {}: {:?} answered errno {}, an ordinary filesystem answers {}", i, op, b, a)))
            }
            _ => {}
        }
        if want.is_ok() && stack.upper.is_some() {
            model = m2;
            // hard links: names created by LINK share one inode with their source
            match op {
                OOp::Link(src, dst) => {
                    match groups.iter_mut().find(|g| g.contains(src)) {
                        Some(g) => g.push(dst.clone()),
                        None => groups.push(vec![src.clone(), dst.clone()]),
                    }
                }
                OOp::Unlink(p) | OOp::Rmdir(p) => {
                    for g in groups.iter_mut() {
                        g.retain(|x| x != p);
                    }
                }
                OOp::CreateTrunc(p) | OOp::Write(p) | OOp::OpenTrunc(p) | OOp::OpenRdTrunc(p) | OOp::Truncate(p) | OOp::Chmod(p) | OOp::SetXattr(p) | OOp::RemoveXattr(p) | OOp::ChmodKept(p) => {
                    if let Some(g) = groups.iter().find(|g| g.contains(p)) {
                        if let Ok(n) = mget(&model, p).map(|n| n.clone()) {
                            for other in g.iter().filter(|x| *x != p) {
                                if let Ok(slot) = mget_mut(&mut model, other) {
                                    *slot = n.clone();
                                }
                            }
                        }
                    }
                }
                _ => {}
            }
        }
        // the view after the step
        let mut pr = Vec::new();
        let live = observe(&w.live, cl, &mut pr);
        for (c, m) in pr.drain(..) {
            f.c10.push((format!("after-{}/{}@{}", op.kind(), c, ctx), format!("step {}: after {:?}: {}", i, op, m)));
        }
        if f.c10.is_empty() {
            if let Some((c, m)) = tree_diff("", Some(&model), Some(&live), "an ordinary filesystem", "the overlay") {
                // a wrong type, mode, content or link target after an operation means that copying up lost it (C11);
                // it is also a wrong view (C10)
                if ["type", "mode", "dir-mode", "content", "target"].contains(&c.as_str()) {
                    f.c11.push((format!("copy-up/{}/{}@{}", op.kind(), c, ctx), format!("step {}: after {:?}: {}", i, op, m)));
                }
                f.c10.push((format!("after-{}/{}@{}", op.kind(), c, ctx), format!("step {}: after {:?}: {}", i, op, m)));
            }
        }
        if let Some(d) = w.lowers_changed() {
            f.c10.push((format!("lower-modified/{}@{}", op.kind(), ctx), format!("step {}: after {:?}: {}", i, op, d)));
        }
        if stack.upper.is_none() {
            // nothing at all may change
        }
        // C11: a freshly started overlay over the same directories shows the same tree
        if with_restart {
            let inst2 = w.restarted(cl);
            let mut pr2 = Vec::new();
            let fresh = observe(&inst2, cl, &mut pr2);
            for (c, m) in pr2.drain(..) {
                f.c11.push((format!("restart-after-{}/{}@{}", op.kind(), c, ctx), format!("step {}: after {:?} and a restart: {}", i, op, m)));
            }
            if let Some((c, m)) = tree_diff("", Some(&live), Some(&fresh), "the running instance", "a freshly started instance") {
                f.c11.push((format!("restart-after-{}/{}@{}", op.kind(), c, ctx), format!("step {}: after {:?}: {}", i, op, m)));
            }
            if switch {
                // carry on with the restarted instance: later steps start from state loaded from disk
                w.live = inst2;
                kept.clear();
            }
        }
    }
    f.steps = cl.nreq - n0;
    f
}

// ------------------------------------------------------------------------------------------------
// stacks

/// The 55 contents of one layer over the universe {a, d, d/a}.
pub fn layer_contents(tag: &str, dir_mode: u32, file_mode: u32, opaque_name: &'static str) -> Vec<LNode> {
    let mut a_opts: Vec<Option<LNode>> = vec![None, Some(LNode::file(&format!("{}-a", tag), file_mode)), Some(LNode::dir(dir_mode, None, vec![])), Some(LNode::Symlink(format!("{}-target", tag).into_bytes())), Some(LNode::Whiteout)];
    let mut d_opts: Vec<Option<LNode>> = vec![None, Some(LNode::file(&format!("{}-d", tag), file_mode)), Some(LNode::Whiteout)];
    for opaque in [None, Some(opaque_name)] {
        for da in [None, Some(LNode::file(&format!("{}-da", tag), file_mode)), Some(LNode::Whiteout), Some(LNode::dir(dir_mode, None, vec![]))] {
            let kids = match da {
                Some(n) => vec![("a", n)],
                None => vec![],
            };
            d_opts.push(Some(LNode::dir(dir_mode, opaque, kids)));
        }
    }
    let mut out = Vec::new();
    for a in a_opts.drain(..) {
        for d in &d_opts {
            let mut kids = Vec::new();
            if let Some(n) = &a {
                kids.push(("a", n.clone()));
            }
            if let Some(n) = d {
                kids.push(("d", n.clone()));
            }
            out.push(LNode::dir(0o755, None, kids));
        }
    }
    out
}

pub fn ops_for(paths: &[&str], link_src: &[&str]) -> Vec<OOp> {
    let mut v = Vec::new();
    for p in paths {
        let s = p.to_string();
        v.push(OOp::CreateExcl(s.clone()));
        v.push(OOp::CreateTrunc(s.clone()));
        v.push(OOp::Mkdir(s.clone()));
        v.push(OOp::Mknod(s.clone()));
        v.push(OOp::Symlink(s.clone()));
        v.push(OOp::Unlink(s.clone()));
        v.push(OOp::Rmdir(s.clone()));
        v.push(OOp::Write(s.clone()));
        v.push(OOp::OpenTrunc(s.clone()));
        v.push(OOp::OpenRdTrunc(s.clone()));
        v.push(OOp::Truncate(s.clone()));
        v.push(OOp::Chmod(s.clone()));
        v.push(OOp::SetXattr(s.clone()));
        v.push(OOp::RemoveXattr(s.clone()));
        v.push(OOp::Chown(s.clone()));
        for l in link_src {
            if l != p {
                v.push(OOp::Link(l.to_string(), s.clone()));
            }
        }
    }
    v
}

struct ORun<'a> {
    rep: &'a mut Report,
    cl: Client,
    prop: &'static str,
}

impl<'a> ORun<'a> {
    fn case(&mut self, family: &str, stack: &Stack, seq: &[OOp]) -> bool {
        let with_restart = self.prop == "C11";
        let f = run_case(stack, seq, &mut self.cl, with_restart, family.ends_with("-switch"), family.ends_with("-cold"));
        self.rep.eval();
        self.rep.transitions += f.steps;
        let mine = if self.prop == "C10" { &f.c10 } else { &f.c11 };
        let other = if self.prop == "C10" { &f.c11 } else { &f.c10 };
        let kind = seq.last().map(|o| o.kind()).unwrap_or("view");
        let res = f.results.last().cloned().unwrap_or_default();
        self.rep.outcome(&format!("{}:{}:{}:{}", family, kind, if res.starts_with("Ok") { "ok" } else if res.is_empty() { "-" } else { "err" }, if !mine.is_empty() { "VIOLATION" } else if !other.is_empty() { "cut-by-other-property" } else { "ok" }));
        self.rep.state_of(&(family, stack.label(), format!("{:?}", seq)));
        self.rep.sample(|| json!({"family": family, "stack": stack.label(), "sequence": format!("{:?}", seq), "results": f.results}));
        let mut seen = BTreeSet::new();
        for (class, msg) in mine {
            if !seen.insert(class.clone()) {
                continue;
            }
            let lbl = stack.label();
            let sq: Vec<String> = seq.iter().map(|o| format!("{:?}", o)).collect();
            let fam = family.to_string();
            self.rep.violation(&format!("{}/{}", self.prop, class), msg, || json!({"engine": "overlay", "family": fam, "stack": lbl, "sequence": sq}));
        }
        !f.c10.is_empty() || !f.c11.is_empty()
    }

    /// A lower file `p/big` of `size` patterned bytes under a directory with mode 2750; one operation that copies it
    /// up; the upper copy on the host must equal the original (except for what the operation changes).
    fn bigfile(&mut self, size: usize, opk: usize) {
        let content: Vec<u8> = (0..size).map(|i| (i % 251) as u8 ^ ((i >> 12) as u8)).collect();
        let lower = LNode::dir(0o755, None, vec![("p", LNode::dir(0o2750, None, vec![("big", LNode::File { content: content.clone(), mode: 0o4711 })]))]);
        let stack = Stack { upper: Some(LNode::dir(0o755, None, vec![])), lowers: vec![lower] };
        let cl = &mut self.cl;
        let n0 = cl.nreq;
        let w = OWorld::new(&stack, cl);
        let mut bad: Vec<(String, String)> = Vec::new();
        let opname = ["chmod", "write", "setxattr"][opk];
        let r = match resolve(&w.live, cl, "p/big") {
            Ok(e) => match opk {
                0 => cl.setattr(&w.live.srv, e.nodeid, &[("valid", 1), ("mode", 0o4700)]).map(|_| ()),
                1 => match cl.open(&w.live.srv, e.nodeid, libc::O_WRONLY as u32) {
                    Ok((fh, _)) => {
                        let r = cl.write(&w.live.srv, e.nodeid, fh, 0, b"", libc::O_WRONLY as u32, 0).map(|_| ());
                        let _ = cl.release(&w.live.srv, e.nodeid, fh, 0, false);
                        r
                    }
                    Err(e) => Err(e),
                },
                _ => match cl.setxattr(&w.live.srv, e.nodeid, b"user.c11", b"v", 0) {
                    0 => Ok(()),
                    e => Err(e),
                },
            },
            Err(e) => Err(e),
        };
        if let Err(e) = r {
            bad.push((format!("bigfile/{}/failed", opname), format!("{} on a {} byte lower file failed with errno {}", opname, size, e)));
        } else {
            let up = w.upper_dir.as_ref().unwrap().join("p/big");
            match std::fs::read(&up) {
                Ok(got) => {
                    if got != content {
                        let first = got.iter().zip(content.iter()).position(|(a, b)| a != b).unwrap_or(got.len().min(content.len()));
                        bad.push((format!("copy-up/{}/content", opname), format!("{} on a {} byte lower file: the upper copy has {} bytes and differs from the original at offset {}", opname, size, got.len(), first)));
                    }
                    let md = std::fs::metadata(&up).unwrap();
                    let want = if opk == 0 { 0o4700 } else { 0o4711 };
                    // a write clears set-id bits on the host; only the permission bits are compared then
                    let mask = if opk == 1 { 0o777 } else { 0o7777 };
                    if md.permissions().mode() & mask != want & mask {
                        bad.push((format!("copy-up/{}/mode", opname), format!("{}: the upper copy has mode {:o}, the original {:o}", opname, md.permissions().mode() & 0o7777, want)));
                    }
                    let pm = std::fs::metadata(w.upper_dir.as_ref().unwrap().join("p")).unwrap().permissions().mode() & 0o7777;
                    if pm != 0o2750 {
                        bad.push((format!("copy-up/{}/dir-mode", opname), format!("{}: the parent directory created on the way has mode {:o}, the original 2750", opname, pm)));
                    }
                }
                Err(e) => bad.push((format!("copy-up/{}/no-upper-copy", opname), format!("{} succeeded but upper/p/big cannot be read: {}", opname, e))),
            }
            if let Some(d) = w.lowers_changed() {
                bad.push((format!("copy-up/{}/lower-modified", opname), d));
            }
        }
        self.rep.eval();
        self.rep.transitions += self.cl.nreq - n0;
        self.rep.outcome(&format!("bigfile:{}:{}", opname, if bad.is_empty() { "ok" } else { "VIOLATION" }));
        self.rep.state_of(&("bigfile", size, opk));
        for (class, msg) in bad {
            self.rep.violation(&format!("C11/{}@size{}", class, if size > (4 << 20) { ">4MiB" } else { "<=4MiB" }), &msg, || json!({"engine": "overlay", "family": "bigfile", "size": size, "op": opname}));
        }
    }

    fn rec(&mut self, family: &str, stack: &Stack, seq: &mut Vec<OOp>, ops: &[OOp], depth: usize) {
        let cut = self.case(family, stack, seq);
        if cut || seq.len() >= depth || self.rep.over_budget() {
            return;
        }
        for op in ops {
            seq.push(op.clone());
            self.rec(family, stack, seq, ops, depth);
            seq.pop();
        }
    }
}

pub fn run(args: &Args, prop: &'static str) -> Report {
    let mut rep = args.report();
    let thorough = args.thorough();
    let mut idx = 0u64;
    let mut run = ORun { rep: &mut rep, cl: Client::new(), prop };
    let uppers = layer_contents("U", 0o755, 0o644, OPAQUE_NAMES[0]);
    let lowers = layer_contents("L", 0o1777, 0o640, OPAQUE_NAMES[1]);
    let lowers2 = layer_contents("M", 0o750, 0o600, OPAQUE_NAMES[2]);
    let small_paths = ["a", "d", "d/a", "n", "d/n"];
    let mut small_ops = ops_for(&small_paths, &["a", "d/a"]);
    for (src, dst) in [("a", "n"), ("a", "d/n"), ("d", "n"), ("d/a", "n"), ("a", "d/a"), ("d", "a")] {
        small_ops.push(OOp::Rename(src.into(), dst.into()));
    }
    // removal and re-creation, the operations whose effect lives in whiteouts and opaque markers
    let switch_ops: Vec<OOp> = small_ops.iter().filter(|o| matches!(o, OOp::Unlink(_) | OOp::Rmdir(_) | OOp::Mkdir(_) | OOp::CreateExcl(_) | OOp::Symlink(_)) && o.path() != "n" && o.path() != "d/n").cloned().collect();
    // Order: the small targeted families first, the large products last, so that a run that hits its wall-clock budget
    // on a loaded machine has lost part of a product and not a whole family (the budget cap is reported either way).
    // family handles: a read-only handle opened before the object is copied up is used afterwards
    {
        let hl = LNode::dir(0o755, None, vec![("a", LNode::file("L-a", 0o640)), ("b", LNode::file("L-a", 0o640)), ("d", LNode::dir(0o1777, None, vec![("a", LNode::file("L-da", 0o604))]))]);
        let hus = vec![LNode::dir(0o755, None, vec![]), LNode::dir(0o755, None, vec![("d", LNode::dir(0o755, None, vec![]))]), LNode::dir(0o755, None, vec![("a", LNode::file("U-a", 0o644))])];
        for hu in &hus {
            let stack = Stack { upper: Some(hu.clone()), lowers: vec![hl.clone()] };
            for p in ["a", "d/a"] {
                let mids: Vec<Option<OOp>> = vec![None, Some(OOp::Write(p.into())), Some(OOp::Chmod(p.into())), Some(OOp::SetXattr(p.into())), Some(OOp::Truncate(p.into())), Some(OOp::Link(p.into(), "n".into())), Some(OOp::Chown(p.into())), Some(OOp::OpenTrunc(p.into()))];
                for mid in mids {
                    let mut seq = vec![OOp::OpenKeep(p.into())];
                    if let Some(m) = mid {
                        seq.push(m);
                    }
                    seq.push(OOp::ChmodKept(p.into()));
                    seq.push(OOp::Write(p.into()));
                    if run.rep.mine(idx) && !run.rep.over_budget() {
                        for n in 1..=seq.len() {
                            if run.case("handles", &stack, &seq[..n]) {
                                break;
                            }
                        }
                    }
                    idx += 1;
                }
            }
        }
    }
    // family bigfile (C11): copy-up of files larger than the copy chunk, compared on the host byte by byte
    if prop == "C11" {
        let sizes: Vec<usize> = if thorough { vec![0, 1, 4095, 4096, 1 << 20, (4 << 20) - 1, 4 << 20, (4 << 20) + 1, (9 << 20) + 5] } else { vec![4096, (4 << 20) + 1] };
        for size in sizes {
            for opk in 0..3 {
                if run.rep.mine(idx) && !run.rep.over_budget() {
                    run.bigfile(size, opk);
                }
                idx += 1;
            }
        }
    }
    // family deep: a lower tree of depth 3 under an empty (or partly populated) upper; removal / re-creation
    // sequences to depth 3
    let deep_lower = LNode::dir(
        0o755,
        None,
        vec![("p", LNode::dir(0o1777, None, vec![("c", LNode::dir(0o750, None, vec![("f", LNode::file("L-pcf", 0o640)), ("g", LNode::Symlink(b"L-t\xe9gt".to_vec()))])), ("f", LNode::file("L-pf", 0o604))]))],
    );
    let deep_uppers = vec![LNode::dir(0o755, None, vec![]), LNode::dir(0o755, None, vec![("p", LNode::dir(0o755, None, vec![("c", LNode::dir(0o755, None, vec![("u", LNode::file("U-pcu", 0o644))]))]))])];
    let mut deep_ops: Vec<OOp> = Vec::new();
    for p in ["p/c/f", "p/c/g", "p/c", "p/f", "p"] {
        deep_ops.push(OOp::Unlink(p.into()));
        deep_ops.push(OOp::Rmdir(p.into()));
    }
    for p in ["p/c", "p", "p/c/f"] {
        deep_ops.push(OOp::Mkdir(p.into()));
        deep_ops.push(OOp::CreateExcl(p.into()));
    }
    deep_ops.push(OOp::Write("p/c/f".into()));
    deep_ops.push(OOp::Chmod("p/c".into()));
    deep_ops.push(OOp::Unlink("p/c/u".into()));
    deep_ops.push(OOp::Chown("p/c/g".into()));
    deep_ops.push(OOp::Chown("p/c".into()));
    let deep_depth = if thorough { 4 } else { 3 };
    for u in &deep_uppers {
        let stack = Stack { upper: Some(u.clone()), lowers: vec![deep_lower.clone()] };
        for fam in ["deep", "deep-switch"] {
            if fam == "deep-switch" && prop != "C11" {
                continue;
            }
            for first in &deep_ops {
                if run.rep.mine(idx) && !run.rep.over_budget() {
                    let mut seq = vec![first.clone()];
                    run.rec(fam, &stack, &mut seq, &deep_ops, deep_depth);
                }
                idx += 1;
            }
        }
    }
    // family triple: three layers over d only (6 contents each): whiteouts and opaque directories in the middle
    let d6 = |tag: &str, mode: u32, opq: &'static str| -> Vec<LNode> {
        let f = LNode::file(&format!("{}-da", tag), 0o644);
        vec![
            LNode::dir(0o755, None, vec![]),
            LNode::dir(0o755, None, vec![("d", LNode::Whiteout)]),
            LNode::dir(0o755, None, vec![("d", LNode::dir(mode, None, vec![]))]),
            LNode::dir(0o755, None, vec![("d", LNode::dir(mode, None, vec![(if tag == "U" { "u" } else if tag == "L" { "a" } else { "m" }, f.clone())]))]),
            LNode::dir(0o755, None, vec![("d", LNode::dir(mode, Some(opq), vec![("a", f.clone())]))]),
            LNode::dir(0o755, None, vec![("d", LNode::file(&format!("{}-d", tag), 0o644))]),
        ]
    };
    let triple_ops = ops_for(&["d", "d/a", "d/m", "d/n"], &["d/a"]);
    for u in d6("U", 0o755, OPAQUE_NAMES[0]) {
        for l in d6("L", 0o1777, OPAQUE_NAMES[1]) {
            for m in d6("M", 0o750, OPAQUE_NAMES[2]) {
                let stack = Stack { upper: Some(u.clone()), lowers: vec![l.clone(), m.clone()] };
                if run.rep.mine(idx) && !run.rep.over_budget() {
                    let mut seq = Vec::new();
                    run.rec("triple", &stack, &mut seq, &triple_ops, 1);
                }
                idx += 1;
            }
        }
    }
    // family no-upper: one or two lowers, nothing may change
    for (li, l) in lowers.iter().enumerate() {
        for (mi, m) in lowers2.iter().enumerate() {
            if mi != 0 && (li + mi) % 7 != 0 && !thorough {
                continue;
            }
            if prop == "C11" && !(thorough && mi == 0) {
                continue; // nothing is ever written without an upper layer: C10 checks exactly that
            }
            let stack = Stack { upper: None, lowers: if mi == 0 { vec![l.clone()] } else { vec![l.clone(), m.clone()] } };
            if run.rep.mine(idx) && !run.rep.over_budget() {
                let mut seq = Vec::new();
                run.rec("no-upper", &stack, &mut seq, &small_ops, 1);
            }
            idx += 1;
        }
    }
    // pair-switch: on a sample of the pair stacks, every pair of operations with a restart in between
    if prop == "C11" {
        let step = if thorough { 1 } else { 20 };
        for (ui, u) in uppers.iter().enumerate() {
            for (li, l) in lowers.iter().enumerate() {
                if (ui * 55 + li) % step != 0 {
                    continue;
                }
                let stack = Stack { upper: Some(u.clone()), lowers: vec![l.clone()] };
                for first in &switch_ops {
                    if run.rep.mine(idx) && !run.rep.over_budget() {
                        let mut seq = vec![first.clone()];
                        run.rec("pair-switch", &stack, &mut seq, &switch_ops, 2);
                    }
                    idx += 1;
                }
            }
        }
    }
    // family pair-cold (C10): the first operation arrives before the client has looked anything up; names are learned
    // through READDIRPLUS only (as after `ls -l`), so nothing was loaded by an earlier LOOKUP
    if prop == "C10" {
        let cold_ops: Vec<OOp> = small_ops.iter().filter(|o| matches!(o, OOp::Rmdir(_) | OOp::Unlink(_) | OOp::Mkdir(_) | OOp::CreateExcl(_) | OOp::Chmod(_) | OOp::Write(_) | OOp::Link(..))).cloned().collect();
        for (ui, u) in uppers.iter().enumerate() {
            for (li, l) in lowers.iter().enumerate() {
                if !thorough && (ui * 55 + li) % 4 != 0 {
                    continue;
                }
                let stack = Stack { upper: Some(u.clone()), lowers: vec![l.clone()] };
                for op in &cold_ops {
                    if run.rep.mine(idx) && !run.rep.over_budget() {
                        run.case("pair-cold", &stack, &[op.clone()]);
                    }
                    idx += 1;
                }
            }
        }
    }
    // family pair: upper x one lower, every single operation (thorough: every pair of operations on a subset)
    for (ui, u) in uppers.iter().enumerate() {
        for (li, l) in lowers.iter().enumerate() {
            // C11 quick: every third stack (the restart doubles the cost); C10 and thorough: all
            if prop == "C11" && !thorough && (ui + li) % 3 != 0 {
                continue;
            }
            let stack = Stack { upper: Some(u.clone()), lowers: vec![l.clone()] };
            if run.rep.mine(idx) && !run.rep.over_budget() {
                let mut seq = Vec::new();
                run.rec("pair", &stack, &mut seq, &small_ops, 1);
            }
            idx += 1;
        }
    }
    // thorough: two lowers in full, pairs of operations on the pair family
    if thorough {
        for u in &uppers {
            for l in &lowers {
                for m in &lowers2 {
                    let stack = Stack { upper: Some(u.clone()), lowers: vec![l.clone(), m.clone()] };
                    if run.rep.mine(idx) && !run.rep.over_budget() {
                        run.case("triple-full", &stack, &[]);
                    }
                    idx += 1;
                }
            }
        }
        for u in uppers.iter().step_by(3) {
            for l in lowers.iter().step_by(2) {
                let stack = Stack { upper: Some(u.clone()), lowers: vec![l.clone()] };
                for first in &small_ops {
                    if run.rep.mine(idx) && !run.rep.over_budget() {
                        let mut seq = vec![first.clone()];
                        run.rec("pair-depth2", &stack, &mut seq, &small_ops, 2);
                    }
                    idx += 1;
                }
            }
        }
    }
    rep.set("units_all_shards", json!(idx));
    rep.set("layer_contents", json!(uppers.len()));
    rep.set("operations", json!({"small": small_ops.len(), "triple": triple_ops.len(), "deep": deep_ops.len()}));
    rep
}

pub fn debug() {
    let mut cl = Client::new();
    let stack = Stack { upper: Some(LNode::dir(0o755, None, vec![("d", LNode::file("U-d", 0o644))])), lowers: vec![LNode::dir(0o755, None, vec![])] };
    let w = OWorld::new(&stack, &mut cl);
    let e = resolve(&w.live, &mut cl, "d").unwrap();
    println!("before: mode {:o} size {}", e.attr.mode, e.attr.size);
    let r = cl.setattr(&w.live.srv, e.nodeid, &[("valid", 1), ("mode", 0o700)]);
    println!("setattr -> {:?}", r.map(|a| format!("{:o}", a.mode)));
    let r = cl.setattr(&w.live.srv, e.nodeid, &[("valid", 8), ("size", 2)]);
    println!("setattr size -> {:?}", r.map(|a| a.size));
    let e = resolve(&w.live, &mut cl, "d").unwrap();
    println!("after: mode {:o} size {}", e.attr.mode, e.attr.size);
    let md = std::fs::metadata(w.upper_dir.as_ref().unwrap().join("d")).unwrap();
    println!("host: mode {:o} size {}", md.permissions().mode(), md.len());
}
