pub mod wire_eng;
pub mod transport_eng;
pub mod vfs_eng;
