pub mod wire_eng;
pub mod transport_eng;
#[cfg(not(feature = "asyncio"))]
pub mod vfs_eng;
#[cfg(not(feature = "asyncio"))]
pub mod ptfs_eng;
#[cfg(not(feature = "asyncio"))]
pub mod escape_eng;
