pub mod wire_eng;
