//! Engine T: transports (C04, C17). Every operation sequence up to a depth over readers, writers
//! and split halves, on every buffer / descriptor-chain shape of a stated family, against the
//! reference model `refbytes` (a byte vector and cursors).

use std::fs::File;
use std::io::{IoSlice, Read, Seek, SeekFrom, Write};
use std::os::unix::io::FromRawFd;

use fuse_backend_rs::transport::{FuseBuf, FuseDevWriter, Reader, VirtioFsWriter, Writer};
use serde_json::{json, Value};
use vm_memory::bitmap::BitmapSlice;

use crate::args::Args;
use crate::env::{subject, FuseDev, Seg, Virtio, A_BASE, B_BASE, CANARY, PAD};
use crate::report::Report;

// ------------------------------------------------------------------------------------------------
// shapes

#[derive(Clone, Debug, PartialEq, Eq, Hash)]
pub enum Shape {
    /// one contiguous /dev/fuse buffer of the given length
    Fuse(usize),
    /// descriptor chain: segment lengths, gap between segments, alignment offset of the first
    /// segment relative to a bitmap page, second half of the segments in region B
    Virt { lens: Vec<usize>, gap: usize, align: usize, split_regions: bool },
    /// descriptor chain at a region edge: the first `k` segments lie back to back and end exactly at the end of guest
    /// memory region A, the others lie back to back from the first byte of region B; the two regions are adjacent in
    /// HOST memory (one backing mapping) and far apart in guest-physical space, each with its own dirty bitmap
    Edge { lens: Vec<usize>, k: usize },
}

impl Shape {
    pub fn total(&self) -> usize {
        match self {
            Shape::Fuse(n) => *n,
            Shape::Virt { lens, .. } | Shape::Edge { lens, .. } => lens.iter().sum(),
        }
    }
    pub fn label(&self) -> String {
        match self {
            Shape::Fuse(n) => format!("fusedev[{}]", n),
            Shape::Virt { lens, gap, align, split_regions } => format!("virtio{:?}gap{}align{}{}", lens, gap, align, if *split_regions { "AB" } else { "" }),
            Shape::Edge { lens, k } => format!("virtio{:?}edge-after-{}", lens, k),
        }
    }
    pub fn segs(&self) -> Vec<Seg> {
        match self {
            Shape::Fuse(_) => vec![],
            Shape::Virt { lens, gap, align, split_regions } => {
                let mut v = Vec::new();
                let mut a = A_BASE + 4096 + *align as u64;
                let half = (lens.len() + 1) / 2;
                for (i, l) in lens.iter().enumerate() {
                    if *split_regions && i == half {
                        a = B_BASE + 4096 + *align as u64;
                    }
                    v.push(Seg { addr: a, len: *l as u32 });
                    a += (*l + *gap) as u64;
                }
                v
            }
            Shape::Edge { lens, k } => {
                let mut v = Vec::new();
                let in_a: usize = lens[..*k].iter().sum();
                let mut a = A_BASE + EDGE_REGION as u64 - in_a as u64;
                for (i, l) in lens.iter().enumerate() {
                    if i == *k {
                        a = B_BASE;
                    }
                    v.push(Seg { addr: a, len: *l as u32 });
                    a += *l as u64;
                }
                v
            }
        }
    }
}

fn chain_lens(max_segs: usize, alphabet: &[usize], max_total: usize) -> Vec<Vec<usize>> {
    let mut out: Vec<Vec<usize>> = vec![];
    fn rec(cur: &mut Vec<usize>, max_segs: usize, alphabet: &[usize], max_total: usize, out: &mut Vec<Vec<usize>>) {
        if !cur.is_empty() {
            out.push(cur.clone());
        }
        if cur.len() == max_segs {
            return;
        }
        for a in alphabet {
            if cur.iter().sum::<usize>() + a <= max_total {
                cur.push(*a);
                rec(cur, max_segs, alphabet, max_total, out);
                cur.pop();
            }
        }
    }
    rec(&mut vec![], max_segs, alphabet, max_total, &mut out);
    out
}

/// All shapes of the family; `rich` selects the full family, otherwise a representative subset.
pub fn shapes(level: u8, aligns: &[usize]) -> Vec<Shape> {
    let mut v = Vec::new();
    for n in 0..=24usize {
        if level == 2 || (level == 1 && [0, 1, 2, 7, 8, 16, 24].contains(&n)) || [0, 1, 8, 24].contains(&n) {
            v.push(Shape::Fuse(n));
        }
    }
    let lens = match level {
        2 => chain_lens(4, &[0, 1, 2, 3, 5, 8], 24),
        1 => {
            let mut l = chain_lens(3, &[0, 1, 3, 8], 24);
            l.extend(chain_lens(4, &[0, 1, 8], 24).into_iter().filter(|x| x.len() == 4));
            l
        }
        _ => vec![vec![8], vec![3, 8], vec![0, 8], vec![8, 0, 8], vec![1, 1, 1], vec![3, 5, 8], vec![1, 0, 0, 5]],
    };
    for l in lens {
        for &align in aligns {
            v.push(Shape::Virt { lens: l.clone(), gap: 8, align, split_regions: false });
        }
        if l.len() >= 2 {
            v.push(Shape::Virt { lens: l.clone(), gap: 0, align: aligns[0], split_regions: false });
            v.push(Shape::Virt { lens: l.clone(), gap: 8, align: aligns[0], split_regions: true });
            // the chain crosses from the last bytes of one guest memory region to the first bytes of another
            if (l.len() <= 3 || level == 2) && l.iter().all(|x| *x > 0) {
                for k in 1..l.len() {
                    v.push(Shape::Edge { lens: l.clone(), k });
                }
            }
        }
    }
    v
}

// ------------------------------------------------------------------------------------------------
// operations

#[derive(Clone, Copy, Debug, PartialEq, Eq, Hash)]
pub enum N {
    Abs(usize),
    Rest,
    RestPlus1,
}

impl N {
    fn val(&self, rest: usize) -> usize {
        match self {
            N::Abs(n) => *n,
            N::Rest => rest,
            N::RestPlus1 => rest + 1,
        }
    }
}

#[derive(Clone, Copy, Debug, PartialEq, Eq, Hash)]
pub enum ROp {
    Read(N),
    ReadExact(N),
    ObjU8,
    ObjU32,
    Obj5,
    ReadTo(N),
    ReadToAt(N, u64),
    ReadExactTo(N),
    Split(N),
}

#[derive(Clone, Copy, Debug, PartialEq, Eq, Hash)]
pub enum WOp {
    Write(N),
    WriteAll(N),
    Vectored(usize, usize, usize),
    ObjU8,
    ObjU32,
    Obj5,
    /// (count, source file length)
    From(N, usize),
    /// (count, source file length, offset)
    FromAt(N, usize, u64),
    AllFrom(N, usize),
    Split(N),
    CommitNone,
    /// commit with the part at the given index as `other`
    CommitWith(usize),
}

fn n_values(level: u8) -> Vec<N> {
    match level {
        2 => vec![N::Abs(0), N::Abs(1), N::Abs(2), N::Abs(3), N::Abs(5), N::Abs(8), N::Rest, N::RestPlus1],
        1 => vec![N::Abs(0), N::Abs(1), N::Abs(3), N::Rest, N::RestPlus1],
        _ => vec![N::Abs(0), N::Abs(2), N::Rest, N::RestPlus1],
    }
}

fn reader_ops(rich: u8) -> Vec<ROp> {
    let mut v = vec![ROp::ObjU8, ROp::ObjU32, ROp::Obj5];
    for n in n_values(rich) {
        v.push(ROp::Read(n));
        v.push(ROp::ReadExact(n));
        v.push(ROp::ReadTo(n));
        v.push(ROp::ReadToAt(n, 3));
        v.push(ROp::ReadExactTo(n));
        v.push(ROp::Split(n));
    }
    v
}

fn writer_ops(rich: u8) -> Vec<WOp> {
    let mut v = vec![WOp::ObjU8, WOp::ObjU32, WOp::Obj5, WOp::CommitNone, WOp::CommitWith(0), WOp::CommitWith(1), WOp::CommitWith(2)];
    for n in n_values(rich) {
        v.push(WOp::Write(n));
        v.push(WOp::WriteAll(n));
        v.push(WOp::Split(n));
    }
    let vecs: &[(usize, usize, usize)] = match rich {
        2 => &[(0, 0, 0), (1, 0, 0), (0, 2, 0), (1, 2, 3), (3, 0, 5), (8, 8, 8), (0, 0, 1), (5, 5, 0)],
        1 => &[(0, 0, 0), (1, 2, 3), (3, 0, 5), (8, 8, 8)],
        _ => &[(1, 2, 3), (0, 1, 0)],
    };
    for (a, b, c) in vecs {
        v.push(WOp::Vectored(*a, *b, *c));
    }
    // file sources shorter than, equal to and longer than the count
    let from_ns: Vec<N> = if rich >= 1 { vec![N::Abs(0), N::Abs(2), N::Abs(5), N::Rest, N::RestPlus1] } else { vec![N::Abs(2), N::Rest, N::RestPlus1] };
    for n in from_ns {
        for flen in [0usize, 1, 5, 40] {
            if (rich < 2 && flen == 1) || (rich == 0 && flen == 0) {
                continue;
            }
            v.push(WOp::From(n, flen));
            v.push(WOp::FromAt(n, flen, 1));
            v.push(WOp::AllFrom(n, flen));
        }
    }
    v
}

// ------------------------------------------------------------------------------------------------
// reference model

fn tag(pos: usize) -> u8 {
    // position tagged, never equal to the canary or to the guest-memory background (high bit set)
    0x01 + (pos as u8 % 0x7e)
}

#[derive(Clone, Debug)]
struct RPart {
    lo: usize,
    hi: usize,
    cur: usize,
    /// bytes_read() value when cur == lo
    base: usize,
}

#[derive(Clone, Debug)]
struct WPart {
    start: usize,
    cap: usize,
    data: Vec<u8>,
    buffered: bool,
    /// fusedev unbuffered writers may be written once (documented precondition)
    spent: bool,
}

pub struct Ctx {
    pub file: File,
    pub src: File,
    pub counter: usize,
}

impl Ctx {
    pub fn new() -> Ctx {
        let mk = |name: &str| unsafe {
            let fd = libc::memfd_create(format!("{}\0", name).as_ptr() as *const libc::c_char, 0);
            assert!(fd >= 0);
            File::from_raw_fd(fd)
        };
        Ctx { file: mk("fbrv-dst"), src: mk("fbrv-src"), counter: 0 }
    }
    fn reset_dst(&mut self, prefill: usize) {
        self.file.set_len(0).unwrap();
        self.file.seek(SeekFrom::Start(0)).unwrap();
        if prefill > 0 {
            self.file.write_all(&vec![0xEEu8; prefill]).unwrap();
            self.file.seek(SeekFrom::Start(0)).unwrap();
        }
    }
    fn dst_content(&mut self) -> Vec<u8> {
        let mut v = Vec::new();
        self.file.seek(SeekFrom::Start(0)).unwrap();
        self.file.read_to_end(&mut v).unwrap();
        v
    }
    /// source file of `len` fresh tagged bytes, positioned at 0; returns its content
    fn set_src(&mut self, len: usize) -> Vec<u8> {
        let data = self.fresh(len);
        self.src.set_len(0).unwrap();
        self.src.seek(SeekFrom::Start(0)).unwrap();
        self.src.write_all(&data).unwrap();
        self.src.seek(SeekFrom::Start(0)).unwrap();
        data
    }
    fn fresh(&mut self, len: usize) -> Vec<u8> {
        let v: Vec<u8> = (0..len).map(|i| 0x80 | tag(self.counter + i * 7 + 1)).map(|b| if b == CANARY { 0x81 } else { b }).collect();
        self.counter += len * 7 + 3;
        v
    }
}

// ------------------------------------------------------------------------------------------------
// readers

/// Applies `op` to part `pi`; returns Err(description) on an oracle violation, Ok(false) if the op
/// does not apply (no such part).
fn reader_step<S: BitmapSlice>(
    parts: &mut Vec<Reader<'_, S>>,
    model: &mut Vec<RPart>,
    data: &[u8],
    pi: usize,
    op: ROp,
    ctx: &mut Ctx,
) -> Result<bool, String> {
    if pi >= parts.len() {
        return Ok(false);
    }
    let m = model[pi].clone();
    let rest = m.hi - m.cur;
    let r = &mut parts[pi];
    let expect_bytes = |n: usize| data[m.cur..m.cur + n].to_vec();
    match op {
        ROp::Read(nn) => {
            let n = nn.val(rest);
            let mut buf = vec![0x55u8; n + 4];
            let got = r.read(&mut buf[..n]).map_err(|e| format!("read({}) failed: {}", n, e))?;
            if got > n || got > rest {
                return Err(format!("read({}) returned {} with {} available", n, got, rest));
            }
            if got == 0 && n > 0 && rest > 0 {
                return Err(format!("read({}) made no progress with {} available", n, rest));
            }
            if buf[..got] != expect_bytes(got)[..] {
                return Err(format!("read({}) delivered {:?}, the next request bytes are {:?}", n, &buf[..got], expect_bytes(got)));
            }
            if buf[n..].iter().any(|b| *b != 0x55) || buf[got..n].iter().any(|b| *b != 0x55) {
                return Err(format!("read({}) wrote beyond the {} bytes it reported", n, got));
            }
            model[pi].cur += got;
        }
        ROp::ReadExact(_) | ROp::ObjU8 | ROp::ObjU32 | ROp::Obj5 => {
            let n = match op {
                ROp::ReadExact(nn) => nn.val(rest),
                ROp::ObjU8 => 1,
                ROp::ObjU32 => 4,
                _ => 5,
            };
            let mut buf = vec![0u8; n];
            let res: std::io::Result<()> = match op {
                ROp::ReadExact(_) => r.read_exact(&mut buf),
                ROp::ObjU8 => r.read_obj::<u8>().map(|v| buf[0] = v),
                ROp::ObjU32 => r.read_obj::<u32>().map(|v| buf.copy_from_slice(&v.to_ne_bytes())),
                _ => r.read_obj::<[u8; 5]>().map(|v| buf.copy_from_slice(&v)),
            };
            if n <= rest {
                res.map_err(|e| format!("{:?} of {} bytes failed with {} available: {}", op, n, rest, e))?;
                if buf != expect_bytes(n) {
                    return Err(format!("{:?} delivered {:?}, the next request bytes are {:?}", op, buf, expect_bytes(n)));
                }
                model[pi].cur += n;
            } else {
                if res.is_ok() {
                    return Err(format!("{:?} of {} bytes succeeded with only {} available", op, n, rest));
                }
                // a failed exact read may have consumed what was there
                let consumed = r.bytes_read();
                if consumed < m.base + (m.cur - m.lo) || consumed > m.base + (m.hi - m.lo) {
                    return Err(format!("bytes_read {} outside the part after a failed exact read", consumed));
                }
                model[pi].cur = m.lo + (consumed - m.base);
            }
        }
        ROp::ReadTo(nn) | ROp::ReadToAt(nn, _) | ROp::ReadExactTo(nn) => {
            let n = nn.val(rest);
            let off = if let ROp::ReadToAt(_, o) = op { o as usize } else { 0 };
            ctx.reset_dst(off);
            let res: std::io::Result<usize> = match op {
                ROp::ReadTo(_) => r.read_to(&mut ctx.file, n),
                ROp::ReadToAt(_, o) => r.read_to_at(&mut ctx.file, n, o),
                _ => r.read_exact_to(&mut ctx.file, n).map(|_| n),
            };
            let content = ctx.dst_content();
            match res {
                Ok(got) => {
                    if matches!(op, ROp::ReadExactTo(_)) && n > rest {
                        return Err(format!("read_exact_to({}) succeeded with {} available", n, rest));
                    }
                    if got > n || got > rest {
                        return Err(format!("{:?} moved {} bytes with n={} available={}", op, got, n, rest));
                    }
                    if got == 0 && n > 0 && rest > 0 {
                        return Err(format!("{:?} made no progress", op));
                    }
                    let mut want = vec![0xEEu8; off];
                    want.extend_from_slice(&expect_bytes(got));
                    if content != want {
                        return Err(format!("{:?}: file holds {:?}, expected {:?}", op, content, want));
                    }
                    model[pi].cur += got;
                }
                Err(e) => {
                    if !(matches!(op, ROp::ReadExactTo(_)) && n > rest) {
                        return Err(format!("{:?} failed: {}", op, e));
                    }
                    let consumed = r.bytes_read();
                    let newcur = m.lo + consumed.saturating_sub(m.base);
                    if newcur < m.cur || newcur > m.hi {
                        return Err(format!("bytes_read {} outside the part after failed read_exact_to", consumed));
                    }
                    if content[..] != data[m.cur..newcur] {
                        return Err(format!("failed read_exact_to left {:?} in the file, consumed bytes are {:?}", content, &data[m.cur..newcur]));
                    }
                    model[pi].cur = newcur;
                }
            }
        }
        ROp::Split(kk) => {
            let k = kk.val(rest);
            match r.split_at(k) {
                Ok(other) => {
                    if k > rest {
                        return Err(format!("split_at({}) succeeded with {} available", k, rest));
                    }
                    model[pi].hi = m.cur + k;
                    model.push(RPart { lo: m.cur + k, hi: m.hi, cur: m.cur + k, base: 0 });
                    parts.push(other);
                }
                Err(e) => {
                    if k <= rest {
                        return Err(format!("split_at({}) failed with {} available: {:?}", k, rest, e));
                    }
                }
            }
        }
    }
    // counters of every part
    for (i, (p, mm)) in parts.iter().zip(model.iter()).enumerate() {
        let (a, c) = (p.available_bytes(), p.bytes_read());
        if a != mm.hi - mm.cur || c != mm.base + (mm.cur - mm.lo) {
            return Err(format!(
                "part {}: available_bytes={} bytes_read={}, model says {} / {} (size {})",
                i,
                a,
                c,
                mm.hi - mm.cur,
                mm.base + (mm.cur - mm.lo),
                mm.base + (mm.hi - mm.lo)
            ));
        }
    }
    Ok(true)
}

// ------------------------------------------------------------------------------------------------
// writers

macro_rules! on_writer {
    ($w:expr, $v:ident => $e:expr) => {
        match $w {
            Writer::FuseDev($v) => $e,
            Writer::VirtioFs($v) => $e,
            _ => unreachable!(),
        }
    };
}

pub struct WObs {
    /// fusedev: records that arrived since the last observation
    pub records: Vec<Vec<u8>>,
}

#[allow(clippy::too_many_arguments)]
fn writer_step<S: BitmapSlice>(
    parts: &mut Vec<Writer<'_, S>>,
    model: &mut Vec<WPart>,
    expected_records: &mut Vec<Vec<u8>>,
    fusedev: bool,
    pi: usize,
    op: WOp,
    ctx: &mut Ctx,
) -> Result<bool, String> {
    if pi >= parts.len() {
        return Ok(false);
    }
    let m = model[pi].clone();
    let rest = m.cap - m.data.len();
    let unbuffered = fusedev && !m.buffered;
    let is_write = !matches!(op, WOp::Split(_) | WOp::CommitNone | WOp::CommitWith(_));
    if unbuffered && is_write && m.spent {
        // documented precondition of FuseDevWriter: an unsplit writer is written in one shot
        return Ok(false);
    }
    // what the operation should do, by the reference model
    let mut emit = |model: &mut Vec<WPart>, bytes: &[u8], expected_records: &mut Vec<Vec<u8>>| {
        model[pi].data.extend_from_slice(bytes);
        if unbuffered {
            model[pi].spent = true;
            if !bytes.is_empty() {
                expected_records.push(bytes.to_vec());
            }
        }
    };
    match op {
        WOp::Write(nn) | WOp::WriteAll(nn) => {
            let n = nn.val(rest);
            let data = ctx.fresh(n);
            let w = &mut parts[pi];
            let res: std::io::Result<usize> = match op {
                WOp::Write(_) => w.write(&data),
                _ => w.write_all(&data).map(|_| n),
            };
            match res {
                Ok(got) => {
                    if n > rest {
                        return Err(format!("{:?} of {} bytes succeeded with {} available", op, n, rest));
                    }
                    if got != n {
                        return Err(format!("{:?} of {} bytes wrote {}", op, n, got));
                    }
                    emit(model, &data, expected_records);
                }
                Err(e) => {
                    if n <= rest {
                        return Err(format!("{:?} of {} bytes failed with {} available: {}", op, n, rest, e));
                    }
                }
            }
        }
        WOp::Vectored(a, b, c) => {
            let (da, db, dc) = (ctx.fresh(a), ctx.fresh(b), ctx.fresh(c));
            let total = a + b + c;
            let res = parts[pi].write_vectored(&[IoSlice::new(&da), IoSlice::new(&db), IoSlice::new(&dc)]);
            match res {
                Ok(got) => {
                    if total > rest {
                        return Err(format!("write_vectored of {} bytes succeeded with {} available", total, rest));
                    }
                    if got != total {
                        return Err(format!("write_vectored of {} bytes wrote {}", total, got));
                    }
                    let mut all = da.clone();
                    all.extend_from_slice(&db);
                    all.extend_from_slice(&dc);
                    emit(model, &all, expected_records);
                }
                Err(e) => {
                    if total <= rest {
                        return Err(format!("write_vectored of {} bytes failed with {} available: {}", total, rest, e));
                    }
                }
            }
        }
        WOp::ObjU8 | WOp::ObjU32 | WOp::Obj5 => {
            let n = match op {
                WOp::ObjU8 => 1,
                WOp::ObjU32 => 4,
                _ => 5,
            };
            let data = ctx.fresh(n);
            let res: std::io::Result<()> = on_writer!(&mut parts[pi], w => match op {
                WOp::ObjU8 => w.write_obj::<u8>(data[0]),
                WOp::ObjU32 => w.write_obj::<u32>(u32::from_ne_bytes(data[..4].try_into().unwrap())),
                _ => w.write_obj::<[u8; 5]>(data[..5].try_into().unwrap()),
            });
            match res {
                Ok(()) => {
                    if n > rest {
                        return Err(format!("{:?} succeeded with {} available", op, rest));
                    }
                    emit(model, &data, expected_records);
                }
                Err(e) => {
                    if n <= rest {
                        return Err(format!("{:?} failed with {} available: {}", op, rest, e));
                    }
                }
            }
        }
        WOp::From(nn, flen) | WOp::FromAt(nn, flen, _) | WOp::AllFrom(nn, flen) => {
            let n = nn.val(rest);
            let off = if let WOp::FromAt(_, _, o) = op { o as usize } else { 0 };
            if unbuffered && matches!(op, WOp::AllFrom(..)) && flen < n && flen > 0 {
                // would need a second write on an unsplit fusedev writer (documented precondition)
                return Ok(false);
            }
            let src = ctx.set_src(flen);
            let res: std::io::Result<usize> = match op {
                WOp::From(..) => on_writer!(&mut parts[pi], w => w.write_from(&mut ctx.src, n)),
                WOp::FromAt(_, _, o) => parts[pi].write_from_at(&mut ctx.src, n, o),
                _ => on_writer!(&mut parts[pi], w => w.write_all_from(&mut ctx.src, n)).map(|_| n),
            };
            let avail_src = flen.saturating_sub(off);
            match res {
                Ok(got) => {
                    if n > rest {
                        return Err(format!("{:?} of {} bytes succeeded with {} available", op, n, rest));
                    }
                    let want = n.min(avail_src);
                    if matches!(op, WOp::AllFrom(..)) && avail_src < n {
                        return Err(format!("write_all_from({}) succeeded although the source holds {} bytes", n, avail_src));
                    }
                    if got != want {
                        return Err(format!("{:?}: moved {} bytes, source holds {} and count is {}", op, got, avail_src, n));
                    }
                    {
                        let o = off.min(src.len());
                        emit(model, &src[o..o + got], expected_records);
                    }
                }
                Err(e) => {
                    if n > rest {
                        // refused for lack of space: nothing may have happened
                    } else if matches!(op, WOp::AllFrom(..)) && avail_src < n {
                        // the source ran dry: what it held has been written
                        emit(model, &src[..avail_src], expected_records);
                    } else {
                        return Err(format!("{:?} failed with {} available: {}", op, rest, e));
                    }
                }
            }
        }
        WOp::Split(kk) => {
            if parts.len() >= 4 || (unbuffered && m.spent) {
                // an unsplit fusedev writer that has been written is done (one-shot rule)
                return Ok(false);
            }
            // fusedev splits the buffer at an absolute offset (limit: capacity); virtio splits the
            // remaining space (limit: available bytes)
            let (limit, k) = if fusedev { (m.cap, kk.val(m.cap)) } else { (rest, kk.val(rest)) };
            let res = parts[pi].split_at(k);
            match res {
                Ok(other) => {
                    if k > limit {
                        return Err(format!("split_at({}) succeeded, limit is {}", k, limit));
                    }
                    if fusedev {
                        let l1 = m.data.len().min(k);
                        let tail = m.data[l1..].to_vec();
                        model[pi].cap = k;
                        model[pi].data.truncate(l1);
                        model[pi].buffered = true;
                        model.push(WPart { start: m.start + k, cap: m.cap - k, data: tail, buffered: true, spent: false });
                    } else {
                        model[pi].cap = m.data.len() + k;
                        model.push(WPart { start: m.start + m.data.len() + k, cap: rest - k, data: vec![], buffered: false, spent: false });
                    }
                    parts.push(other);
                }
                Err(e) => {
                    if k <= limit {
                        return Err(format!("split_at({}) failed, limit is {}: {:?}", k, limit, e));
                    }
                }
            }
        }
        WOp::CommitNone | WOp::CommitWith(_) => {
            let oi = if let WOp::CommitWith(j) = op { Some(j) } else { None };
            if let Some(j) = oi {
                if j >= parts.len() || j == pi {
                    return Ok(false);
                }
            }
            let res = match oi {
                None => parts[pi].commit(None),
                Some(j) => {
                    // borrow two distinct elements
                    let (a, b) = if pi < j {
                        let (x, y) = parts.split_at_mut(j);
                        (&mut x[pi], &y[0])
                    } else {
                        let (x, y) = parts.split_at_mut(pi);
                        (&mut y[0], &x[j])
                    };
                    a.commit(Some(b))
                }
            };
            res.map_err(|e| format!("commit failed: {}", e))?;
            if fusedev && m.buffered {
                let mut rec = m.data.clone();
                if let Some(j) = oi {
                    rec.extend_from_slice(&model[j].data);
                }
                if !rec.is_empty() {
                    expected_records.push(rec);
                }
            }
        }
    }
    for (i, (p, mm)) in parts.iter().zip(model.iter()).enumerate() {
        let (a, c) = (p.available_bytes(), p.bytes_written());
        if a != mm.cap - mm.data.len() || c != mm.data.len() {
            return Err(format!(
                "part {}: available_bytes={} bytes_written={}, model says {} / {} (capacity {})",
                i,
                a,
                c,
                mm.cap - mm.data.len(),
                mm.data.len(),
                mm.cap
            ));
        }
    }
    Ok(true)
}

// ------------------------------------------------------------------------------------------------
// running one sequence on one shape

pub struct Outcome {
    /// None: sequence not applicable (an op addressed a missing part)
    pub applied: Option<usize>,
    pub c04: Option<String>,
    pub c17: Option<String>,
    pub panic: Option<String>,
    pub summary: String,
}

/// size of each data region of the transport rig
pub const EDGE_REGION: usize = 1 << 16;

pub struct TRig {
    pub dev: FuseDev,
    pub virt: Virtio,
    pub ctx: Ctx,
    /// C17: state of the dirty bitmap before the writer sequence starts (the bitmap is not cleared between replies
    /// in production): 0 clean, 1 every page with an even number dirty, 2 the first and the last page of every
    /// writable descriptor dirty
    pub predirty: u8,
}

impl TRig {
    pub fn new(page: usize) -> TRig {
        TRig { dev: FuseDev::new(), virt: Virtio::new_adjacent(page, EDGE_REGION, EDGE_REGION), ctx: Ctx::new(), predirty: 0 }
    }
}

fn request_bytes(n: usize) -> Vec<u8> {
    (0..n).map(tag).collect()
}

pub fn run_reader_seq(rig: &mut TRig, shape: &Shape, seq: &[(usize, ROp)]) -> Outcome {
    let total = shape.total();
    let data = request_bytes(total);
    let mut model = vec![RPart { lo: 0, hi: total, cur: 0, base: 0 }];
    let mut applied = 0usize;
    let mut c04: Option<String> = None;
    let ctx = &mut rig.ctx;
    let panic;
    match shape {
        Shape::Fuse(n) => {
            let mut buf = vec![CANARY; PAD + n + PAD];
            buf[PAD..PAD + n].copy_from_slice(&data);
            let res = {
                let mid = &mut buf[PAD..PAD + n];
                subject(|| -> Result<Option<usize>, String> {
                    let mut parts = vec![Reader::<()>::from_fuse_buffer(FuseBuf::new(mid)).map_err(|e| format!("{:?}", e))?];
                    for (i, (pi, op)) in seq.iter().enumerate() {
                        if !reader_step(&mut parts, &mut model, &data, *pi, *op, ctx).map_err(|e| format!("step {} ({:?} on part {}): {}", i, op, pi, e))? {
                            return Ok(None);
                        }
                    }
                    Ok(Some(seq.len()))
                })
            };
            panic = res.as_ref().err().map(|_| "panic in reader operation".to_string());
            match res {
                Ok(Ok(Some(n))) => applied = n,
                Ok(Ok(None)) => return Outcome { applied: None, c04: None, c17: None, panic: None, summary: String::new() },
                Ok(Err(e)) => c04 = Some(e),
                Err(_) => {}
            }
            if buf[..PAD].iter().chain(buf[PAD + n..].iter()).any(|b| *b != CANARY) || buf[PAD..PAD + n] != data[..] {
                c04.get_or_insert("request buffer or its canaries modified by reader operations".into());
            }
        }
        Shape::Edge { .. } => return Outcome { applied: None, c04: None, c17: None, panic: None, summary: String::new() },
        Shape::Virt { .. } => {
            let segs = shape.segs();
            let virt = &rig.virt;
            for s in &segs {
                virt.fill_bg(s.addr - PAD as u64, s.len as usize + 2 * PAD);
            }
            let mut pos = 0;
            for s in &segs {
                virt.write(s.addr, &data[pos..pos + s.len as usize]);
                pos += s.len as usize;
            }
            for s in &segs {
                virt.reset_dirty(s.addr - PAD as u64, s.len as usize + 2 * PAD);
            }
            let before: Vec<Vec<u8>> = segs.iter().map(|s| virt.read(s.addr - PAD as u64, s.len as usize + 2 * PAD)).collect();
            let q = virt.queue();
            let descs = Virtio::descs(&segs, &[]);
            let res = subject(|| -> Result<Option<usize>, String> {
                let chain = q.build_desc_chain(&descs).map_err(|e| format!("chain: {:?}", e))?;
                let mut parts = vec![Reader::from_descriptor_chain(&virt.mem, chain).map_err(|e| format!("{:?}", e))?];
                for (i, (pi, op)) in seq.iter().enumerate() {
                    if !reader_step(&mut parts, &mut model, &data, *pi, *op, ctx).map_err(|e| format!("step {} ({:?} on part {}): {}", i, op, pi, e))? {
                        return Ok(None);
                    }
                }
                Ok(Some(seq.len()))
            });
            panic = res.as_ref().err().map(|_| "panic in reader operation".to_string());
            match res {
                Ok(Ok(Some(n))) => applied = n,
                Ok(Ok(None)) => return Outcome { applied: None, c04: None, c17: None, panic: None, summary: String::new() },
                Ok(Err(e)) => c04 = Some(e),
                Err(_) => {}
            }
            let mut c17 = None;
            for (s, b) in segs.iter().zip(before.iter()) {
                let now = virt.read(s.addr - PAD as u64, s.len as usize + 2 * PAD);
                if now != *b {
                    c04.get_or_insert("guest memory modified by reader operations".into());
                }
                for i in 0..(s.len as usize + 2 * PAD) {
                    if virt.is_dirty(s.addr - PAD as u64 + i as u64) {
                        c17.get_or_insert(format!("page of a request buffer the server only read is marked dirty (gpa {:#x})", s.addr - PAD as u64 + i as u64));
                        break;
                    }
                }
            }
            let summary = format!("{:?}", model.iter().map(|m| (m.lo, m.cur, m.hi)).collect::<Vec<_>>());
            return Outcome { applied: Some(applied), c04: c04.or(panic.clone()), c17, panic, summary };
        }
    }
    let summary = format!("{:?}", model.iter().map(|m| (m.lo, m.cur, m.hi)).collect::<Vec<_>>());
    Outcome { applied: Some(applied), c04: c04.or(panic.clone()), c17: None, panic, summary }
}

pub fn run_writer_seq(rig: &mut TRig, shape: &Shape, seq: &[(usize, WOp)]) -> Outcome {
    let total = shape.total();
    let mut model = vec![WPart { start: 0, cap: total, data: vec![], buffered: false, spent: false }];
    let mut expected: Vec<Vec<u8>> = vec![];
    let mut c04: Option<String> = None;
    let mut c17: Option<String> = None;
    let mut applied = 0usize;
    let ctx = &mut rig.ctx;
    let panic;
    match shape {
        Shape::Fuse(n) => {
            rig.dev.drain();
            let fd = rig.dev.srv;
            let mut buf = vec![CANARY; PAD + n + PAD];
            let res = {
                let mid = &mut buf[PAD..PAD + n];
                subject(|| -> Result<Option<usize>, String> {
                    let mut parts: Vec<Writer<'_, ()>> = vec![Writer::FuseDev(FuseDevWriter::<()>::new(fd, mid).map_err(|e| format!("{:?}", e))?)];
                    for (i, (pi, op)) in seq.iter().enumerate() {
                        if !writer_step(&mut parts, &mut model, &mut expected, true, *pi, *op, ctx).map_err(|e| format!("step {} ({:?} on part {}): {}", i, op, pi, e))? {
                            return Ok(None);
                        }
                    }
                    Ok(Some(seq.len()))
                })
            };
            panic = res.as_ref().err().map(|_| "panic in writer operation".to_string());
            match res {
                Ok(Ok(Some(n))) => applied = n,
                Ok(Ok(None)) => {
                    rig.dev.drain();
                    return Outcome { applied: None, c04: None, c17: None, panic: None, summary: String::new() };
                }
                Ok(Err(e)) => c04 = Some(e),
                Err(_) => {}
            }
            let recs: Vec<Vec<u8>> = rig.dev.drain().into_iter().filter(|r| !r.is_empty()).collect();
            if c04.is_none() && panic.is_none() && recs != expected {
                c04 = Some(format!("device received {:?}, the writes amount to {:?}", recs, expected));
            }
            if buf[..PAD].iter().chain(buf[PAD + n..].iter()).any(|b| *b != CANARY) {
                c04.get_or_insert("canary around the reply buffer damaged".into());
            }
            // buffered parts: the buffer holds exactly the bytes written, nothing behind them
            if c04.is_none() && panic.is_none() {
                for p in model.iter().filter(|p| p.buffered) {
                    let got = &buf[PAD + p.start..PAD + p.start + p.data.len()];
                    if got != &p.data[..] {
                        c04 = Some(format!("buffer of split writer at {} holds {:?}, written {:?}", p.start, got, p.data));
                    }
                }
            }
        }
        Shape::Virt { .. } | Shape::Edge { .. } => {
            let segs = shape.segs();
            let virt = &rig.virt;
            let page = virt.page as u64;
            let span = |s: &Seg| {
                // the surroundings of a segment, clamped to the guest memory region it lies in
                let (rbase, rsize) = if s.addr >= B_BASE { (B_BASE, virt.b_size) } else { (A_BASE, virt.a_size) };
                let lo = ((s.addr.saturating_sub(PAD as u64)) / page * page).max(rbase);
                let hi = ((s.addr + s.len as u64 + PAD as u64 + page - 1) / page * page).min(rbase + rsize as u64);
                (lo, (hi.max(lo) - lo) as usize)
            };
            for s in &segs {
                let (lo, len) = span(s);
                virt.fill_bg(lo, len);
                virt.reset_dirty(lo, len);
            }
            // pages that are dirty before the sequence starts (left by earlier replies)
            let mut pre: std::collections::BTreeSet<u64> = Default::default();
            match rig.predirty {
                1 => {
                    for s in &segs {
                        let (lo, len) = span(s);
                        let mut a = lo;
                        while a < lo + len as u64 {
                            if (a / page) % 2 == 0 {
                                pre.insert(a / page);
                            }
                            a += page;
                        }
                    }
                }
                2 => {
                    for s in segs.iter().filter(|s| s.len > 0) {
                        pre.insert(s.addr / page);
                        pre.insert((s.addr + s.len as u64 - 1) / page);
                    }
                }
                _ => {}
            }
            for pg in &pre {
                virt.set_dirty(pg * page);
            }
            let q = virt.queue();
            let descs = Virtio::descs(&[], &segs);
            let res = subject(|| -> Result<Option<usize>, String> {
                let chain = q.build_desc_chain(&descs).map_err(|e| format!("chain: {:?}", e))?;
                let mut parts = vec![Writer::VirtioFs(VirtioFsWriter::new(&virt.mem, chain).map_err(|e| format!("{:?}", e))?)];
                for (i, (pi, op)) in seq.iter().enumerate() {
                    if !writer_step(&mut parts, &mut model, &mut expected, false, *pi, *op, ctx).map_err(|e| format!("step {} ({:?} on part {}): {}", i, op, pi, e))? {
                        return Ok(None);
                    }
                }
                Ok(Some(seq.len()))
            });
            panic = res.as_ref().err().map(|_| "panic in writer operation".to_string());
            match res {
                Ok(Ok(Some(n))) => applied = n,
                Ok(Ok(None)) => return Outcome { applied: None, c04: None, c17: None, panic: None, summary: String::new() },
                Ok(Err(e)) => c04 = Some(e),
                Err(_) => {}
            }
            // expected content of the writable area
            let mut area: Vec<Option<u8>> = vec![None; total];
            for p in &model {
                for (i, b) in p.data.iter().enumerate() {
                    area[p.start + i] = Some(*b);
                }
            }
            // address of each area position
            let mut addr_of: Vec<u64> = Vec::with_capacity(total);
            for s in &segs {
                for i in 0..s.len as u64 {
                    addr_of.push(s.addr + i);
                }
            }
            // one bulk read per span
            let spans: Vec<(u64, Vec<u8>)> = segs.iter().map(|s| { let (lo, len) = span(s); (lo, virt.read(lo, len)) }).collect();
            let bgv = |a: u64| -> u8 {
                for (lo, v) in &spans {
                    if a >= *lo && a < *lo + v.len() as u64 {
                        return v[(a - *lo) as usize];
                    }
                }
                unreachable!()
            };
            if c04.is_none() && panic.is_none() {
                for (pos, want) in area.iter().enumerate() {
                    let a = addr_of[pos];
                    let now = bgv(a);
                    match want {
                        Some(b) if now != *b => {
                            c04 = Some(format!("area byte {} holds {:#x}, the writes put {:#x} there", pos, now, b));
                            break;
                        }
                        None => {
                            if now != crate::env::Virtio::bg_byte(a) {
                                c04 = Some(format!("area byte {} modified although nothing was written there", pos));
                                break;
                            }
                        }
                        _ => {}
                    }
                }
                // gaps and surroundings
                for (lo, v) in &spans {
                    for (i, b) in v.iter().enumerate() {
                        let a = lo + i as u64;
                        if segs.iter().any(|t| a >= t.addr && a < t.addr + t.len as u64) {
                            continue;
                        }
                        if *b != crate::env::Virtio::bg_byte(a) {
                            c04.get_or_insert(format!("byte outside the writable descriptors modified (gpa {:#x})", a));
                        }
                    }
                }
            }
            // dirty tracking (C17): pages holding a written byte must be dirty; pages holding none must not
            if panic.is_none() {
                let mut must: std::collections::BTreeSet<u64> = Default::default();
                for (pos, want) in area.iter().enumerate() {
                    if want.is_some() {
                        must.insert(addr_of[pos] / page);
                    }
                }
                for pg in &must {
                    if !virt.is_dirty(pg * page) {
                        c17.get_or_insert(format!("page {:#x} (size {}) holds bytes written by the server but is not marked dirty{}", pg * page, page, if rig.predirty != 0 { " (other pages were dirty before the sequence)" } else { "" }));
                    }
                }
                for s in &segs {
                    let (lo, len) = span(s);
                    let mut a = lo;
                    while a < lo + len as u64 {
                        if virt.is_dirty(a) && !must.contains(&(a / page)) && !pre.contains(&(a / page)) {
                            c17.get_or_insert(format!("page {:#x} (size {}) marked dirty although the server wrote nothing there", a, page));
                        }
                        if !virt.is_dirty(a) && pre.contains(&(a / page)) {
                            c17.get_or_insert(format!("page {:#x} (size {}) was dirty before the sequence and is clean after it", a, page));
                        }
                        a += page;
                    }
                }
            }
        }
    }
    let summary = format!("{:?}", model.iter().map(|m| (m.start, m.data.len(), m.cap)).collect::<Vec<_>>());
    Outcome { applied: Some(applied), c04: c04.or(panic.clone()), c17, panic, summary }
}

// ------------------------------------------------------------------------------------------------
// exploration

fn classify(msg: &str) -> String {
    // a short, stable class for the signature
    let m = msg.split(": ").nth(1).unwrap_or(msg);
    let words: Vec<&str> = m.split_whitespace().filter(|w| !w.chars().any(|c| c.is_ascii_digit())).take(4).collect();
    words.join("-").replace(|c: char| !c.is_alphanumeric() && c != '-' && c != '_', "")
}

fn op_kind<T: std::fmt::Debug>(op: &T) -> String {
    let s = format!("{:?}", op);
    s.split('(').next().unwrap_or(&s).to_string()
}

pub struct Explore<'a> {
    pub rep: &'a mut Report,
    pub rig: TRig,
    pub which: &'a str,
    pub depth: usize,
}

impl<'a> Explore<'a> {
    fn record(&mut self, shape: &Shape, kind: &str, seq_dbg: String, last_op: String, out: &Outcome) {
        self.rep.eval();
        self.rep.transitions += out.applied.unwrap_or(0) as u64;
        let viol = if self.which == "C04" { &out.c04 } else { &out.c17 };
        let o = format!("{}:{}:{}", kind, last_op, if viol.is_some() { "VIOLATION" } else { "ok" });
        self.rep.outcome(&o);
        let pre = self.rig.predirty;
        self.rep.state_of(&(shape.label(), &out.summary, pre));
        self.rep.sample(|| json!({"shape": shape.label(), "kind": kind, "sequence": seq_dbg, "final_model": out.summary}));
        if let Some(msg) = viol {
            let tr = match shape {
                Shape::Fuse(_) => "fusedev",
                _ => "virtio",
            };
            let sig = format!("{}/{}/{}/{}/{}", self.which, tr, kind, last_op, classify(msg));
            let sh = shape.clone();
            let pre_name = ["clean", "even pages dirty", "first and last page of each descriptor dirty"][pre as usize];
            self.rep.violation(&sig, msg, || json!({"engine": "transport", "shape": format!("{:?}", sh), "kind": kind, "sequence": seq_dbg, "bitmap_before": pre_name}));
        }
    }

    /// all reader sequences of length 1..=depth whose first step is `first`
    pub fn readers(&mut self, shape: &Shape, first: (usize, ROp), ops: &[ROp]) {
        let mut seq = vec![first];
        self.readers_rec(shape, &mut seq, ops);
    }

    fn readers_rec(&mut self, shape: &Shape, seq: &mut Vec<(usize, ROp)>, ops: &[ROp]) {
        let out = run_reader_seq(&mut self.rig, shape, seq);
        if out.applied.is_none() {
            return;
        }
        let bad = out.c04.is_some();
        self.record(shape, "reader", format!("{:?}", seq), op_kind(&seq.last().unwrap().1), &out);
        if bad || seq.len() >= self.depth {
            return; // cut at the first violation
        }
        let nparts = 1 + seq.iter().filter(|(_, o)| matches!(o, ROp::Split(_))).count();
        for pi in 0..nparts.min(3) {
            for op in ops {
                seq.push((pi, *op));
                self.readers_rec(shape, seq, ops);
                seq.pop();
            }
        }
    }

    pub fn writers(&mut self, shape: &Shape, first: (usize, WOp), ops: &[WOp]) {
        let mut seq = vec![first];
        self.writers_rec(shape, &mut seq, ops);
    }

    fn writers_rec(&mut self, shape: &Shape, seq: &mut Vec<(usize, WOp)>, ops: &[WOp]) {
        let out = run_writer_seq(&mut self.rig, shape, seq);
        if out.applied.is_none() {
            return;
        }
        let bad = out.c04.is_some() || (self.which == "C17" && out.c17.is_some());
        self.record(shape, "writer", format!("{:?}", seq), op_kind(&seq.last().unwrap().1), &out);
        if bad || seq.len() >= self.depth {
            return;
        }
        let nparts = 1 + seq.iter().filter(|(_, o)| matches!(o, WOp::Split(_))).count();
        for pi in 0..nparts.min(3) {
            for op in ops {
                seq.push((pi, *op));
                self.writers_rec(shape, seq, ops);
                seq.pop();
            }
        }
    }
}

pub fn run(args: &Args, which: &str) -> Report {
    let mut rep = args.report();
    let thorough = args.thorough();
    let page = if which == "C17" { 8 } else { 1 };
    let aligns: Vec<usize> = if which == "C17" { if thorough { (0..8).collect() } else { vec![0, 1, 4, 7] } } else { vec![0] };
    let rig = TRig::new(page);
    // passes: (shape family level, depth, alphabet level)
    let passes: Vec<(u8, usize, u8)> = if which == "C17" {
        if thorough { vec![(2, 2, 1), (1, 3, 0), (0, 4, 0)] } else { vec![(1, 2, 1), (0, 3, 0)] }
    } else if thorough {
        vec![(2, 2, 2), (1, 3, 1), (0, 4, 0)]
    } else {
        vec![(1, 2, 1), (0, 3, 0)]
    };
    let mut idx = 0u64;
    let mut total_shapes = 0usize;
    let mut ex = Explore { rep: &mut rep, rig, which, depth: 0 };
    for (pi, (rich_shapes, depth, rich_ops)) in passes.iter().enumerate() {
        ex.depth = *depth;
        let shs: Vec<Shape> = shapes(*rich_shapes, if *rich_shapes == 0 && aligns.len() > 1 { &aligns[..3] } else { &aligns })
            .into_iter()
            .filter(|s| which != "C17" || matches!(s, Shape::Virt { .. } | Shape::Edge { .. }))
            .collect();
        total_shapes += shs.len();
        let rops = reader_ops(*rich_ops);
        let wops = writer_ops(*rich_ops);
        for sh in &shs {
            if which == "C04" || pi == 0 {
                for op in &rops {
                    if ex.rep.mine(idx) {
                        ex.readers(sh, (0, *op), &rops);
                    }
                    idx += 1;
                    if ex.rep.over_budget() {
                        break;
                    }
                }
            }
            let pres: &[u8] = if which == "C17" && (pi == 0 || thorough) { &[0, 1, 2] } else { &[0] };
            for pre in pres {
                ex.rig.predirty = *pre;
                for op in &wops {
                    if ex.rep.mine(idx) {
                        ex.writers(sh, (0, *op), &wops);
                    }
                    idx += 1;
                    if ex.rep.over_budget() {
                        break;
                    }
                }
            }
            ex.rig.predirty = 0;
        }
    }
    if which == "C04" {
        adapters(&mut rep, args);
    } else {
        crate::engines::wire_eng::c17_requests(&mut rep, thorough);
    }
    rep.set("first_step_units_all_shards", json!(idx));
    rep.set("shapes", json!(total_shapes));
    rep.set("passes", json!(passes.iter().map(|(r, d, o)| format!("shape-family-level={} depth={} alphabet-level={}", r, d, o)).collect::<Vec<_>>()));
    rep.set("bitmap_page_size", json!(page));
    rep
}

// ------------------------------------------------------------------------------------------------
// FileVolatileSlice / FileVolatileBuf: plain views of the underlying bytes

fn adapters(rep: &mut Report, _args: &Args) {
    use fuse_backend_rs::file_buf::{FileVolatileBuf, FileVolatileSlice};
    use std::sync::atomic::Ordering;
    use vm_memory::{Bytes, VolatileSlice};
    if !rep.mine0((1 << 62) + 1) {
        return;
    }
    // Oracle: the adapter must behave exactly like vm-memory's own plain view (VolatileSlice<()>)
    // of an identical buffer: same result, same effect on the view, same effect on the caller's
    // buffer. (vm-memory's partial-transfer and bounds conventions are thereby the reference.)
    for len in 0..=9usize {
        for off in 0..=len + 1 {
            for n in 0..=len + 1 {
                let base: Vec<u8> = (0..len).map(|i| 0x10 + i as u8).collect();
                let ext: Vec<u8> = (0..n).map(|i| 0xA0 + i as u8).collect();
                let case = json!({"len": len, "addr": off, "count": n});
                macro_rules! diff {
                    ($name:expr, |$s:ident, $buf:ident| $call:expr) => {{
                        let mut b1 = base.clone();
                        let mut b2 = base.clone();
                        let mut e1 = ext.clone();
                        let mut e2 = ext.clone();
                        let r1 = {
                            let $s = unsafe { FileVolatileSlice::from_raw_ptr(b1.as_mut_ptr(), b1.len()) };
                            let $buf = &mut e1;
                            format!("{:?}", $call.map_err(|_| "error"))
                        };
                        let r2 = {
                            let $s = unsafe { VolatileSlice::new(b2.as_mut_ptr(), b2.len()) };
                            let $buf = &mut e2;
                            format!("{:?}", $call.map_err(|_| "error"))
                        };
                        rep.eval();
                        let ok = r1 == r2 && b1 == b2 && e1 == e2;
                        rep.outcome(&format!("adapter:{}:{}", $name, if ok { "ok" } else { "VIOLATION" }));
                        if !ok {
                            let msg = format!(
                                "{}({} bytes, addr {}) on a {}-byte view: adapter -> {} view {:?} buffer {:?}; plain view -> {} view {:?} buffer {:?}",
                                $name, n, off, len, r1, b1, e1, r2, b2, e2
                            );
                            rep.violation(&format!("C04/adapter/{}", $name), &msg, || case.clone());
                        }
                    }};
                }
                diff!("write", |s, buf| s.write(&buf[..], off));
                diff!("read", |s, buf| s.read(&mut buf[..], off));
                diff!("write_slice", |s, buf| s.write_slice(&buf[..], off));
                diff!("read_slice", |s, buf| s.read_slice(&mut buf[..], off));
                if n == 0 {
                    diff!("store", |s, _buf| s.store(0x5Au8, off, Ordering::Relaxed));
                    diff!("load", |s, _buf| s.load::<u8>(off, Ordering::Relaxed));
                    diff!("write_obj", |s, _buf| s.write_obj(0xBEEFu16, off));
                    diff!("read_obj", |s, _buf| s.read_obj::<u16>(off));
                }
                {
                    // volatile transfers from / to an in-memory stream
                    diff!("read_volatile_from", |s, buf| s.read_volatile_from(off, &mut &buf[..], n));
                    diff!("read_exact_volatile_from", |s, buf| s.read_exact_volatile_from(off, &mut &buf[..], n));
                    diff!("write_volatile_to", |s, buf| s.write_volatile_to(off, &mut &mut buf[..], n));
                    diff!("write_all_volatile_to", |s, buf| s.write_all_volatile_to(off, &mut &mut buf[..], n));
                }
                // offset(): a view of the tail
                if n == 0 {
                    let mut b = base.clone();
                    let s = unsafe { FileVolatileSlice::from_raw_ptr(b.as_mut_ptr(), b.len()) };
                    let r = s.offset(off);
                    rep.eval();
                    let ok = match &r {
                        Ok(t) => off <= len && t.len() == len - off && t.as_ptr() as usize == b.as_ptr() as usize + off,
                        Err(_) => off > len,
                    };
                    rep.outcome(if ok { "adapter:offset:ok" } else { "adapter:offset:VIOLATION" });
                    if !ok {
                        rep.violation("C04/adapter/offset", &format!("offset({}) on a {}-byte view: {:?}", off, len, r.map(|t| t.len()).map_err(|e| e.to_string())), || case.clone());
                    }
                }
                // FileVolatileBuf: size/cap bookkeeping and the two io views
                if off <= len && n == 0 {
                    let mut b = base.clone();
                    let mut fb = unsafe { FileVolatileBuf::new_with_data(&mut b, off) };
                    rep.eval();
                    let ok = fb.len() == off && fb.cap() == len && fb.io_slice().len() == off && fb.io_slice()[..] == base[..off] && fb.io_slice_mut().len() == len - off;
                    unsafe { fb.set_size(len + 1) };
                    let ok = ok && fb.len() == off;
                    unsafe { fb.set_size(len) };
                    let ok = ok && fb.len() == len;
                    rep.outcome(if ok { "adapter:buf:ok" } else { "adapter:buf:VIOLATION" });
                    if !ok {
                        rep.violation("C04/adapter/filevolatilebuf", &format!("FileVolatileBuf with size {} cap {}", off, len), || case.clone());
                    }
                }
            }
        }
    }
}

pub fn debug() {
    let mut rig = TRig::new(1);
    for flen in [0usize, 5] {
        for n in [N::Abs(0), N::Abs(2), N::Rest, N::RestPlus1] {
            let o = run_writer_seq(&mut rig, &Shape::Fuse(0), &[(0, WOp::FromAt(n, flen, 1))]);
            println!("Fuse(0) FromAt({:?},{},1): c04={:?} panic={:?}", n, flen, o.c04, o.panic);
        }
    }
}
