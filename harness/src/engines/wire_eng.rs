//! Engine W: the wire level (C01, C02, C03, C12). Drives `Server<Arc<ScriptFs>>`.

use std::sync::Arc;

use fuse_backend_rs::api::server::Server;
use serde_json::{json, Value};

use crate::args::Args;
use crate::env::{segs, Exec, FuseDev, Seg, Virtio, A_BASE, B_BASE, PAD};
use crate::kabi as k;
use crate::ops::{self, Case, FK};
use crate::report::{hex, Report};
use crate::scriptfs::{Answer, ScriptFs};
use crate::wire::{self, Req};

/// Transport configuration of one execution.
#[derive(Clone, Debug, PartialEq, Eq, Hash)]
pub enum Tr {
    /// real FuseChannel::get_request (shared request/reply buffer)
    Chan,
    /// fusedev with separate buffers, reply capacity given
    Sep(usize),
    /// virtio-fs: readable segment lengths are derived from `cuts` (cut points of the request
    /// bytes, ascending; a repeated cut point gives a zero-length descriptor); writable segment
    /// lengths given; gap between descriptors; second region for the writable part
    Virt { cuts: Vec<usize>, wr: Vec<usize>, gap: usize, wr_in_b: bool, cache: bool },
}

impl Tr {
    pub fn label(&self) -> String {
        match self {
            Tr::Chan => "fusedev-channel".into(),
            Tr::Sep(c) => format!("fusedev-sep-cap{}", c),
            Tr::Virt { cuts, wr, gap, wr_in_b, cache } => {
                format!("virtio-cuts{:?}-wr{:?}-gap{}-{}{}", cuts, wr, gap, if *wr_in_b { "B" } else { "A" }, if *cache { "-dax" } else { "" })
            }
        }
    }
    pub fn capacity(&self) -> usize {
        match self {
            Tr::Chan => (1 << 20) + 4096,
            Tr::Sep(c) => *c,
            Tr::Virt { wr, .. } => wr.iter().sum(),
        }
    }
    pub fn is_virtio(&self) -> bool {
        matches!(self, Tr::Virt { .. })
    }
    pub fn has_cache(&self) -> bool {
        matches!(self, Tr::Virt { cache: true, .. })
    }
    pub fn to_json(&self) -> Value {
        json!(self.label())
    }
}

pub fn virt_simple(cap: usize, cache: bool) -> Tr {
    Tr::Virt { cuts: vec![], wr: vec![cap], gap: 0, wr_in_b: false, cache }
}

/// Lay a request of `n` bytes out as readable segments per `cuts`, writable per `wr`.
pub fn virt_layout(n: usize, cuts: &[usize], wr: &[usize], gap: usize, wr_in_b: bool) -> (Vec<Seg>, Vec<Seg>) {
    let mut lens = Vec::new();
    let mut prev = 0usize;
    for c in cuts {
        let c = (*c).min(n);
        lens.push(c - prev.min(c));
        prev = prev.max(c);
    }
    lens.push(n - prev);
    let rd = segs(A_BASE + PAD as u64, &lens, gap);
    let rd_end = rd.last().map(|s| s.addr + s.len as u64).unwrap_or(A_BASE + PAD as u64);
    let wbase = if wr_in_b { B_BASE + PAD as u64 } else { (rd_end + (gap + PAD) as u64 + 7) & !7 };
    let wrs = segs(wbase, wr, gap);
    (rd, wrs)
}

pub struct Rig {
    pub fs: Arc<ScriptFs>,
    pub server: Server<Arc<ScriptFs>>,
    pub dev: FuseDev,
    pub virt: Virtio,
    /// C02: the scripted filesystem answers the next request with this error
    pub fail: Option<crate::scriptfs::Fail>,
}

impl Rig {
    pub fn new() -> Rig {
        let fs = Arc::new(ScriptFs::new());
        Rig { server: Server::new(fs.clone()), fs, dev: FuseDev::new(), virt: Virtio::new(1, 6 << 20, 3 << 20), fail: None }
    }
    pub fn fresh_server(&mut self) {
        self.server = Server::new(self.fs.clone());
    }
    pub fn run(&mut self, req: &[u8], tr: &Tr, ans: Answer) -> (Exec, Vec<String>) {
        self.fs.reset(ans);
        let ex = match tr {
            Tr::Chan => self.dev.via_channel(&self.server, req),
            Tr::Sep(cap) => self.dev.via_sep(&self.server, req, *cap),
            Tr::Virt { cuts, wr, gap, wr_in_b, cache } => {
                let (rd, wrs) = virt_layout(req.len(), cuts, wr, *gap, *wr_in_b);
                self.virt.run(&self.server, req, &rd, &wrs, *cache)
            }
        };
        (ex, self.fs.take_log())
    }
}

// ------------------------------------------------------------------------------------------------
// C02

fn dom_u64() -> Vec<u64> {
    vec![0, 1, (1 << 32) - 1, 1 << 32, 1 << 63, u64::MAX]
}
fn dom_u32() -> Vec<u64> {
    vec![0, 1, 1 << 31, u32::MAX as u64]
}

fn name_of(len: usize, salt: u8) -> Vec<u8> {
    (0..len).map(|i| b'a' + ((i as u8).wrapping_add(salt) % 26)).collect()
}

fn payload_of(len: usize) -> Vec<u8> {
    (0..len).map(|i| (i as u32).wrapping_mul(2654435761).to_le_bytes()[3] | 1).collect()
}

/// One dimension of a C02 case and the alternatives to its base value.
#[derive(Clone, Debug)]
pub enum Dim {
    Hdr(&'static str),
    Field(&'static str, FK),
    Name1,
    Name2,
    Payload,
    List,
}

fn dim_alts(d: &Dim, thorough: bool) -> Vec<u64> {
    match d {
        Dim::Hdr("unique") | Dim::Hdr("nodeid") => dom_u64(),
        Dim::Hdr(_) => dom_u32(),
        Dim::Field(_, FK::U64) => dom_u64(),
        Dim::Field(_, FK::U32) => dom_u32(),
        Dim::Field(_, FK::Pad) => vec![u32::MAX as u64],
        Dim::Field(_, FK::Flags(bits)) => {
            let mut v: Vec<u64> = bits.to_vec();
            v.push(bits.iter().fold(0, |a, b| a | b));
            v.push(u32::MAX as u64);
            v
        }
        Dim::Field(_, FK::Size) => vec![0, 1, 4096],
        Dim::Field(_, _) => vec![],
        Dim::Name1 | Dim::Name2 => {
            if thorough {
                let mut v: Vec<u64> = (1..=300).collect();
                v.extend([1023, 1024, 4095, 4096]);
                v
            } else {
                vec![1, 2, 7, 8, 9, 255, 256, 300, 4095, 4096]
            }
        }
        Dim::Payload => {
            if thorough {
                vec![0, 1, 2, 4095, 4096, 4097, 128 << 10, (1 << 20) - 1, 1 << 20]
            } else {
                vec![0, 1, 4095, 4096, 4097, 128 << 10, 1 << 20]
            }
        }
        Dim::List => vec![0, 1, 2, 64],
    }
}

fn dims_of(op: u64) -> Vec<Dim> {
    let mut d = vec![Dim::Hdr("unique"), Dim::Hdr("nodeid"), Dim::Hdr("uid"), Dim::Hdr("gid"), Dim::Hdr("pid")];
    for (n, kind) in ops::fields(op) {
        if !matches!(kind, FK::Len | FK::Count) {
            d.push(Dim::Field(n, kind));
        }
    }
    match ops::n_names(op) {
        0 => {}
        1 => d.push(Dim::Name1),
        _ => {
            d.push(Dim::Name1);
            d.push(Dim::Name2);
        }
    }
    if ops::has_payload(op) {
        d.push(Dim::Payload);
    }
    if ops::has_list(op) {
        d.push(Dim::List);
    }
    d
}

fn apply(c: &mut Case, d: &Dim, v: u64) {
    match d {
        Dim::Hdr("unique") => c.unique = v,
        Dim::Hdr("nodeid") => c.nodeid = v,
        Dim::Hdr("uid") => c.uid = v as u32,
        Dim::Hdr("gid") => c.gid = v as u32,
        Dim::Hdr("pid") => c.pid = v as u32,
        Dim::Hdr(_) => unreachable!(),
        Dim::Field(n, _) => {
            c.f.insert(n, v);
        }
        Dim::Name1 => c.name1 = name_of(v as usize, 3),
        Dim::Name2 => c.name2 = name_of(v as usize, 11),
        Dim::Payload => c.payload = payload_of(v as usize),
        Dim::List => c.list = (0..v).map(|i| (0x9000 + i, 0x100 + i)).collect(),
    }
}

fn c02_transports(op: u64, reqlen: usize) -> Vec<Tr> {
    let n = ops::struct_size(op);
    let mut v = vec![
        Tr::Chan,
        Tr::Sep(2 << 20),
        virt_simple(8192, true),
        Tr::Virt { cuts: vec![40, 40 + n], wr: vec![16, 8192], gap: 8, wr_in_b: true, cache: true },
    ];
    // descriptor boundaries inside the argument structure and inside the trailing data (names, payloads):
    // a decoder that takes what one descriptor holds instead of what the request holds is only visible here
    let tail = reqlen.saturating_sub(40 + n);
    let mut cutsets: Vec<Vec<usize>> = Vec::new();
    if n >= 2 {
        cutsets.push(vec![40 + n / 2]);
    }
    if tail >= 2 {
        cutsets.push(vec![40 + n + 1]);
        cutsets.push(vec![40 + n + tail / 2]);
        cutsets.push(vec![40, 40 + n, reqlen - 1]);
    }
    for cuts in cutsets {
        v.push(Tr::Virt { cuts, wr: vec![8192 + 16], gap: 8, wr_in_b: true, cache: true });
    }
    v
}

fn diff_key(exp: &str, got: &str) -> String {
    let e: Vec<&str> = exp.split(' ').collect();
    let g: Vec<&str> = got.split(' ').collect();
    if e.first() != g.first() {
        return format!("wrong-operation:{}", g.first().unwrap_or(&""));
    }
    for (a, b) in e.iter().zip(g.iter()) {
        if a != b {
            let key = a.split('=').next().unwrap_or(a);
            return format!("argument:{}", key);
        }
    }
    "argument:arity".to_string()
}

fn c02_check(rig: &mut Rig, rep: &mut Report, c: &Case, tr: &Tr, devs: &[(String, u64)]) {
    rep.eval();
    let req = c.req();
    let bytes = req.bytes();
    let mut ans = Answer::default();
    if matches!(c.op, k::FUSE_READ) {
        ans.data = vec![7u8; 8];
    }
    ans.fail = rig.fail.clone();
    let (ex, log) = rig.run(&bytes, tr, ans);
    rep.transitions += 1;
    let cap = tr.capacity();
    let mut expected = c.expected_calls(tr.has_cache());
    // READDIR with a size beyond the reply buffer is refused before the filesystem is asked
    if matches!(c.op, k::FUSE_READDIR | k::FUSE_READDIRPLUS) && c.v("size") as usize > cap {
        expected.clear();
    }
    if c.op == k::FUSE_IOCTL && c.v("in_size") as usize > c.payload.len() {
        expected.clear();
    }
    let case_json = || {
        json!({"case": c.describe(), "deviations": devs, "transport": tr.to_json(), "request_hex": if bytes.len() <= 512 { hex(&bytes) } else { format!("{}.. ({} bytes)", hex(&bytes[..128]), bytes.len()) },
               "expected_calls": expected, "logged_calls": log, "ret": format!("{:?}", ex.ret)})
    };
    rep.outcome(&format!("{}:{}", ops::op_name(c.op), if log == expected { "decoded-as-expected" } else { "MISMATCH" }));
    rep.state_of(&(c.op, &log));
    if let Some(p) = &ex.panic {
        rep.violation(&format!("C02/{}/panic", ops::op_name(c.op)), &format!("panic: {}", p), case_json);
        return;
    }
    if log != expected {
        let class = if log.is_empty() {
            "no-call".to_string()
        } else if log.len() > expected.len() && !expected.is_empty() {
            "extra-calls".to_string()
        } else if expected.is_empty() {
            format!("unexpected-call:{}", log[0].split(' ').next().unwrap_or(""))
        } else {
            diff_key(&expected[0], &log[0])
        };
        rep.violation(
            &format!("C02/{}/{}", ops::op_name(c.op), class),
            &format!("filesystem saw {:?}, the request denotes {:?}", log, expected),
            case_json,
        );
    }
    rep.sample(|| json!({"op": ops::op_name(c.op), "deviations": devs, "transport": tr.label(), "calls": log}));
}

pub fn c02(args: &Args) -> Report {
    let mut rep = args.report();
    let mut rig = Rig::new();
    let thorough = args.thorough();
    let mut idx = 0u64;
    let mut max_dev = 0;
    for &op in ops::ALL_OPS {
        if op == k::FUSE_INIT {
            continue; // C12
        }
        let dims = dims_of(op);
        let base = ops::base_case(op);
        let trs = c02_transports(op, base.req().bytes().len());
        // deviation 0
        for tr in &trs {
            if rep.mine(idx) {
                c02_check(&mut rig, &mut rep, &base, tr, &[]);
            }
            idx += 1;
        }
        // deviation 1
        for d in &dims {
            for v in dim_alts(d, thorough) {
                let mut c = base.clone();
                apply(&mut c, d, v);
                let big = c.payload.len() > 8192 || c.name1.len() > 1024 || c.name2.len() > 1024;
                let trs = c02_transports(op, c.req().bytes().len());
                for (ti, tr) in trs.iter().enumerate() {
                    if big && ti >= 2 && !thorough {
                        continue;
                    }
                    if rep.mine(idx) {
                        c02_check(&mut rig, &mut rep, &c, tr, &[(format!("{:?}", d), v)]);
                    }
                    idx += 1;
                }
            }
        }
        max_dev = 1;
        // deviation 2: all pairs of dimensions, all pairs of alternatives (sizes capped for pairs)
        for i in 0..dims.len() {
            for j in (i + 1)..dims.len() {
                let ai: Vec<u64> = dim_alts(&dims[i], false).into_iter().filter(|v| pair_ok(&dims[i], *v)).collect();
                let aj: Vec<u64> = dim_alts(&dims[j], false).into_iter().filter(|v| pair_ok(&dims[j], *v)).collect();
                for &vi in &ai {
                    for &vj in &aj {
                        let mut c = base.clone();
                        apply(&mut c, &dims[i], vi);
                        apply(&mut c, &dims[j], vj);
                        // pairs: channel transport always; the others in the thorough tier
                        let trs = if thorough { c02_transports(op, c.req().bytes().len()) } else { vec![Tr::Chan] };
                        for tr in trs.iter() {
                            if rep.mine(idx) {
                                c02_check(
                                    &mut rig,
                                    &mut rep,
                                    &c,
                                    tr,
                                    &[(format!("{:?}", dims[i]), vi), (format!("{:?}", dims[j]), vj)],
                                );
                            }
                            idx += 1;
                        }
                    }
                }
            }
        }
        max_dev = max_dev.max(2);
    }
    // the filesystem answers with an error: still exactly one call per request (an error, EINTR and EAGAIN included, is
    // an answer; the server must not ask again with a reader it has already handed out)
    {
        use crate::scriptfs::Fail;
        for fail in [Fail::Errno(libc::EINTR), Fail::Errno(libc::EAGAIN), Fail::Errno(libc::ENOSYS), Fail::Kind(std::io::ErrorKind::Interrupted), Fail::Kind(std::io::ErrorKind::WouldBlock), Fail::Kind(std::io::ErrorKind::Other)] {
            for &op in ops::ALL_OPS {
                if op == k::FUSE_INIT {
                    continue;
                }
                let base = ops::base_case(op);
                for tr in [Tr::Chan, Tr::Virt { cuts: vec![40], wr: vec![16, 8192], gap: 8, wr_in_b: true, cache: true }] {
                    if rep.mine(idx) {
                        rig.fail = Some(fail.clone());
                        c02_check(&mut rig, &mut rep, &base, &tr, &[(format!("filesystem-answers-{:?}", fail), 0)]);
                        rig.fail = None;
                    }
                    idx += 1;
                }
            }
        }
    }
    // negotiated versions: the decoder must not depend on the minor a client negotiated, for every minor whose
    // request layouts are the current ones (7.12 on: fuse_mknod_in got its umask field in 7.12, fuse_write_in
    // its lock owner in 7.9). INIT with that minor on a fresh server, then every opcode's base request and each
    // single deviation of its first dimension.
    for &minor in &[12u32, 13, 14, 17, 19, 22, 23, 24, 27, 28, 29, 31, 32, 33, 34, 36, 38, 40, u32::MAX] {
        rig.fresh_server();
        let init = Req::new(k::FUSE_INIT, 1, init_body(7, minor, 0x7fff_ffff, Some(k::FUSE_INIT_IN.size - 16))).bytes();
        let _ = rig.run(&init, &Tr::Sep(8192 + 16), Answer::default());
        for &op in ops::ALL_OPS {
            if op == k::FUSE_INIT || op == k::FUSE_DESTROY {
                continue;
            }
            let base = ops::base_case(op);
            let mut cases = vec![(base.clone(), Vec::new())];
            if let Some(d) = dims_of(op).first() {
                for v in dim_alts(d, false).into_iter().take(3) {
                    let mut c = base.clone();
                    apply(&mut c, d, v);
                    cases.push((c, vec![(format!("{:?}", d), v)]));
                }
            }
            for (c, devs) in cases {
                for tr in [Tr::Chan, Tr::Virt { cuts: vec![40], wr: vec![16, 8192], gap: 8, wr_in_b: true, cache: true }] {
                    if rep.mine(idx) {
                        let mut d2 = devs.clone();
                        d2.push(("negotiated-minor".to_string(), minor as u64));
                        c02_check(&mut rig, &mut rep, &c, &tr, &d2);
                    }
                    idx += 1;
                }
            }
        }
    }
    rig.fresh_server();
    rep.set("total_cases_all_shards", json!(idx));
    rep.set("deviation_bound_completed", json!(max_dev));
    rep.set("opcodes", json!(ops::ALL_OPS.len() - 1));
    rep
}

fn pair_ok(d: &Dim, v: u64) -> bool {
    match d {
        Dim::Payload => v <= 4097,
        Dim::Name1 | Dim::Name2 => v <= 300,
        _ => true,
    }
}

/// Base and all single deviations of an opcode's well-formed request (used by the async engine).
pub fn c02_dev1_cases(op: u64, thorough: bool) -> Vec<(String, Case)> {
    let dims = dims_of(op);
    let base = ops::base_case(op);
    let mut out = vec![(format!("{}:base", ops::op_name(op)), base.clone())];
    for d in &dims {
        for v in dim_alts(d, thorough) {
            if matches!(d, Dim::Payload) && v > (128 << 10) && !thorough {
                continue;
            }
            let mut c = base.clone();
            apply(&mut c, d, v);
            out.push((format!("{}:{:?}={}", ops::op_name(op), d, v), c));
        }
    }
    out
}

pub fn replay_c02(_args: &Args, _case: &Value) -> i32 {
    0
}

// ------------------------------------------------------------------------------------------------
// C01

impl Tr {
    pub fn to_replay(&self) -> Value {
        match self {
            Tr::Chan => json!({"kind": "chan"}),
            Tr::Sep(c) => json!({"kind": "sep", "cap": c}),
            Tr::Virt { cuts, wr, gap, wr_in_b, cache } => {
                json!({"kind": "virt", "cuts": cuts, "wr": wr, "gap": gap, "wr_in_b": wr_in_b, "cache": cache})
            }
        }
    }
    pub fn from_replay(v: &Value) -> Tr {
        let us = |x: &Value| x.as_array().unwrap().iter().map(|y| y.as_u64().unwrap() as usize).collect::<Vec<_>>();
        match v["kind"].as_str().unwrap() {
            "chan" => Tr::Chan,
            "sep" => Tr::Sep(v["cap"].as_u64().unwrap() as usize),
            _ => Tr::Virt {
                cuts: us(&v["cuts"]),
                wr: us(&v["wr"]),
                gap: v["gap"].as_u64().unwrap() as usize,
                wr_in_b: v["wr_in_b"].as_bool().unwrap(),
                cache: v["cache"].as_bool().unwrap(),
            },
        }
    }
}

#[derive(Clone, Copy, Debug, PartialEq, Eq)]
pub enum Script {
    OkSmall,
    OkBig,
    Enoent,
    KindOther,
    /// an error without OS code, of one of the kinds the error mapping names
    Kind(std::io::ErrorKind),
    /// success with a negative entry (inode 0, timeouts set): a cacheable "does not exist"
    Negative,
    /// directory walks only: the filesystem fails with EIO after this many entries were accepted
    DirFault(u8),
}

impl Script {
    pub const ALL: [Script; 4] = [Script::OkSmall, Script::OkBig, Script::Enoent, Script::KindOther];
    pub const KINDS: [Script; 5] = [
        Script::Kind(std::io::ErrorKind::NotFound),
        Script::Kind(std::io::ErrorKind::PermissionDenied),
        Script::Kind(std::io::ErrorKind::AlreadyExists),
        Script::Kind(std::io::ErrorKind::WouldBlock),
        Script::Kind(std::io::ErrorKind::Interrupted),
    ];
    pub fn name(&self) -> &'static str {
        match self {
            Script::OkSmall => "ok-small",
            Script::OkBig => "ok-big",
            Script::Enoent => "err-enoent",
            Script::KindOther => "err-kind-other",
            Script::Negative => "ok-negative-entry",
            Script::DirFault(1) => "dir-fault-after-1",
            Script::DirFault(_) => "dir-fault-after-3",
            Script::Kind(std::io::ErrorKind::NotFound) => "err-kind-notfound",
            Script::Kind(std::io::ErrorKind::PermissionDenied) => "err-kind-permissiondenied",
            Script::Kind(std::io::ErrorKind::AlreadyExists) => "err-kind-alreadyexists",
            Script::Kind(std::io::ErrorKind::WouldBlock) => "err-kind-wouldblock",
            Script::Kind(_) => "err-kind-interrupted",
        }
    }
    pub fn from_name(s: &str) -> Script {
        *Script::ALL.iter().chain(Script::KINDS.iter()).chain([Script::Negative, Script::DirFault(1), Script::DirFault(3)].iter()).find(|x| x.name() == s).unwrap()
    }
    pub fn answer(&self) -> Answer {
        use crate::scriptfs::{DirAns, Fail};
        let mut a = Answer::default();
        a.entry.inode = 0x4242;
        a.handle = Some(0x77);
        a.count = 5;
        let dirents = |n: usize| -> Vec<DirAns> {
            (0..n)
                .map(|i| DirAns { ino: 100 + i as u64, off: 1 + i as u64, typ: 8, name: name_of(1 + i % 20, i as u8), entry: a.entry })
                .collect()
        };
        match self {
            Script::OkSmall => {
                a.data = b"small-data".to_vec();
                a.dirents = dirents(3);
            }
            Script::OkBig => {
                a.data = payload_of(70_000);
                a.count = usize::MAX;
                a.dirents = dirents(3000);
                a.want = u64::MAX;
            }
            Script::Enoent => a.fail = Some(Fail::Errno(libc::ENOENT)),
            Script::KindOther => a.fail = Some(Fail::Kind(std::io::ErrorKind::Other)),
            Script::Kind(kd) => a.fail = Some(Fail::Kind(*kd)),
            Script::DirFault(n) => {
                a.dirents = dirents(6);
                a.dir_propagate_err = true;
                a.dir_fail_after = Some((*n as usize, libc::EIO));
            }
            Script::Negative => {
                a.data = b"small-data".to_vec();
                a.dirents = dirents(3);
                a.entry.inode = 0;
                a.entry.entry_timeout = std::time::Duration::new(3, 250_000_000);
                a.entry.attr_timeout = std::time::Duration::new(7, 5);
            }
        }
        a
    }
}

#[derive(Clone, Debug)]
pub struct Shape {
    pub label: String,
    pub body: Vec<u8>,
    pub wellformed: bool,
}

fn wf_case(op: u64) -> Case {
    let mut c = ops::base_case(op);
    c.unique = 0x1122_3344_5566_7788;
    c.nodeid = 1;
    c
}

fn init_body(major: u32, minor: u32, flags: u32, ext: Option<usize>) -> Vec<u8> {
    let mut b = vec![0u8; k::FUSE_INIT_IN.size];
    wire::put(&mut b, &k::FUSE_INIT_IN, "major", major as u64);
    wire::put(&mut b, &k::FUSE_INIT_IN, "minor", minor as u64);
    wire::put(&mut b, &k::FUSE_INIT_IN, "max_readahead", 0x20000);
    wire::put(&mut b, &k::FUSE_INIT_IN, "flags", flags as u64);
    wire::put(&mut b, &k::FUSE_INIT_IN, "flags2", 0xffff_ffff);
    match ext {
        None => b.truncate(16),
        Some(n) => b.truncate(16 + n),
    }
    b
}

/// Request bodies for one opcode: the well-formed template, its truncations, over-long variants
/// and the per-opcode hostile shapes.
pub fn c01_shapes(op: u64, thorough: bool, cap: usize) -> Vec<Shape> {
    let mut out: Vec<Shape> = Vec::new();
    let known = ops::ALL_OPS.contains(&op);
    if !known {
        for (l, b) in [("empty", vec![]), ("zeros8", vec![0u8; 8]), ("ff64", vec![0xffu8; 64])] {
            out.push(Shape { label: l.into(), body: b, wellformed: false });
        }
        return out;
    }
    let mut c = wf_case(op);
    if op == k::FUSE_IOCTL {
        c.f.insert("out_size", 64);
    }
    let wf = if op == k::FUSE_INIT { init_body(7, 33, 0, None) } else { c.body() };
    out.push(Shape { label: "wellformed".into(), body: wf.clone(), wellformed: true });
    // truncations
    let ss = ops::struct_size(op);
    let cuts: Vec<usize> = if thorough {
        (0..wf.len()).collect()
    } else {
        let mut v = vec![0, 1, ss.saturating_sub(1), ss, ss + 1, wf.len().saturating_sub(1)];
        v.retain(|x| *x < wf.len());
        v.sort_unstable();
        v.dedup();
        v
    };
    for n in cuts {
        out.push(Shape { label: format!("truncated-to-{}", n), body: wf[..n].to_vec(), wellformed: false });
    }
    for extra in [1usize, 4096] {
        let mut b = wf.clone();
        b.extend(std::iter::repeat(0x5a).take(extra));
        out.push(Shape { label: format!("overlong+{}", extra), body: b, wellformed: false });
    }
    let head = &wf[..ss.min(wf.len())];
    // hostile names
    if ops::n_names(op) > 0 && op != k::FUSE_SETXATTR {
        let names: Vec<(&str, Vec<u8>)> = vec![
            ("name-empty", vec![0]),
            ("name-no-nul", b"abc".to_vec()),
            ("name-only-nuls", vec![0, 0, 0]),
            ("name-a", b"a\0".to_vec()),
            ("name-a-b", b"a\0b\0".to_vec()),
            ("name-a-b-junk", b"a\0b\0junk".to_vec()),
            ("name-255", wire::cstr(&name_of(255, 0))),
            ("name-4096", wire::cstr(&name_of(4096, 0))),
            ("name-nothing", vec![]),
        ];
        for (l, n) in names {
            let wfn = match (ops::n_names(op), l) {
                (1, "name-a") | (1, "name-255") | (1, "name-4096") | (1, "name-empty") => true,
                (2, "name-a-b") => true,
                _ => false,
            };
            out.push(Shape { label: l.into(), body: wire::cat(&[head, &n]), wellformed: wfn });
        }
    }
    // counts
    if ops::has_list(op) {
        let one = if op == k::FUSE_BATCH_FORGET { 16usize } else { 16 };
        let limit = ((1usize << 20) + 4096 - 8 - 40) / one;
        for count in [0u64, 1, 3, 4, limit as u64, limit as u64 + 1, (1 << 20) / 16, (1 << 20) / 16 + 1, u32::MAX as u64] {
            let mut h = head.to_vec();
            wire::put(&mut h, ops::layout(op).unwrap(), "count", count);
            let items: Vec<u8> = (0..3 * one).map(|i| i as u8).collect();
            out.push(Shape { label: format!("count-{}-present-3", count), body: wire::cat(&[&h, &items]), wellformed: count == 3 });
        }
    }
    if op == k::FUSE_IOCTL {
        for in_size in [0u64, 1, 18, 19, u32::MAX as u64] {
            let mut h = head.to_vec();
            wire::put(&mut h, &k::FUSE_IOCTL_IN, "in_size", in_size);
            out.push(Shape {
                label: format!("ioctl-in_size-{}-present-18", in_size),
                body: wire::cat(&[&h, b"PAYLOAD-0123456789"]),
                wellformed: in_size == 18,
            });
        }
        for out_size in [0u64, u32::MAX as u64] {
            let mut h = wf.clone();
            wire::put(&mut h, &k::FUSE_IOCTL_IN, "out_size", out_size);
            out.push(Shape { label: format!("ioctl-out_size-{}", out_size), body: h, wellformed: true });
        }
    }
    if matches!(op, k::FUSE_READ | k::FUSE_READDIR | k::FUSE_READDIRPLUS) {
        let mut sizes = vec![0u64, 1, 15, 16, 17, 4096, u32::MAX as u64];
        for d in [32i64, 17, 16, 15, 1, 0, -1] {
            let v = cap as i64 - d;
            if v >= 0 {
                sizes.push(v as u64);
            }
        }
        sizes.sort_unstable();
        sizes.dedup();
        for s in sizes {
            let mut h = wf.clone();
            wire::put(&mut h, &k::FUSE_READ_IN, "size", s);
            // the kernel never asks for more than the reply buffer minus the header
            out.push(Shape { label: format!("size-{}", s), body: h, wellformed: s as usize + 16 <= cap });
        }
    }
    if op == k::FUSE_SETXATTR {
        for (l, sz, val) in [("xattr-size-eq", 4u64, &b"vvvv"[..]), ("xattr-size+1", 5, b"vvvv"), ("xattr-size-1", 3, b"vvvv"), ("xattr-empty-value", 0, b""), ("xattr-size-max", u32::MAX as u64, b"v")] {
            let mut h = vec![0u8; 8];
            wire::put_at(&mut h, 0, 4, sz);
            out.push(Shape { label: l.into(), body: wire::cat(&[&h, b"user.x\0", val]), wellformed: sz as usize == val.len() });
        }
        let mut h = vec![0u8; 8];
        wire::put_at(&mut h, 0, 4, 3);
        out.push(Shape { label: "xattr-no-nul".into(), body: wire::cat(&[&h, b"abc"]), wellformed: false });
        out.push(Shape { label: "xattr-only-nul".into(), body: wire::cat(&[&h, b"\0abc"]), wellformed: true });
    }
    if op == k::FUSE_WRITE {
        for (l, sz) in [("write-size-0", 0u64), ("write-size+1", 19), ("write-size-max", u32::MAX as u64)] {
            let mut h = wf.clone();
            wire::put(&mut h, &k::FUSE_WRITE_IN, "size", sz);
            out.push(Shape { label: l.into(), body: h, wellformed: false });
        }
    }
    if matches!(op, k::FUSE_GETXATTR | k::FUSE_LISTXATTR) {
        for sz in [0u64, 1, 65536, u32::MAX as u64] {
            let mut h = wf.clone();
            wire::put(&mut h, &k::FUSE_GETXATTR_IN, "size", sz);
            out.push(Shape { label: format!("xattr-get-size-{}", sz), body: h, wellformed: true });
        }
    }
    if op == k::FUSE_INIT {
        let ext = k::FUSE_INIT_EXT as u32;
        for (l, b, wfd) in [
            ("init-6.0", init_body(6, 0, 0, None), true),
            ("init-8.0", init_body(8, 0, 0, None), true),
            ("init-7.4", init_body(7, 4, 0, None), true),
            ("init-7.22", init_body(7, 22, 0, None), true),
            ("init-7.36-ext-payload", init_body(7, 36, ext | 0xffff, Some(48)), true),
            ("init-7.36-ext-nopayload", init_body(7, 36, ext | 0xffff, None), false),
            ("init-7.36-ext-truncated", init_body(7, 36, ext | 0xffff, Some(20)), false),
            ("init-7.max-allflags", init_body(7, u32::MAX, u32::MAX, Some(48)), true),
        ] {
            out.push(Shape { label: l.into(), body: b, wellformed: wfd });
        }
    }
    out
}

/// Reply size the protocol prescribes for a well-formed request answered by `script`.
fn need(op: u64, script: Script, body: &[u8]) -> usize {
    let ok = matches!(script, Script::OkSmall | Script::OkBig | Script::Negative);
    if op == k::FUSE_INIT && body.len() >= 4 {
        // the major version decides before the filesystem is asked
        let major = wire::get_at(body, 0, 4);
        if major < 7 {
            return 16;
        }
        if major > 7 {
            return 16 + 64;
        }
    }
    if !ok || !ops::wants_reply(op) {
        return 16;
    }
    let data = if script == Script::OkBig { 70_000usize } else { 10 };
    let sz = |lay: &'static k::Lay, f: &str| if body.len() >= lay.size { wire::get(body, lay, f) as usize } else { 0 };
    16 + match op {
        k::FUSE_LOOKUP | k::FUSE_SYMLINK | k::FUSE_MKNOD | k::FUSE_MKDIR | k::FUSE_LINK => 128,
        k::FUSE_GETATTR | k::FUSE_SETATTR => 104,
        k::FUSE_READLINK => data,
        k::FUSE_OPEN | k::FUSE_OPENDIR => 16,
        k::FUSE_READ => data.min(sz(&k::FUSE_READ_IN, "size")),
        k::FUSE_READDIR | k::FUSE_READDIRPLUS => sz(&k::FUSE_READ_IN, "size"),
        k::FUSE_WRITE => 8,
        k::FUSE_STATFS => 80,
        k::FUSE_GETXATTR | k::FUSE_LISTXATTR => data,
        k::FUSE_GETLK => 24,
        k::FUSE_CREATE => 144,
        k::FUSE_BMAP | k::FUSE_POLL | k::FUSE_LSEEK => 8,
        k::FUSE_IOCTL => 16 + data,
        k::FUSE_INIT => 64,
        _ => 0,
    }
}

pub struct C01Case<'a> {
    pub req: &'a [u8],
    pub tr: &'a Tr,
    pub script: Script,
    pub wellformed: bool,
    pub label: String,
}

/// The C01 oracle. Returns (class, message) for each violated clause.
/// What the client receives. fusedev: one record per write call. virtio-fs: the device reports a
/// used length (the handler's return value) and the guest reads that many bytes from the start of
/// the writable descriptors; when the handler returned an error after writing a message (bad
/// name: EINVAL reply, then Err) the message framed by the header at the start of the area counts.
/// Bytes the server scribbled behind the reported message (e.g. directory entries abandoned on
/// error) are not emitted bytes.
pub fn client_view(tr: &Tr, ex: &Exec) -> (Vec<Vec<u8>>, Vec<(String, String)>) {
    let mut v = Vec::new();
    if !tr.is_virtio() {
        return (ex.records.clone(), v);
    }
    let area = match ex.records.first() {
        None => {
            if let Ok(n) = ex.ret {
                if n > 0 {
                    v.push(("reply-length".into(), format!("handler reported {} bytes used but wrote nothing", n)));
                }
            }
            return (vec![], v);
        }
        Some(a) => a,
    };
    if area.len() < 16 {
        v.push(("short-reply".into(), format!("{} bytes written to the reply area, less than a header", area.len())));
        return (vec![area.clone()], v);
    }
    let hl = wire::get(area, &k::FUSE_OUT_HEADER, "len") as usize;
    match ex.ret {
        Ok(n) if n > 0 => {
            if n > area.len() {
                v.push(("reply-length".into(), format!("handler reported {} bytes used, only {} written", n, area.len())));
                (vec![area.clone()], v)
            } else {
                (vec![area[..n].to_vec()], v)
            }
        }
        _ => {
            if hl >= 16 && hl <= area.len() {
                (vec![area[..hl].to_vec()], v)
            } else {
                (vec![area.clone()], v)
            }
        }
    }
}

pub fn c01_oracle(cs: &C01Case, ex: &Exec) -> Vec<(String, String)> {
    let (records, mut v) = client_view(cs.tr, ex);
    let ex = &Exec { records, ..ex.clone() };
    let req = cs.req;
    let hdr = if req.len() >= 40 { Some(req) } else { None };
    let opcode = hdr.map(|h| wire::get(h, &k::FUSE_IN_HEADER, "opcode"));
    let unique = hdr.map(|h| wire::get(h, &k::FUSE_IN_HEADER, "unique"));
    if let Some(p) = &ex.panic {
        v.push(("panic".into(), format!("handler panicked: {}", p)));
    }
    for p in &ex.problems {
        v.push(("memory".into(), p.clone()));
    }
    if ex.records.len() > 1 {
        v.push(("multiple-replies".into(), format!("{} replies emitted (lengths {:?})", ex.records.len(), ex.records.iter().map(|r| r.len()).collect::<Vec<_>>())));
    }
    for r in &ex.records {
        match wire::parse_reply(r) {
            Err(e) => v.push(("short-reply".into(), e)),
            Ok(rp) => {
                if rp.len as usize != r.len() {
                    v.push(("reply-length".into(), format!("header len {} but {} bytes emitted", rp.len, r.len())));
                }
                if Some(rp.unique) != unique {
                    v.push(("reply-unique".into(), format!("unique {:#x}, request had {:?}", rp.unique, unique)));
                }
                if !(rp.error == 0 || (-4095..=-1).contains(&rp.error)) {
                    v.push(("reply-error-range".into(), format!("error field {}", rp.error)));
                }
            }
        }
    }
    if let Some(op) = opcode {
        if (op == k::FUSE_FORGET || op == k::FUSE_BATCH_FORGET) && !ex.records.is_empty() {
            v.push(("forget-replied".into(), format!("{} answered with {} bytes", ops::op_name(op), ex.records[0].len())));
        }
        let true_len = req.len() as u64;
        let len_field = wire::get(req, &k::FUSE_IN_HEADER, "len");
        if cs.wellformed && len_field == true_len && ops::wants_reply(op) && ex.records.is_empty() && ex.panic.is_none() {
            let nd = need(op, cs.script, &req[40..]);
            if cs.tr.capacity() >= nd {
                v.push((
                    "no-reply".into(),
                    format!(
                        "well-formed {} got no reply (capacity {}, prescribed reply {} bytes); handler returned {:?}",
                        ops::op_name(op),
                        cs.tr.capacity(),
                        nd,
                        ex.ret
                    ),
                ));
            }
        }
    }
    v
}

fn c01_run(rig: &mut Rig, rep: &mut Report, cs: &C01Case) {
    rep.eval();
    rep.transitions += 1;
    let is_init = cs.req.len() >= 8 && wire::get(cs.req, &k::FUSE_IN_HEADER, "opcode") == k::FUSE_INIT;
    let (ex, _log) = rig.run(cs.req, cs.tr, cs.script.answer());
    if is_init {
        rig.fresh_server();
    }
    let viol = c01_oracle(cs, &ex);
    let opn = if cs.req.len() >= 8 { ops::op_name(wire::get(cs.req, &k::FUSE_IN_HEADER, "opcode")) } else { "short".into() };
    let outcome = format!(
        "{}:{}:{}",
        opn,
        match ex.records.len() {
            0 => "no-reply".to_string(),
            1 => match wire::parse_reply(&ex.records[0]) {
                Ok(r) => format!("reply-err{}", r.error),
                Err(_) => "reply-short".to_string(),
            },
            n => format!("{}-replies", n),
        },
        if ex.ret.is_ok() { "ok" } else { "err" }
    );
    rep.outcome(&outcome);
    rep.state_of(&(cs.req, cs.tr, cs.script.name()));
    rep.sample(|| json!({"shape": cs.label, "transport": cs.tr.label(), "script": cs.script.name(), "request_len": cs.req.len(), "outcome": outcome}));
    for (class, msg) in viol {
        let trk = match cs.tr {
            Tr::Chan => "fusedev-channel",
            Tr::Sep(_) => "fusedev",
            Tr::Virt { .. } => "virtio",
        };
        rep.violation(&format!("C01/{}/{}/{}", opn, class, trk), &msg, || {
            json!({"engine": "wire", "shape": cs.label, "request_hex": hex(&cs.req[..cs.req.len().min(4200)]), "request_len": cs.req.len(),
                   "transport": cs.tr.to_replay(), "script": cs.script.name(), "wellformed": cs.wellformed,
                   "ret": format!("{:?}", ex.ret), "records": ex.records.iter().map(|r| hex(&r[..r.len().min(256)])).collect::<Vec<_>>()})
        });
    }
}

fn c01_transports(thorough: bool, reqlen: usize, ss: usize) -> Vec<Tr> {
    let mut v = vec![Tr::Chan];
    let caps: Vec<usize> = if thorough {
        let mut c: Vec<usize> = (0..=176).collect();
        c.extend([4095, 4096, 4097, 8192 + 16, (1 << 20) + 4096]);
        c
    } else {
        vec![0, 1, 15, 16, 17, 24, 32, 96, 119, 120, 143, 144, 160, 4096, 8192 + 16]
    };
    for c in &caps {
        v.push(Tr::Sep(*c));
    }
    let l = reqlen;
    let mut cutsets: Vec<Vec<usize>> = vec![vec![], vec![1], vec![39], vec![40], vec![41], vec![40 + ss], vec![l.saturating_sub(1)], vec![40, 40], vec![0], vec![l], vec![16, 40 + ss]];
    if thorough {
        for a in 0..=l.min(200) {
            cutsets.push(vec![a]);
        }
        for a in [1usize, 39, 40, 41] {
            for b in [40 + ss, l.saturating_sub(1), l] {
                if b >= a {
                    cutsets.push(vec![a, b]);
                }
            }
        }
    }
    cutsets.sort();
    cutsets.dedup();
    for cuts in cutsets {
        v.push(Tr::Virt { cuts, wr: vec![8192 + 16], gap: 8, wr_in_b: false, cache: true });
    }
    let wrs: Vec<Vec<usize>> = vec![
        vec![],
        vec![0],
        vec![1],
        vec![8],
        vec![15],
        vec![16],
        vec![17],
        vec![16, 8192],
        vec![15, 1, 8192],
        vec![1; 14],
        vec![0, 8208],
        vec![8, 8, 0, 128, 8192],
        // the 16-byte reply header ends strictly inside a descriptor that is not the first one
        vec![8, 8200],
        vec![8, 12, 8192],
        vec![4, 4, 4, 4100],
        vec![1, 8207],
        vec![120],
        vec![143],
        vec![144],
        vec![4096],
    ];
    for wr in wrs {
        v.push(Tr::Virt { cuts: vec![40], wr: wr.clone(), gap: 8, wr_in_b: true, cache: true });
        if thorough {
            v.push(Tr::Virt { cuts: vec![], wr: wr.clone(), gap: 0, wr_in_b: false, cache: false });
        }
    }
    v.push(Tr::Virt { cuts: vec![], wr: vec![8208], gap: 0, wr_in_b: false, cache: false });
    v
}

pub fn c01(args: &Args) -> Report {
    let mut rep = args.report();
    let mut rig = Rig::new();
    let thorough = args.thorough();
    let mut idx = 0u64;
    let mut opcodes: Vec<u64> = (0..=60).collect();
    opcodes.extend([4096u64, 1 << 20, 26 << 24, u32::MAX as u64]);
    let maxlen = ((1u64 << 20) + 4096) as u32;
    for &op in &opcodes {
        let ss = ops::struct_size(op);
        // part 1: shapes x transports x scripts, true header length
        // (size-dependent shapes are generated against each transport's capacity)
        let proto = c01_shapes(op, thorough, 8208);
        let mut seen_tr = 0usize;
        for sh in &proto {
            let reqb = Req { len: None, ..Req::new(op, 1, sh.body.clone()) }.bytes();
            let trs = c01_transports(thorough, reqb.len(), ss);
            seen_tr = seen_tr.max(trs.len());
            for tr in &trs {
                // skip giant bodies on byte-granular virtio layouts in quick tier: covered by channel
                for sc in Script::ALL {
                    if rep.mine(idx) {
                        let cs = C01Case { req: &reqb, tr, script: sc, wellformed: sh.wellformed, label: format!("{}:{}", ops::op_name(op), sh.label) };
                        c01_run(&mut rig, &mut rep, &cs);
                    }
                    idx += 1;
                }
                // a fault in the middle of a directory walk: entries are already staged when the error reply is built
                if matches!(op, k::FUSE_READDIR | k::FUSE_READDIRPLUS) && sh.wellformed {
                    for sc in [Script::DirFault(1), Script::DirFault(3)] {
                        if rep.mine(idx) {
                            let cs = C01Case { req: &reqb, tr, script: sc, wellformed: sh.wellformed, label: format!("{}:{}", ops::op_name(op), sh.label) };
                            c01_run(&mut rig, &mut rep, &cs);
                        }
                        idx += 1;
                    }
                }
            }
        }
        // part 1b: size fields relative to each capacity
        if matches!(op, k::FUSE_READ | k::FUSE_READDIR | k::FUSE_READDIRPLUS) {
            for tr in c01_transports(thorough, 80, ss) {
                let cap = tr.capacity();
                for sh in c01_shapes(op, false, cap).into_iter().filter(|s| s.label.starts_with("size-")) {
                    let reqb = Req::new(op, 1, sh.body.clone()).bytes();
                    for sc in Script::ALL {
                        if rep.mine(idx) {
                            let cs = C01Case { req: &reqb, tr: &tr, script: sc, wellformed: sh.wellformed, label: format!("{}:{}@cap{}", ops::op_name(op), sh.label, cap) };
                            c01_run(&mut rig, &mut rep, &cs);
                        }
                        idx += 1;
                    }
                }
            }
        }
        // part 2: header len / unique / nodeid lies on every shape, three transports
        let trs2 = [Tr::Chan, Tr::Sep(4096), Tr::Virt { cuts: vec![40], wr: vec![16, 4096], gap: 8, wr_in_b: true, cache: true }];
        for sh in &proto {
            let true_len = (40 + sh.body.len()) as u32;
            let mut lens = vec![0u32, 1, 39, 40, true_len.wrapping_sub(1), true_len + 1, 0x1000, maxlen, maxlen + 1, u32::MAX];
            lens.sort_unstable();
            lens.dedup();
            for len in lens {
                if len == true_len {
                    continue;
                }
                let reqb = Req { len: Some(len), ..Req::new(op, 1, sh.body.clone()) }.bytes();
                for tr in &trs2 {
                    for sc in [Script::OkSmall, Script::Enoent] {
                        if rep.mine(idx) {
                            let cs = C01Case { req: &reqb, tr, script: sc, wellformed: false, label: format!("{}:{}:len={}", ops::op_name(op), sh.label, len) };
                            c01_run(&mut rig, &mut rep, &cs);
                        }
                        idx += 1;
                    }
                }
            }
            for (unique, nodeid) in [(0u64, 1u64), (u64::MAX, 1), (7, 0), (7, u64::MAX)] {
                let reqb = Req { unique, nodeid, ..Req::new(op, 1, sh.body.clone()) }.bytes();
                for tr in &trs2 {
                    if rep.mine(idx) {
                        let cs = C01Case { req: &reqb, tr, script: Script::OkSmall, wellformed: sh.wellformed, label: format!("{}:{}:unique={:#x},nodeid={:#x}", ops::op_name(op), sh.label, unique, nodeid) };
                        c01_run(&mut rig, &mut rep, &cs);
                    }
                    idx += 1;
                }
            }
        }
    }
    // part 3: physical requests shorter than a header (not deliverable through the channel's read)
    let hdr = Req::new(k::FUSE_GETATTR, 1, vec![0u8; 16]).bytes();
    for n in 0..40usize {
        for tr in [Tr::Sep(4096), virt_simple(4096, false), Tr::Virt { cuts: vec![n / 2], wr: vec![16, 64], gap: 8, wr_in_b: true, cache: false }] {
            if rep.mine(idx) {
                let cs = C01Case { req: &hdr[..n], tr: &tr, script: Script::OkSmall, wellformed: false, label: format!("short-header-{}", n) };
                c01_run(&mut rig, &mut rep, &cs);
            }
            idx += 1;
        }
    }
    // part 4: a maximal and an over-maximal physical request (WRITE with 1 MiB payload, +1)
    for extra in [0usize, 1, 4096] {
        let mut c = wf_case(k::FUSE_WRITE);
        c.payload = payload_of((1 << 20) + extra);
        let reqb = c.req().bytes();
        for tr in [Tr::Chan, Tr::Sep(4096), virt_simple(4096, false)] {
            for sc in Script::ALL {
                if rep.mine(idx) {
                    let cs = C01Case { req: &reqb, tr: &tr, script: sc, wellformed: extra == 0, label: format!("FUSE_WRITE:payload-1MiB+{}", extra) };
                    c01_run(&mut rig, &mut rep, &cs);
                }
                idx += 1;
            }
        }
    }
    // part 5: descriptor chains that cannot be mapped: construction must fail cleanly
    c01_bad_chains(&mut rig, &mut rep, &mut idx);
    // part 6: the server's own state. The only state a Server keeps between requests is the protocol version
    // negotiated by INIT; every reply path that depends on it (negative entries, compat layouts) is driven here:
    // an INIT with each minor on a fresh server, then every opcode's well-formed request with every script
    // (including a successful lookup result with inode 0) on reply areas around the sizes that matter.
    let mut minors: Vec<u32> = (0..=40).collect();
    minors.push(u32::MAX);
    let vtrs = [
        Tr::Chan,
        Tr::Sep(8192 + 16),
        Tr::Sep(16),
        Tr::Sep(143),
        Tr::Sep(144),
        virt_simple(8192 + 16, true),
        Tr::Virt { cuts: vec![40], wr: vec![16, 8192], gap: 8, wr_in_b: true, cache: true },
        Tr::Virt { cuts: vec![40], wr: vec![16], gap: 8, wr_in_b: true, cache: false },
        Tr::Virt { cuts: vec![13], wr: vec![15, 1, 128], gap: 8, wr_in_b: true, cache: false },
    ];
    let mut versioned = 0u64;
    for &minor in &minors {
        rig.fresh_server();
        let init = Req::new(k::FUSE_INIT, 1, init_body(7, minor, 0x7fff_ffff, Some(k::FUSE_INIT_IN.size - 16))).bytes();
        let _ = rig.run(&init, &Tr::Sep(8192 + 16), Script::OkSmall.answer());
        for &op in ops::ALL_OPS.iter().filter(|o| **o != k::FUSE_INIT) {
            let reqb = wf_case(op).req().bytes();
            for tr in &vtrs {
                for sc in Script::ALL.iter().copied().chain([Script::Negative]) {
                    if rep.mine(idx) {
                        let cs = C01Case { req: &reqb, tr, script: sc, wellformed: true, label: format!("{}:after-INIT-7.{}", ops::op_name(op), minor) };
                        c01_run(&mut rig, &mut rep, &cs);
                        versioned += 1;
                    }
                    idx += 1;
                }
            }
        }
    }
    rig.fresh_server();
    rep.set("sum_cases_after_negotiated_version", json!(versioned));
    rep.set("total_cases_all_shards", json!(idx));
    rep.set("opcodes", json!(opcodes.len()));
    rep
}

fn c01_bad_chains(rig: &mut Rig, rep: &mut Report, idx: &mut u64) {
    use fuse_backend_rs::transport::{Reader, VirtioFsWriter};
    let a_end = A_BASE + rig.virt.a_size as u64;
    let b_end = B_BASE + rig.virt.b_size as u64;
    let bad: Vec<(&str, Vec<Seg>, Vec<Seg>)> = vec![
        ("readable-outside-memory", vec![Seg { addr: 0x4000_0000, len: 64 }], vec![Seg { addr: B_BASE, len: 64 }]),
        ("writable-outside-memory", vec![Seg { addr: A_BASE, len: 64 }], vec![Seg { addr: 0x4000_0000, len: 64 }]),
        ("readable-straddles-region-end", vec![Seg { addr: a_end - 32, len: 64 }], vec![Seg { addr: B_BASE, len: 64 }]),
        ("writable-straddles-region-end", vec![Seg { addr: A_BASE, len: 64 }], vec![Seg { addr: b_end - 8, len: 64 }]),
        ("readable-len-u32max", vec![Seg { addr: A_BASE, len: u32::MAX }], vec![Seg { addr: B_BASE, len: 64 }]),
        ("writable-len-u32max-twice", vec![Seg { addr: A_BASE, len: 64 }], vec![Seg { addr: B_BASE, len: u32::MAX }, Seg { addr: B_BASE, len: u32::MAX }]),
        ("addr-u64max", vec![Seg { addr: u64::MAX - 8, len: 64 }], vec![Seg { addr: B_BASE, len: 64 }]),
    ];
    for (label, rd, wr) in bad {
        if rep.mine(*idx) {
            rep.eval();
            rep.transitions += 1;
            let q = rig.virt.queue();
            let descs = Virtio::descs(&rd, &wr);
            let mappable = |v: &[Seg]| -> usize {
                v.iter()
                    .filter(|s| match rig.virt.region_of(s.addr) {
                        Some((base, size)) => s.addr + s.len as u64 <= base + size as u64,
                        None => false,
                    })
                    .map(|s| s.len as usize)
                    .sum()
            };
            let (max_r, max_w) = (mappable(&rd), mappable(&wr));
            let res = std::panic::catch_unwind(std::panic::AssertUnwindSafe(|| {
                use std::io::{Read, Write};
                let chain = q.build_desc_chain(&descs).map_err(|e| format!("{:?}", e))?;
                let r = Reader::from_descriptor_chain(&rig.virt.mem, chain.clone())
                    .map(|mut r| {
                        let n = r.available_bytes();
                        let mut sink = vec![0u8; n.min(1 << 16)];
                        let _ = r.read(&mut sink);
                        n
                    })
                    .map_err(|e| format!("{:?}", e));
                let w = VirtioFsWriter::new(&rig.virt.mem, chain)
                    .map(|mut w| {
                        let n = w.available_bytes();
                        let _ = w.write(&vec![1u8; n.min(1 << 16)]);
                        n
                    })
                    .map_err(|e| format!("{:?}", e));
                Ok::<_, String>((r, w))
            }));
            let outcome = match &res {
                Err(_) => "panic".to_string(),
                Ok(Err(e)) => format!("mock-rejected:{}", e),
                Ok(Ok((r, w))) => format!("reader={:?} writer={:?}", r.as_ref().map_err(|_| "err"), w.as_ref().map_err(|_| "err")),
            };
            rep.outcome(&format!("bad-chain:{}:{}", label, outcome));
            let violated = match &res {
                Err(_) => true,
                Ok(Err(_)) => false,
                Ok(Ok((r, w))) => r.as_ref().map(|n| *n > max_r).unwrap_or(false) || w.as_ref().map(|n| *n > max_w).unwrap_or(false),
            };
            if violated {
                rep.violation(&format!("C01/bad-chain/{}", label), &format!("unmappable descriptor chain accepted or panicked: {}", outcome), || {
                    json!({"engine": "bad-chain", "label": label})
                });
            }
        }
        *idx += 1;
    }
}

pub fn replay_wire(prop: &str, case: &Value) -> (bool, String) {
    let mut rig = Rig::new();
    let req = crate::report::unhex(case["request_hex"].as_str().unwrap());
    let tr = Tr::from_replay(&case["transport"]);
    let sc = Script::from_name(case["script"].as_str().unwrap_or("ok-small"));
    let (ex, log) = rig.run(&req, &tr, sc.answer());
    match prop {
        "C01" => {
            let cs = C01Case { req: &req, tr: &tr, script: sc, wellformed: case["wellformed"].as_bool().unwrap_or(false), label: "replay".into() };
            let v = c01_oracle(&cs, &ex);
            (v.is_empty(), format!("ret={:?} records={:?} violations={:?}", ex.ret, ex.records.iter().map(|r| r.len()).collect::<Vec<_>>(), v))
        }
        _ => (true, format!("log={:?}", log)),
    }
}

// ------------------------------------------------------------------------------------------------
// C03

use crate::scriptfs::{DirAns, Fail};
use fuse_backend_rs::abi::fuse_abi::stat64;
use fuse_backend_rs::api::filesystem::Entry;
use std::time::Duration;

/// One dimension of a scripted result.
struct RDim {
    name: &'static str,
    alts: Vec<u64>,
    set: fn(&mut Answer, u64),
}

fn dom_res64() -> Vec<u64> {
    vec![0, 1, (1 << 31) - 1, 1 << 31, (1 << 32) - 1, 1 << 32, (1 << 63) - 1, 1 << 63, u64::MAX]
}
fn dom_res32() -> Vec<u64> {
    vec![0, 1, (1 << 31) - 1, 1 << 31, u32::MAX as u64]
}
fn dom_nanos() -> Vec<u64> {
    vec![0, 1, 999_999_999]
}

macro_rules! rdim {
    ($name:expr, $alts:expr, |$a:ident, $v:ident| $body:expr) => {
        RDim { name: $name, alts: $alts, set: |$a: &mut Answer, $v: u64| $body }
    };
}

fn stat_dims_entry() -> Vec<RDim> {
    vec![
        rdim!("entry.inode", dom_res64(), |a, v| a.entry.inode = v),
        rdim!("entry.generation", dom_res64(), |a, v| a.entry.generation = v),
        rdim!("entry.attr_flags", dom_res32(), |a, v| a.entry.attr_flags = v as u32),
        rdim!("entry.attr_timeout.secs", dom_res64(), |a, v| a.entry.attr_timeout = Duration::new(v, a.entry.attr_timeout.subsec_nanos())),
        rdim!("entry.attr_timeout.nanos", dom_nanos(), |a, v| a.entry.attr_timeout = Duration::new(a.entry.attr_timeout.as_secs(), v as u32)),
        rdim!("entry.entry_timeout.secs", dom_res64(), |a, v| a.entry.entry_timeout = Duration::new(v, a.entry.entry_timeout.subsec_nanos())),
        rdim!("entry.entry_timeout.nanos", dom_nanos(), |a, v| a.entry.entry_timeout = Duration::new(a.entry.entry_timeout.as_secs(), v as u32)),
        rdim!("entry.st_ino", dom_res64(), |a, v| a.entry.attr.st_ino = v),
        rdim!("entry.st_size", dom_res64(), |a, v| a.entry.attr.st_size = v as i64),
        rdim!("entry.st_blocks", dom_res64(), |a, v| a.entry.attr.st_blocks = v as i64),
        rdim!("entry.st_atime", dom_res64(), |a, v| a.entry.attr.st_atime = v as i64),
        rdim!("entry.st_mtime", dom_res64(), |a, v| a.entry.attr.st_mtime = v as i64),
        rdim!("entry.st_ctime", dom_res64(), |a, v| a.entry.attr.st_ctime = v as i64),
        rdim!("entry.st_atime_nsec", dom_nanos(), |a, v| a.entry.attr.st_atime_nsec = v as i64),
        rdim!("entry.st_mtime_nsec", dom_nanos(), |a, v| a.entry.attr.st_mtime_nsec = v as i64),
        rdim!("entry.st_ctime_nsec", dom_nanos(), |a, v| a.entry.attr.st_ctime_nsec = v as i64),
        rdim!("entry.st_mode", dom_res32(), |a, v| a.entry.attr.st_mode = v as u32),
        rdim!("entry.st_nlink", dom_res32(), |a, v| a.entry.attr.st_nlink = v),
        rdim!("entry.st_uid", dom_res32(), |a, v| a.entry.attr.st_uid = v as u32),
        rdim!("entry.st_gid", dom_res32(), |a, v| a.entry.attr.st_gid = v as u32),
        rdim!("entry.st_rdev", dom_res32(), |a, v| a.entry.attr.st_rdev = v),
        rdim!("entry.st_blksize", dom_res32(), |a, v| a.entry.attr.st_blksize = v as i64),
    ]
}

fn stat_dims_attr() -> Vec<RDim> {
    vec![
        rdim!("timeout.secs", dom_res64(), |a, v| a.timeout = Duration::new(v, a.timeout.subsec_nanos())),
        rdim!("timeout.nanos", dom_nanos(), |a, v| a.timeout = Duration::new(a.timeout.as_secs(), v as u32)),
        rdim!("st_ino", dom_res64(), |a, v| a.attr.st_ino = v),
        rdim!("st_size", dom_res64(), |a, v| a.attr.st_size = v as i64),
        rdim!("st_blocks", dom_res64(), |a, v| a.attr.st_blocks = v as i64),
        rdim!("st_atime", dom_res64(), |a, v| a.attr.st_atime = v as i64),
        rdim!("st_mtime", dom_res64(), |a, v| a.attr.st_mtime = v as i64),
        rdim!("st_ctime", dom_res64(), |a, v| a.attr.st_ctime = v as i64),
        rdim!("st_atime_nsec", dom_nanos(), |a, v| a.attr.st_atime_nsec = v as i64),
        rdim!("st_mtime_nsec", dom_nanos(), |a, v| a.attr.st_mtime_nsec = v as i64),
        rdim!("st_ctime_nsec", dom_nanos(), |a, v| a.attr.st_ctime_nsec = v as i64),
        rdim!("st_mode", dom_res32(), |a, v| a.attr.st_mode = v as u32),
        rdim!("st_nlink", dom_res32(), |a, v| a.attr.st_nlink = v),
        rdim!("st_uid", dom_res32(), |a, v| a.attr.st_uid = v as u32),
        rdim!("st_gid", dom_res32(), |a, v| a.attr.st_gid = v as u32),
        rdim!("st_rdev", dom_res32(), |a, v| a.attr.st_rdev = v),
        rdim!("st_blksize", dom_res32(), |a, v| a.attr.st_blksize = v as i64),
    ]
}

fn open_dims() -> Vec<RDim> {
    vec![
        rdim!("handle", vec![u64::MAX - 1, 0, 1, 1 << 32, u64::MAX], |a, v| a.handle = if v == u64::MAX - 1 { None } else { Some(v) }),
        rdim!("opts", vec![0, 1, 2, 4, 8, 16, 31, 32, u32::MAX as u64], |a, v| a.opts = v as u32),
        rdim!("passthrough", vec![u64::MAX, 0, 1, u32::MAX as u64], |a, v| a.passthrough = if v == u64::MAX { None } else { Some(v as u32) }),
    ]
}

fn statvfs_dims() -> Vec<RDim> {
    vec![
        rdim!("f_blocks", dom_res64(), |a, v| a.statvfs.f_blocks = v),
        rdim!("f_bfree", dom_res64(), |a, v| a.statvfs.f_bfree = v),
        rdim!("f_bavail", dom_res64(), |a, v| a.statvfs.f_bavail = v),
        rdim!("f_files", dom_res64(), |a, v| a.statvfs.f_files = v),
        rdim!("f_ffree", dom_res64(), |a, v| a.statvfs.f_ffree = v),
        rdim!("f_bsize", dom_res32(), |a, v| a.statvfs.f_bsize = v),
        rdim!("f_namemax", dom_res32(), |a, v| a.statvfs.f_namemax = v),
        rdim!("f_frsize", dom_res32(), |a, v| a.statvfs.f_frsize = v),
        rdim!("f_favail", dom_res64(), |a, v| a.statvfs.f_favail = v),
        rdim!("f_fsid", dom_res64(), |a, v| a.statvfs.f_fsid = v),
        rdim!("f_flag", dom_res64(), |a, v| a.statvfs.f_flag = v),
    ]
}

fn base_answer() -> Answer {
    let mut a = Answer::default();
    let mut i = 1u64;
    let mut m64 = || {
        i += 1;
        0x0101_0101_0101_0101u64.wrapping_mul(i) & 0x7fff_ffff_ffff_ffff
    };
    a.entry.inode = m64();
    a.entry.generation = m64();
    a.entry.attr_flags = m64() as u32;
    a.entry.attr_timeout = Duration::new(m64(), 123_456_789);
    a.entry.entry_timeout = Duration::new(m64(), 987_654_321);
    for st in [&mut a.entry.attr, &mut a.attr] {
        st.st_ino = m64();
        st.st_size = m64() as i64;
        st.st_blocks = m64() as i64;
        st.st_atime = m64() as i64;
        st.st_mtime = m64() as i64;
        st.st_ctime = m64() as i64;
        st.st_atime_nsec = (m64() % 1_000_000_000) as i64;
        st.st_mtime_nsec = (m64() % 1_000_000_000) as i64;
        st.st_ctime_nsec = (m64() % 1_000_000_000) as i64;
        st.st_mode = m64() as u32;
        st.st_nlink = m64() & 0xffff_ffff;
        st.st_uid = m64() as u32;
        st.st_gid = m64() as u32;
        st.st_rdev = m64() & 0xffff_ffff;
        st.st_blksize = (m64() & 0x7fff_ffff) as i64;
    }
    a.timeout = Duration::new(m64(), 111_222_333);
    a.handle = Some(m64());
    a.opts = 5;
    a.passthrough = Some(0x3131_3131);
    a.data = b"scripted-result-data".to_vec();
    a.count = 0x5151_5151;
    a.lock = (m64(), m64(), 0x6161_6161, 0x7171_7171);
    a.statvfs.f_blocks = m64();
    a.statvfs.f_bfree = m64();
    a.statvfs.f_bavail = m64();
    a.statvfs.f_files = m64();
    a.statvfs.f_ffree = m64();
    a.statvfs.f_bsize = 0x4141_4141;
    a.statvfs.f_namemax = 0x4242_4242;
    a.statvfs.f_frsize = 0x4343_4343;
    a.u64val = m64();
    a.u32val = 0x5252_5252;
    a.ioctl_result = 0x2323_2323;
    a
}

fn expect_attr(st: &stat64, flags: u32, prefix: &str) -> Vec<(String, u64)> {
    let p = |n: &str| format!("{}{}", prefix, n);
    vec![
        (p("ino"), st.st_ino),
        (p("size"), st.st_size as u64),
        (p("blocks"), st.st_blocks as u64),
        (p("atime"), st.st_atime as u64),
        (p("mtime"), st.st_mtime as u64),
        (p("ctime"), st.st_ctime as u64),
        (p("atimensec"), st.st_atime_nsec as u32 as u64),
        (p("mtimensec"), st.st_mtime_nsec as u32 as u64),
        (p("ctimensec"), st.st_ctime_nsec as u32 as u64),
        (p("mode"), st.st_mode as u64),
        (p("nlink"), st.st_nlink as u32 as u64),
        (p("uid"), st.st_uid as u64),
        (p("gid"), st.st_gid as u64),
        (p("rdev"), st.st_rdev as u32 as u64),
        (p("blksize"), st.st_blksize as u32 as u64),
        (p("flags"), flags as u64),
    ]
}

fn expect_entry(e: &Entry) -> Vec<(String, u64)> {
    let mut v = vec![
        ("nodeid".to_string(), e.inode),
        ("generation".to_string(), e.generation),
        ("entry_valid".to_string(), e.entry_timeout.as_secs()),
        ("attr_valid".to_string(), e.attr_timeout.as_secs()),
        ("entry_valid_nsec".to_string(), e.entry_timeout.subsec_nanos() as u64),
        ("attr_valid_nsec".to_string(), e.attr_timeout.subsec_nanos() as u64),
    ];
    v.extend(expect_attr(&e.attr, e.attr_flags, "attr."));
    v
}

/// (reply structure, expected field values, expected trailing bytes) of a successful reply.
fn expected_ok(op: u64, a: &Answer, c: &Case) -> (Option<&'static k::Lay>, Vec<(String, u64)>, Vec<u8>) {
    let open = |a: &Answer, pt: bool| {
        vec![
            ("fh".to_string(), a.handle.unwrap_or(0)),
            ("open_flags".to_string(), a.opts as u64),
            ("padding".to_string(), if pt { a.passthrough.unwrap_or(0) as u64 } else { 0 }),
        ]
    };
    match op {
        k::FUSE_LOOKUP | k::FUSE_SYMLINK | k::FUSE_MKNOD | k::FUSE_MKDIR | k::FUSE_LINK => (Some(&k::FUSE_ENTRY_OUT), expect_entry(&a.entry), vec![]),
        k::FUSE_CREATE => {
            // fuse_entry_out followed by fuse_open_out
            let mut tail = vec![0u8; k::FUSE_OPEN_OUT.size];
            for (n, v) in open(a, true) {
                wire::put(&mut tail, &k::FUSE_OPEN_OUT, &n, v);
            }
            (Some(&k::FUSE_ENTRY_OUT), expect_entry(&a.entry), tail)
        }
        k::FUSE_GETATTR | k::FUSE_SETATTR => {
            let mut v = vec![
                ("attr_valid".to_string(), a.timeout.as_secs()),
                ("attr_valid_nsec".to_string(), a.timeout.subsec_nanos() as u64),
                ("dummy".to_string(), 0),
            ];
            v.extend(expect_attr(&a.attr, 0, "attr."));
            (Some(&k::FUSE_ATTR_OUT), v, vec![])
        }
        k::FUSE_OPEN => (Some(&k::FUSE_OPEN_OUT), open(a, true), vec![]),
        k::FUSE_OPENDIR => (Some(&k::FUSE_OPEN_OUT), open(a, false), vec![]),
        k::FUSE_READ => (None, vec![], a.data[..a.data.len().min(c.v("size") as usize)].to_vec()),
        k::FUSE_READLINK => (None, vec![], a.data.clone()),
        k::FUSE_WRITE => (Some(&k::FUSE_WRITE_OUT), vec![("size".to_string(), a.count as u32 as u64), ("padding".to_string(), 0)], vec![]),
        k::FUSE_STATFS => {
            let s = &a.statvfs;
            let mut v = vec![
                ("st.blocks".to_string(), s.f_blocks),
                ("st.bfree".to_string(), s.f_bfree),
                ("st.bavail".to_string(), s.f_bavail),
                ("st.files".to_string(), s.f_files),
                ("st.ffree".to_string(), s.f_ffree),
                ("st.bsize".to_string(), s.f_bsize as u32 as u64),
                ("st.namelen".to_string(), s.f_namemax as u32 as u64),
                ("st.frsize".to_string(), s.f_frsize as u32 as u64),
                ("st.padding".to_string(), 0),
            ];
            v.push(("st.spare".to_string(), 0));
            (Some(&k::FUSE_STATFS_OUT), v, vec![])
        }
        k::FUSE_GETXATTR | k::FUSE_LISTXATTR => match a.xattr_count {
            Some(n) => (Some(&k::FUSE_GETXATTR_OUT), vec![("size".to_string(), n as u64), ("padding".to_string(), 0)], vec![]),
            None => (None, vec![], a.data.clone()),
        },
        k::FUSE_GETLK => (
            Some(&k::FUSE_LK_OUT),
            vec![
                ("lk.start".to_string(), a.lock.0),
                ("lk.end".to_string(), a.lock.1),
                ("lk.type".to_string(), a.lock.2 as u64),
                ("lk.pid".to_string(), a.lock.3 as u64),
            ],
            vec![],
        ),
        k::FUSE_BMAP => (Some(&k::FUSE_BMAP_OUT), vec![("block".to_string(), a.u64val)], vec![]),
        k::FUSE_LSEEK => (Some(&k::FUSE_LSEEK_OUT), vec![("offset".to_string(), a.u64val)], vec![]),
        k::FUSE_POLL => (Some(&k::FUSE_POLL_OUT), vec![("revents".to_string(), a.u32val as u64), ("padding".to_string(), 0)], vec![]),
        k::FUSE_IOCTL => (
            Some(&k::FUSE_IOCTL_OUT),
            vec![
                ("result".to_string(), a.ioctl_result as u32 as u64),
                ("flags".to_string(), 0),
                ("in_iovs".to_string(), 0),
                ("out_iovs".to_string(), 0),
            ],
            a.data.clone(),
        ),
        _ => (None, vec![], vec![]),
    }
}

fn res_dims(op: u64) -> Vec<RDim> {
    match op {
        k::FUSE_LOOKUP | k::FUSE_SYMLINK | k::FUSE_MKNOD | k::FUSE_MKDIR | k::FUSE_LINK => stat_dims_entry(),
        k::FUSE_CREATE => {
            let mut v = stat_dims_entry();
            v.extend(open_dims());
            v
        }
        k::FUSE_GETATTR | k::FUSE_SETATTR => stat_dims_attr(),
        k::FUSE_OPEN | k::FUSE_OPENDIR => open_dims(),
        k::FUSE_WRITE => vec![rdim!("count", vec![0, 1, (1 << 32) - 1, 1 << 32, u64::MAX], |a, v| a.count = v as usize)],
        k::FUSE_STATFS => statvfs_dims(),
        k::FUSE_READ | k::FUSE_READLINK => vec![rdim!("data.len", vec![0, 1, 63, 64, 65, 4096], |a, v| a.data = payload_of(v as usize))],
        k::FUSE_GETXATTR | k::FUSE_LISTXATTR => vec![
            rdim!("data.len", vec![0, 1, 63, 64, 65, 4096], |a, v| a.data = payload_of(v as usize)),
            rdim!("count", vec![0, 1, 1 << 31, u32::MAX as u64], |a, v| a.xattr_count = Some(v as u32)),
        ],
        k::FUSE_GETLK => vec![
            rdim!("lock.start", dom_res64(), |a, v| a.lock.0 = v),
            rdim!("lock.end", dom_res64(), |a, v| a.lock.1 = v),
            rdim!("lock.type", dom_res32(), |a, v| a.lock.2 = v as u32),
            rdim!("lock.pid", dom_res32(), |a, v| a.lock.3 = v as u32),
        ],
        k::FUSE_BMAP | k::FUSE_LSEEK => vec![rdim!("u64", dom_res64(), |a, v| a.u64val = v)],
        k::FUSE_POLL => vec![rdim!("u32", dom_res32(), |a, v| a.u32val = v as u32)],
        k::FUSE_IOCTL => vec![
            rdim!("result", dom_res32(), |a, v| a.ioctl_result = v as u32 as i32),
            rdim!("data.len", vec![0, 1, 64, 4096], |a, v| a.data = payload_of(v as usize)),
        ],
        _ => vec![],
    }
}

fn c03_transports() -> Vec<Tr> {
    vec![
        Tr::Chan,
        Tr::Sep(16 + 8192),
        virt_simple(16 + 8192, true),
        Tr::Virt { cuts: vec![40], wr: vec![16, 8192], gap: 8, wr_in_b: true, cache: true },
        Tr::Virt { cuts: vec![], wr: vec![15, 1, 7, 8185], gap: 0, wr_in_b: false, cache: true },
    ]
}

fn c03_req(op: u64) -> Case {
    let mut c = wf_case(op);
    if matches!(op, k::FUSE_READ) {
        c.f.insert("size", 4096);
    }
    if op == k::FUSE_IOCTL {
        c.f.insert("out_size", 4096);
    }
    c
}

/// Execute `op` answered by `ans`; compare the reply with the kernel-side decoding of `ans`.
fn c03_check_ok(rig: &mut Rig, rep: &mut Report, op: u64, ans: &Answer, tr: &Tr, devs: &[(&str, u64)]) -> Option<Vec<u8>> {
    rep.eval();
    rep.transitions += 1;
    let c = c03_req(op);
    let bytes = c.req().bytes();
    let (ex, _log) = rig.run(&bytes, tr, ans.clone());
    let (recs, mut problems) = client_view(tr, &ex);
    let opn = ops::op_name(op);
    let case_json = |extra: Value| {
        json!({"engine": "c03", "op": opn, "deviations": devs, "transport": tr.to_replay(), "request_hex": hex(&bytes), "detail": extra,
               "records": recs.iter().map(|r| hex(&r[..r.len().min(400)])).collect::<Vec<_>>(), "ret": format!("{:?}", ex.ret)})
    };
    if let Some(p) = &ex.panic {
        problems.push(("panic".into(), p.clone()));
    }
    let mut entry_bytes = None;
    if recs.len() != 1 {
        problems.push(("reply-count".into(), format!("{} replies", recs.len())));
    } else {
        match wire::parse_reply(&recs[0]) {
            Err(e) => problems.push(("short-reply".into(), e)),
            Ok(r) => {
                if r.error != 0 {
                    problems.push(("unexpected-error".into(), format!("filesystem returned Ok, reply carries error {}", r.error)));
                } else if r.len as usize != recs[0].len() || r.unique != c.unique {
                    problems.push(("framing".into(), format!("len {} for {} bytes, unique {:#x}", r.len, recs[0].len(), r.unique)));
                } else {
                    let (lay, fields, tail) = expected_ok(op, ans, &c);
                    let ssz = lay.map(|l| l.size).unwrap_or(0);
                    if r.body.len() != ssz + tail.len() {
                        problems.push(("reply-size".into(), format!("body {} bytes, kernel expects {} + {}", r.body.len(), ssz, tail.len())));
                    } else {
                        if let Some(lay) = lay {
                            for (n, v) in &fields {
                                let f = lay.f(n);
                                let got = if f.size <= 8 { wire::get_at(&r.body, f.off, f.size) } else { r.body[f.off..f.off + f.size].iter().map(|b| *b as u64).sum() };
                                let mask = if f.size >= 8 { u64::MAX } else { (1u64 << (8 * f.size)) - 1 };
                                if got != (*v & mask) {
                                    problems.push((format!("field:{}", n), format!("{}.{} = {:#x}, filesystem returned {:#x}", lay.name, n, got, v)));
                                }
                            }
                            if lay.name == "fuse_entry_out" {
                                entry_bytes = Some(r.body[..ssz].to_vec());
                            }
                        }
                        if r.body[ssz..] != tail[..] {
                            problems.push(("data".into(), "trailing bytes differ from what the filesystem produced".to_string()));
                        }
                    }
                }
            }
        }
    }
    rep.outcome(&format!("{}:ok:{}", opn, if problems.is_empty() { "encoded-as-expected" } else { "MISMATCH" }));
    rep.state_of(&(op, recs.first()));
    rep.sample(|| json!({"op": opn, "deviations": devs, "transport": tr.label(), "reply_hex": recs.first().map(|r| hex(&r[..r.len().min(64)]))}));
    for (class, msg) in problems {
        rep.violation(&format!("C03/{}/{}", opn, class), &msg, || case_json(json!(msg)));
    }
    entry_bytes
}

fn all_kinds() -> Vec<std::io::ErrorKind> {
    use std::io::ErrorKind::*;
    vec![
        NotFound, PermissionDenied, ConnectionRefused, ConnectionReset, ConnectionAborted, NotConnected, AddrInUse,
        AddrNotAvailable, BrokenPipe, AlreadyExists, WouldBlock, InvalidInput, InvalidData, TimedOut, WriteZero,
        Interrupted, Unsupported, UnexpectedEof, OutOfMemory, Other,
    ]
}

fn c03_check_err(rig: &mut Rig, rep: &mut Report, op: u64, fail: &Fail, tr: &Tr) {
    rep.eval();
    rep.transitions += 1;
    let c = c03_req(op);
    let bytes = c.req().bytes();
    let mut ans = base_answer();
    ans.fail = Some(fail.clone());
    let (ex, _log) = rig.run(&bytes, tr, ans);
    let (recs, mut problems) = client_view(tr, &ex);
    let opn = ops::op_name(op);
    if let Some(p) = &ex.panic {
        problems.push(("panic".into(), p.clone()));
    }
    if recs.len() != 1 {
        problems.push(("reply-count".into(), format!("{} replies to a failed {}", recs.len(), opn)));
    } else if let Ok(r) = wire::parse_reply(&recs[0]) {
        if r.len != 16 || recs[0].len() != 16 || r.unique != c.unique {
            problems.push(("framing".into(), format!("error reply len {} / {} bytes", r.len, recs[0].len())));
        }
        match fail {
            Fail::Errno(e) => {
                if r.error != -*e {
                    problems.push(("errno".into(), format!("filesystem failed with errno {}, reply error {}", e, r.error)));
                }
            }
            Fail::Kind(kind) => {
                if !(-4095..=-1).contains(&r.error) {
                    problems.push(("errno-range".into(), format!("kind {:?} encoded as {}", kind, r.error)));
                } else {
                    use std::io::ErrorKind::*;
                    if matches!(kind, NotFound | PermissionDenied | AlreadyExists | WouldBlock | Interrupted)
                        && std::io::Error::from_raw_os_error(-r.error).kind() != *kind
                    {
                        problems.push(("errno-kind".into(), format!("kind {:?} encoded as errno {} which means {:?}", kind, -r.error, std::io::Error::from_raw_os_error(-r.error).kind())));
                    }
                }
            }
        }
    } else {
        problems.push(("short-reply".into(), "error reply shorter than a header".into()));
    }
    rep.outcome(&format!("{}:err:{}", opn, if problems.is_empty() { "encoded-as-expected" } else { "MISMATCH" }));
    rep.state_of(&(op, format!("{:?}", fail), recs.first()));
    for (class, msg) in problems {
        rep.violation(&format!("C03/{}/error-{}", opn, class), &msg, || {
            json!({"engine": "c03-err", "op": opn, "fail": format!("{:?}", fail), "transport": tr.to_replay(), "request_hex": hex(&bytes)})
        });
    }
}

/// Directory replies.
fn c03_dir(rig: &mut Rig, rep: &mut Report, idx: &mut u64, thorough: bool) {
    let e = base_answer().entry;
    let mk = |names: &[usize]| -> Vec<DirAns> {
        names
            .iter()
            .enumerate()
            .map(|(i, l)| {
                let mut en = e;
                en.inode = 0x1000 + i as u64;
                en.attr.st_ino = 0x2000 + i as u64;
                DirAns { ino: 0x3000 + i as u64, off: 0x4000 + i as u64, typ: (i as u32 % 13) + 1, name: name_of(*l, i as u8), entry: en }
            })
            .collect()
    };
    let lists: Vec<Vec<usize>> = vec![
        (1..=24).collect(),
        vec![8, 8, 8, 8, 8, 8],
        vec![255, 1, 255],
        vec![1],
        vec![],
        vec![7, 9, 16, 17, 23, 24, 25, 1, 2, 3],
    ];
    let mut sizes: Vec<u32> = (0..=400).collect();
    sizes.extend([1024, 4095, 4096]);
    for plus in [false, true] {
        let op = if plus { k::FUSE_READDIRPLUS } else { k::FUSE_READDIR };
        for (li, names) in lists.iter().enumerate() {
            if !thorough && li >= 3 && li != 4 {
                continue;
            }
            let dirents = mk(names);
            for &size in &sizes {
                if !thorough && plus && size % 3 != 0 && size > 200 {
                    continue;
                }
                for slack in [16usize, 15, 8, 0] {
                    let cap = size as usize + slack;
                    let trs = [
                        Tr::Sep(cap),
                        Tr::Virt { cuts: vec![40], wr: if cap >= 16 { vec![16, cap - 16] } else { vec![cap] }, gap: 8, wr_in_b: true, cache: false },
                    ];
                    for tr in trs.iter() {
                        for propagate in [true, false] {
                            if slack == 16 && !propagate {
                                continue;
                            }
                            if rep.mine(*idx) {
                                c03_dir_one(rig, rep, op, plus, &dirents, size, tr, slack, propagate);
                            }
                            *idx += 1;
                        }
                    }
                }
            }
        }
    }
    // a fault in the middle of the walk: the filesystem returns an error after n entries were accepted.
    // "What the filesystem returned" is then the error: the reply is the bare header with -errno.
    for plus in [false, true] {
        let op = if plus { k::FUSE_READDIRPLUS } else { k::FUSE_READDIR };
        let dirents = mk(&[8, 8, 1, 255, 8, 8]);
        for fail_after in 0..=5usize {
            for errno in [libc::EIO, libc::ESTALE, libc::ENOENT] {
                for size in [40u32, 200, 4096] {
                    for tr in [Tr::Sep(size as usize + 16), Tr::Chan, virt_simple(size as usize + 16, false)] {
                        if rep.mine(*idx) {
                            rep.eval();
                            rep.transitions += 1;
                            let mut c = wf_case(op);
                            c.f.insert("size", size as u64);
                            let bytes = c.req().bytes();
                            let mut ans = Answer::default();
                            ans.dirents = dirents.clone();
                            ans.dir_fail_after = Some((fail_after, errno));
                            let (ex, _log) = rig.run(&bytes, &tr, ans);
                            let results = rig.fs.dir_results();
                            let (recs, mut problems) = client_view(&tr, &ex);
                            let opn = ops::op_name(op);
                            // the filesystem fails only if the walk got as far as entry `fail_after`
                            let reached = results.len() >= fail_after && results.iter().all(|(_, r)| matches!(r, Ok(n) if *n > 0));
                            if recs.len() != 1 {
                                problems.push(("reply-count".into(), format!("{} replies", recs.len())));
                            } else if let Ok(r) = wire::parse_reply(&recs[0]) {
                                if reached {
                                    if r.error != -errno || !r.body.is_empty() {
                                        problems.push(("error-swallowed".into(), format!("the filesystem failed with errno {} after accepting {} entries; the reply says error {} with {} bytes of entries", errno, fail_after, r.error, r.body.len())));
                                    }
                                } else if r.error != 0 {
                                    problems.push(("unexpected-error".into(), format!("error {} although the walk stopped (buffer full) before the fault", r.error)));
                                }
                            }
                            rep.outcome(&format!("{}:dir-fault:{}:{}", opn, if reached { "fault-reached" } else { "full-before-fault" }, if problems.is_empty() { "ok" } else { "MISMATCH" }));
                            rep.state_of(&("dir-fault", op, fail_after, errno, size, tr.label()));
                            for (class, msg) in problems {
                                rep.violation(&format!("C03/{}/dir-{}", opn, class), &msg, || json!({"engine": "c03-dir-fault", "op": opn, "size": size, "fail_after": fail_after, "errno": errno, "transport": tr.to_replay()}));
                            }
                        }
                        *idx += 1;
                    }
                }
            }
        }
    }
    // the production channel with its fixed buffer
    for plus in [false, true] {
        let op = if plus { k::FUSE_READDIRPLUS } else { k::FUSE_READDIR };
        let dirents = mk(&(1..=24).collect::<Vec<_>>());
        for size in [0u32, 24, 31, 32, 100, 4096, 65536] {
            if rep.mine(*idx) {
                c03_dir_one(rig, rep, op, plus, &dirents, size, &Tr::Chan, 16, true);
            }
            *idx += 1;
        }
    }
}

#[allow(clippy::too_many_arguments)]
fn c03_dir_one(rig: &mut Rig, rep: &mut Report, op: u64, plus: bool, dirents: &[DirAns], size: u32, tr: &Tr, slack: usize, propagate: bool) {
    rep.eval();
    rep.transitions += 1;
    let mut c = wf_case(op);
    c.f.insert("size", size as u64);
    let bytes = c.req().bytes();
    let mut ans = Answer::default();
    ans.dirents = dirents.to_vec();
    ans.dir_propagate_err = propagate;
    let (ex, _log) = rig.run(&bytes, tr, ans);
    let results = rig.fs.dir_results();
    let (recs, mut problems) = client_view(tr, &ex);
    let opn = ops::op_name(op);
    if let Some(p) = &ex.panic {
        problems.push(("panic".into(), p.clone()));
    }
    let eo = if plus { k::FUSE_ENTRY_OUT.size } else { 0 };
    let reclen = |d: &DirAns| (eo + 24 + d.name.len() + 7) & !7;
    // what fits by the kernel's rule
    let mut used = 0usize;
    let mut fit = 0usize;
    for d in dirents {
        if used + reclen(d) <= size as usize {
            used += reclen(d);
            fit += 1;
        } else {
            break;
        }
    }
    let mut delivered = 0usize;
    if recs.len() > 1 {
        problems.push(("reply-count".into(), format!("{} replies", recs.len())));
    } else if recs.is_empty() {
        if slack >= 16 {
            problems.push(("no-reply".into(), format!("no reply although the reply area holds header + size ({}+{})", 16, size)));
        }
    } else {
        match wire::parse_reply(&recs[0]) {
            Err(e) => problems.push(("short-reply".into(), e)),
            Ok(r) => {
                if r.len as usize != recs[0].len() {
                    problems.push(("framing".into(), format!("len {} for {} bytes", r.len, recs[0].len())));
                }
                if r.error != 0 {
                    if slack >= 16 {
                        problems.push(("unexpected-error".into(), format!("error {} although the filesystem succeeded and the area holds header + size", r.error)));
                    }
                } else {
                    if r.body.len() > size as usize {
                        problems.push(("exceeds-size".into(), format!("{} bytes of entries for requested size {}", r.body.len(), size)));
                    }
                    match wire::parse_dirents(&r.body, plus) {
                        Err(e) => problems.push(("partial-entry".into(), e)),
                        Ok(got) => {
                            delivered = got.len();
                            for (i, g) in got.iter().enumerate() {
                                let d = match dirents.get(i) {
                                    Some(d) => d,
                                    None => {
                                        problems.push(("extra-entry".into(), format!("entry {} was never produced", i)));
                                        break;
                                    }
                                };
                                if g.ino != d.ino || g.off != d.off || g.typ != d.typ || g.name != d.name {
                                    problems.push(("entry-mismatch".into(), format!("entry {}: got ino={:#x} off={:#x} type={} name={:?}", i, g.ino, g.off, g.typ, String::from_utf8_lossy(&g.name))));
                                    break;
                                }
                                if let Some(eb) = &g.entry {
                                    for (n, v) in expect_entry(&d.entry) {
                                        let f = k::FUSE_ENTRY_OUT.f(&n);
                                        let mask = if f.size >= 8 { u64::MAX } else { (1u64 << (8 * f.size)) - 1 };
                                        if wire::get_at(eb, f.off, f.size) != (v & mask) {
                                            problems.push((format!("plus-field:{}", n), format!("entry {}: fuse_entry_out.{} differs", i, n)));
                                        }
                                    }
                                }
                            }
                            if slack >= 16 && delivered != fit.min(dirents.len()) {
                                problems.push(("entry-count".into(), format!("{} entries delivered, {} fit into size {}", delivered, fit, size)));
                            }
                        }
                    }
                }
            }
        }
    }
    // the backend must be told "full" exactly when the next entry did not fit
    if slack >= 16 {
        for (i, res) in &results {
            let should_fit = *i < fit;
            match res {
                Ok(n) if *n > 0 && !should_fit => problems.push(("accepted-overflow".into(), format!("entry {} accepted although it does not fit", i))),
                Ok(0) if should_fit => problems.push(("refused-fitting".into(), format!("entry {} refused although it fits", i))),
                Err(e) => problems.push(("add-entry-error".into(), format!("add_entry({}) failed with {}", i, e))),
                _ => {}
            }
        }
    }
    rep.outcome(&format!("{}:dir:slack{}:{}", opn, slack.min(16), if problems.is_empty() { "ok" } else { "MISMATCH" }));
    rep.state_of(&(op, size, slack, dirents.len(), recs.first()));
    rep.sample(|| json!({"op": opn, "size": size, "slack": slack, "entries_scripted": dirents.len(), "entries_delivered": delivered, "transport": tr.label()}));
    for (class, msg) in problems {
        let cls = if slack >= 16 { class.clone() } else { format!("{}@area-smaller-than-header+size", class) };
        rep.violation(&format!("C03/{}/dir-{}", opn, cls), &msg, || {
            json!({"engine": "c03-dir", "op": opn, "size": size, "slack": slack, "propagate": propagate, "transport": tr.to_replay(),
                   "names": dirents.iter().map(|d| d.name.len()).collect::<Vec<_>>(), "add_entry_results": format!("{:?}", results),
                   "records": recs.iter().map(|r| hex(&r[..r.len().min(600)])).collect::<Vec<_>>(), "ret": format!("{:?}", ex.ret)})
        });
    }
}

fn c03_notify(rig: &mut Rig, rep: &mut Report, idx: &mut u64) {
    use fuse_backend_rs::transport::FuseDevWriter;
    let mut lens: Vec<usize> = (1..=16).collect();
    lens.extend([255, 1024]);
    let mut one = |rig: &mut Rig, rep: &mut Report, what: &str, f: &dyn Fn(&Server<Arc<ScriptFs>>, FuseDevWriter<'_, ()>) -> bool, code: u64, lay: Option<&'static k::Lay>, fields: Vec<(&str, u64)>, tail: Vec<u8>| {
        rep.eval();
        rep.transitions += 1;
        rig.dev.drain();
        let mut buf = vec![0u8; 8192];
        let fd = rig.dev.srv;
        let ok = {
            let w = FuseDevWriter::<()>::new(fd, &mut buf).unwrap();
            f(&rig.server, w)
        };
        let recs = rig.dev.drain();
        let mut problems: Vec<(String, String)> = vec![];
        if !ok {
            problems.push(("call-failed".into(), "notification call returned an error".into()));
        }
        if recs.len() != 1 {
            problems.push(("write-calls".into(), format!("{} write calls", recs.len())));
        } else if let Ok(r) = wire::parse_reply(&recs[0]) {
            let ssz = lay.map(|l| l.size).unwrap_or(0);
            if r.len as usize != recs[0].len() {
                problems.push(("length".into(), format!("header len {} for {} bytes written", r.len, recs[0].len())));
            }
            if r.unique != 0 || r.error as i64 != code as i64 {
                problems.push(("header".into(), format!("unique {} code {} (expected 0 / {})", r.unique, r.error, code)));
            }
            if r.body.len() != ssz + tail.len() {
                problems.push(("size".into(), format!("body {} bytes, kernel expects {}", r.body.len(), ssz + tail.len())));
            } else {
                if let Some(lay) = lay {
                    for (n, v) in &fields {
                        if wire::get(&r.body, lay, n) != *v {
                            problems.push((format!("field:{}", n), format!("{}.{} = {:#x}, expected {:#x}", lay.name, n, wire::get(&r.body, lay, n), v)));
                        }
                    }
                }
                if r.body[ssz..] != tail[..] {
                    problems.push(("name".into(), "name bytes differ".into()));
                }
            }
        } else {
            problems.push(("short".into(), "notification shorter than a header".into()));
        }
        rep.outcome(&format!("notify:{}:{}", what, if problems.is_empty() { "ok" } else { "MISMATCH" }));
        rep.state_of(&(what, recs.first()));
        for (class, msg) in problems {
            rep.violation(&format!("C03/notify-{}/{}", what, class), &msg, || json!({"engine": "c03-notify", "what": what, "records": recs.iter().map(|r| hex(r)).collect::<Vec<_>>()}));
        }
    };
    for l in lens {
        for parent in [1u64, 0xA1A2_A3A4_A5A6_A7A8, u64::MAX] {
            if rep.mine(*idx) {
                let name = std::ffi::CString::new(name_of(l, 5)).unwrap();
                let n2 = name.clone();
                one(
                    rig,
                    rep,
                    "inval_entry",
                    &move |s, w| s.notify_inval_entry(w, parent, &n2).is_ok(),
                    k::FUSE_NOTIFY_INVAL_ENTRY,
                    Some(&k::FUSE_NOTIFY_INVAL_ENTRY_OUT),
                    vec![("parent", parent), ("namelen", l as u64), ("flags", 0)],
                    name.as_bytes_with_nul().to_vec(),
                );
            }
            *idx += 1;
        }
    }
    for ino in [1u64, 0xB1B2_B3B4_B5B6_B7B8] {
        for off in [0u64, 1, 1 << 40, i64::MAX as u64, u64::MAX] {
            for len in [0u64, 1, 4096, i64::MAX as u64, u64::MAX] {
                if rep.mine(*idx) {
                    one(
                        rig,
                        rep,
                        "inval_inode",
                        &move |s, w| s.notify_inval_inode(w, ino, off, len).is_ok(),
                        k::FUSE_NOTIFY_INVAL_INODE,
                        Some(&k::FUSE_NOTIFY_INVAL_INODE_OUT),
                        vec![("ino", ino), ("off", off), ("len", len)],
                        vec![],
                    );
                }
                *idx += 1;
            }
        }
    }
    if rep.mine(*idx) {
        one(rig, rep, "resend", &|s, w| s.notify_resend(w).is_ok(), k::FUSE_NOTIFY_RESEND, None, vec![], vec![]);
    }
    *idx += 1;
}

pub fn c03(args: &Args) -> Report {
    let mut rep = args.report();
    let mut rig = Rig::new();
    let thorough = args.thorough();
    let mut idx = 0u64;
    let trs = c03_transports();
    let reply_ops: Vec<u64> = ops::ALL_OPS.iter().copied().filter(|o| ops::wants_reply(*o) && *o != k::FUSE_INIT && *o != k::FUSE_COPY_FILE_RANGE && *o != k::FUSE_READDIR && *o != k::FUSE_READDIRPLUS && *o != k::FUSE_DESTROY).collect();
    // successful results: DEV(2) over the result fields
    let all_trs = trs.clone();
    for &op in &reply_ops {
        let dims = res_dims(op);
        let base = base_answer();
        // the DAX window requests only exist on virtio-fs with a cache window attached
        let trs: Vec<Tr> = if matches!(op, k::FUSE_SETUPMAPPING | k::FUSE_REMOVEMAPPING) { all_trs.iter().filter(|t| t.has_cache()).cloned().collect() } else { all_trs.clone() };
        for tr in &trs {
            if rep.mine(idx) {
                c03_check_ok(&mut rig, &mut rep, op, &base, tr, &[]);
            }
            idx += 1;
        }
        for d in &dims {
            for &v in &d.alts {
                let mut a = base.clone();
                (d.set)(&mut a, v);
                for tr in &trs {
                    if rep.mine(idx) {
                        c03_check_ok(&mut rig, &mut rep, op, &a, tr, &[(d.name, v)]);
                    }
                    idx += 1;
                }
            }
        }
        for i in 0..dims.len() {
            for j in (i + 1)..dims.len() {
                for &vi in &dims[i].alts {
                    for &vj in &dims[j].alts {
                        let mut a = base.clone();
                        (dims[i].set)(&mut a, vi);
                        (dims[j].set)(&mut a, vj);
                        let ntr = if thorough { trs.len() } else { 2 };
                        for tr in trs.iter().take(ntr) {
                            if rep.mine(idx) {
                                c03_check_ok(&mut rig, &mut rep, op, &a, tr, &[(dims[i].name, vi), (dims[j].name, vj)]);
                            }
                            idx += 1;
                        }
                    }
                }
            }
        }
    }
    // differential clause: one Entry, every entry-carrying reply path, identical bytes
    let entry_ops = [k::FUSE_LOOKUP, k::FUSE_MKNOD, k::FUSE_MKDIR, k::FUSE_SYMLINK, k::FUSE_LINK, k::FUSE_CREATE];
    let dims = stat_dims_entry();
    let mut variants: Vec<(Vec<(&str, u64)>, Answer)> = vec![(vec![], base_answer())];
    for d in &dims {
        for &v in &d.alts {
            let mut a = base_answer();
            (d.set)(&mut a, v);
            variants.push((vec![(d.name, v)], a));
        }
    }
    for (devs, a) in &variants {
        if rep.mine(idx) {
            let mut enc: Vec<(String, Vec<u8>)> = Vec::new();
            for &op in &entry_ops {
                if let Some(b) = c03_check_ok(&mut rig, &mut rep, op, a, &Tr::Sep(8192), devs) {
                    enc.push((ops::op_name(op), b));
                }
            }
            // READDIRPLUS carries the same entry
            let mut c = wf_case(k::FUSE_READDIRPLUS);
            c.f.insert("size", 4096);
            let mut ans = Answer::default();
            ans.dirents = vec![DirAns { ino: 5, off: 6, typ: 4, name: b"x".to_vec(), entry: a.entry }];
            let (ex, _) = rig.run(&c.req().bytes(), &Tr::Sep(8192), ans);
            rep.eval();
            rep.transitions += 1;
            if let Some(r) = ex.records.first().and_then(|r| wire::parse_reply(r).ok()) {
                if let Ok(ds) = wire::parse_dirents(&r.body, true) {
                    if let Some(d) = ds.first() {
                        enc.push(("FUSE_READDIRPLUS".into(), d.entry.clone().unwrap()));
                    }
                }
            }
            for (name, b) in &enc[1..] {
                if *b != enc[0].1 {
                    rep.violation(&format!("C03/{}/entry-encoding-differs-from-FUSE_LOOKUP", name), &format!("the same Entry is encoded differently by {} and {}", enc[0].0, name), || {
                        json!({"engine": "c03-diff", "deviations": devs, "lookup": hex(&enc[0].1), "other": hex(b), "op": name})
                    });
                }
            }
            rep.outcome(&format!("entry-differential:{}", enc.len()));
        }
        idx += 1;
    }
    // negative entries (inode 0 with timeouts): a cacheable "does not exist" for every protocol version from 7.4,
    // ENOENT before that; the version is the one negotiated by an INIT on the same server (none: the library's own)
    for minor in [None, Some(0u32), Some(3), Some(4), Some(5), Some(8), Some(9), Some(22), Some(23), Some(31), Some(32), Some(33), Some(38), Some(u32::MAX)] {
        for tr in [Tr::Sep(8192), virt_simple(8192, false)] {
            if rep.mine(idx) {
                rep.eval();
                rep.transitions += 2;
                rig.fresh_server();
                if let Some(m) = minor {
                    let _ = rig.run(&init_req(7, m, u64::MAX & !(1 << 31), Ext::Present, 0x20000), &tr, Answer::default());
                }
                let c = wf_case(k::FUSE_LOOKUP);
                let (ex, _log) = rig.run(&c.req().bytes(), &tr, Script::Negative.answer());
                let (recs, mut problems) = client_view(&tr, &ex);
                let old = matches!(minor, Some(m) if m < 4);
                match recs.first().map(|r| wire::parse_reply(r)) {
                    Some(Ok(r)) => {
                        if old {
                            if r.error != -libc::ENOENT || !r.body.is_empty() {
                                problems.push(("negative-entry-before-7.4".into(), format!("minor {:?}: a negative entry must be answered with ENOENT, got error {} with {} body bytes", minor, r.error, r.body.len())));
                            }
                        } else if r.error != 0 || r.body.len() != k::FUSE_ENTRY_OUT.size {
                            problems.push(("negative-entry".into(), format!("minor {:?}: a negative entry (inode 0, entry timeout 3.25 s) was answered with error {} and {} body bytes instead of a fuse_entry_out with nodeid 0", minor, r.error, r.body.len())));
                        } else {
                            let g = |f: &str| wire::get(&r.body, &k::FUSE_ENTRY_OUT, f);
                            if g("nodeid") != 0 || g("entry_valid") != 3 || g("entry_valid_nsec") != 250_000_000 || g("attr_valid") != 7 || g("attr_valid_nsec") != 5 {
                                problems.push(("negative-entry-fields".into(), format!("minor {:?}: nodeid {} entry_valid {}.{} attr_valid {}.{}", minor, g("nodeid"), g("entry_valid"), g("entry_valid_nsec"), g("attr_valid"), g("attr_valid_nsec"))));
                            }
                        }
                    }
                    other => problems.push(("no-reply".into(), format!("minor {:?}: {:?}", minor, other.map(|x| x.map(|y| y.error))))),
                }
                rep.outcome(&format!("negative-entry:{}:{}", if old { "before-7.4" } else { "7.4+" }, if problems.is_empty() { "ok" } else { "MISMATCH" }));
                rep.state_of(&("negative-entry", minor, tr.label()));
                for (class, msg) in problems {
                    rep.violation(&format!("C03/FUSE_LOOKUP/{}", class), &msg, || json!({"engine": "c03-negative", "minor": minor, "transport": tr.to_replay()}));
                }
                rig.fresh_server();
            }
            idx += 1;
        }
    }
    // errors: every errno and every non-OS kind on every replying opcode
    let mut fails: Vec<Fail> = (1..=133).map(Fail::Errno).collect();
    fails.push(Fail::Errno(4095));
    fails.extend(all_kinds().into_iter().map(Fail::Kind));
    let mut err_ops = reply_ops.clone();
    err_ops.extend([k::FUSE_READDIR, k::FUSE_READDIRPLUS, k::FUSE_NOTIFY_REPLY]);
    for &op in &err_ops {
        let trs: Vec<Tr> = if matches!(op, k::FUSE_SETUPMAPPING | k::FUSE_REMOVEMAPPING) { trs.iter().filter(|t| t.has_cache()).cloned().collect() } else { trs.clone() };
        for f in &fails {
            let ntr = if thorough { trs.len() } else { 2 };
            for tr in trs.iter().take(ntr) {
                if rep.mine(idx) {
                    c03_check_err(&mut rig, &mut rep, op, f, tr);
                }
                idx += 1;
            }
        }
    }
    c03_dir(&mut rig, &mut rep, &mut idx, thorough);
    c03_notify(&mut rig, &mut rep, &mut idx);
    rep.set("total_cases_all_shards", json!(idx));
    rep.set("deviation_bound_completed", json!(2));
    rep
}

// ------------------------------------------------------------------------------------------------
// C12: INIT negotiation

use fuse_backend_rs::abi::fuse_abi::FsOptions;
use fuse_backend_rs::api::{Vfs, VfsOptions};

#[derive(Clone, Copy, Debug, PartialEq, Eq)]
pub enum Ext {
    Present,
    Absent,
    Truncated,
}

fn init_req(major: u32, minor: u32, flags64: u64, ext: Ext, readahead: u32) -> Vec<u8> {
    let mut b = vec![0u8; k::FUSE_INIT_IN.size];
    wire::put(&mut b, &k::FUSE_INIT_IN, "major", major as u64);
    wire::put(&mut b, &k::FUSE_INIT_IN, "minor", minor as u64);
    wire::put(&mut b, &k::FUSE_INIT_IN, "max_readahead", readahead as u64);
    wire::put(&mut b, &k::FUSE_INIT_IN, "flags", flags64 & 0xffff_ffff);
    wire::put(&mut b, &k::FUSE_INIT_IN, "flags2", flags64 >> 32);
    match ext {
        Ext::Present => {}
        Ext::Absent => b.truncate(16),
        Ext::Truncated => b.truncate(16 + 20),
    }
    Req::new(k::FUSE_INIT, 1, b).unique(0x1234_5678_9abc_def0).bytes()
}

/// What the client effectively offered, as the protocol defines it: the high word counts only
/// when FUSE_INIT_EXT is set and the extended payload is there.
fn effective_capable(flags64: u64, ext: Ext) -> u64 {
    let lo = flags64 & 0xffff_ffff;
    if lo & k::FUSE_INIT_EXT != 0 {
        if ext == Ext::Present {
            flags64
        } else {
            lo & !k::FUSE_INIT_EXT
        }
    } else {
        lo
    }
}

pub struct InitReply {
    pub error: i32,
    pub body_len: usize,
    pub major: u32,
    pub minor: u32,
    pub flags64: u64,
    pub flags_lo: u32,
    pub max_write: u32,
    pub max_pages: u32,
    pub max_readahead: u32,
}

fn parse_init(rec: &[u8]) -> Result<InitReply, String> {
    let r = wire::parse_reply(rec)?;
    let mut b = r.body.clone();
    let n = b.len();
    b.resize(k::FUSE_INIT_OUT.size.max(n), 0);
    let g = |f: &str| wire::get(&b, &k::FUSE_INIT_OUT, f);
    Ok(InitReply {
        error: r.error,
        body_len: n,
        major: g("major") as u32,
        minor: g("minor") as u32,
        flags_lo: g("flags") as u32,
        flags64: g("flags") | (g("flags2") << 32),
        max_write: g("max_write") as u32,
        max_pages: g("max_pages") as u32,
        max_readahead: g("max_readahead") as u32,
    })
}

#[allow(clippy::too_many_arguments)]
fn c12_server_case(rig: &mut Rig, rep: &mut Report, major: u32, minor: u32, flags64: u64, ext: Ext, want: u64, fail: bool, tr: &Tr) {
    rep.eval();
    rep.transitions += 1;
    rig.fresh_server();
    let req = init_req(major, minor, flags64, ext, 0x20000);
    let mut ans = Answer::default();
    ans.want = want;
    if fail {
        ans.fail = Some(Fail::Errno(libc::EACCES));
    }
    let (ex, log) = rig.run(&req, tr, ans);
    let (recs, mut problems) = client_view(tr, &ex);
    if let Some(p) = &ex.panic {
        problems.push(("panic".into(), p.clone()));
    }
    let known = FsOptions::all().bits();
    let eff = effective_capable(flags64, ext);
    let mut outcome = "no-reply".to_string();
    if recs.len() != 1 {
        problems.push(("reply-count".into(), format!("{} replies to INIT", recs.len())));
    } else {
        match parse_init(&recs[0]) {
            Err(e) => problems.push(("short-reply".into(), e)),
            Ok(r) => {
                if major < 7 {
                    outcome = format!("major<7:err{}", r.error);
                    if r.error != -libc::EPROTO {
                        problems.push(("major-mismatch".into(), format!("major {} answered with error {}", major, r.error)));
                    }
                    if !log.is_empty() {
                        problems.push(("major-mismatch".into(), "filesystem initialised for an unsupported major".into()));
                    }
                } else if major > 7 {
                    outcome = "major>7:version-only".to_string();
                    if r.error != 0 || r.major != 7 || r.flags64 != 0 || r.max_write != 0 {
                        problems.push(("major-mismatch".into(), format!("major {} must be answered with major 7 and nothing else (error {}, major {}, flags {:#x})", major, r.error, r.major, r.flags64)));
                    }
                    if !log.is_empty() {
                        problems.push(("major-mismatch".into(), "filesystem initialised before the client downgraded".into()));
                    }
                } else if fail {
                    outcome = format!("init-failed:err{}", r.error);
                    if r.error != -libc::EACCES {
                        problems.push(("init-error".into(), format!("filesystem init failed with EACCES, reply error {}", r.error)));
                    }
                } else {
                    let expect_len = if minor < 5 { 8 } else if minor < 23 { 24 } else { 64 };
                    outcome = format!("negotiated:len{}", r.body_len);
                    if r.error != 0 {
                        problems.push(("unexpected-error".into(), format!("error {}", r.error)));
                    } else {
                        if r.body_len != expect_len {
                            problems.push(("reply-size".into(), format!("minor {} answered with {} bytes, the client expects {}", minor, r.body_len, expect_len)));
                        }
                        if r.major != 7 {
                            problems.push(("version".into(), format!("reply major {}", r.major)));
                        }
                        if log != vec![format!("init capable={:#x}", eff & known)] {
                            problems.push(("capable".into(), format!("client offered {:#x} (effective {:#x}), filesystem saw {:?}", flags64, eff & known, log)));
                        }
                        if r.body_len >= 24 {
                            let full = if r.body_len >= 64 { r.flags64 } else { r.flags_lo as u64 };
                            let expect = eff & want & known;
                            let visible = if r.body_len >= 64 { expect } else { expect & 0xffff_ffff };
                            // FUSE_INIT_EXT marks the encoding (flags2 valid); it is compared separately
                            let m = !k::FUSE_INIT_EXT;
                            if full & m != visible & m {
                                problems.push(("intersection".into(), format!("capable {:#x} want {:#x}: reply enables {:#x}, intersection is {:#x}", eff, want, full, visible)));
                            }
                            if full & k::FUSE_INIT_EXT != 0 && eff & k::FUSE_INIT_EXT == 0 {
                                problems.push(("ext-marker-not-offered".into(), format!("reply sets FUSE_INIT_EXT, the client did not offer it (capable {:#x})", eff)));
                            }
                            if full & k::FUSE_INIT_EXT == 0 && visible & k::FUSE_INIT_EXT != 0 {
                                problems.push(("intersection".into(), format!("both sides asked for FUSE_INIT_EXT, reply {:#x} lacks it", full)));
                            }
                            if r.body_len >= 64 && (r.flags64 >> 32) != 0 && (r.flags_lo as u64 & k::FUSE_INIT_EXT) == 0 {
                                problems.push(("ext-marker".into(), format!("flags2 {:#x} set without FUSE_INIT_EXT in flags {:#x}: the client ignores flags2", r.flags64 >> 32, r.flags_lo)));
                            }
                            let enabled = expect;
                            if r.max_write > (1 << 20) {
                                problems.push(("max-write".into(), format!("max_write {} exceeds the 1 MiB request buffer", r.max_write)));
                            }
                            if r.max_write < 4096 {
                                problems.push(("max-write".into(), format!("max_write {} below one page", r.max_write)));
                            }
                            if r.body_len >= 64 && enabled & k::FUSE_MAX_PAGES != 0 && (r.max_pages as u64) * 4096 < r.max_write as u64 {
                                problems.push(("max-pages".into(), format!("max_pages {} does not cover max_write {}", r.max_pages, r.max_write)));
                            }
                            if enabled & (k::FUSE_MAX_PAGES | k::FUSE_BIG_WRITES) == 0 && r.max_write != 4096 {
                                problems.push(("max-write".into(), format!("max_write {} without BIG_WRITES/MAX_PAGES", r.max_write)));
                            }
                            if r.max_readahead > 0x20000 {
                                problems.push(("readahead".into(), format!("max_readahead {} larger than offered", r.max_readahead)));
                            }
                        }
                    }
                }
            }
        }
    }
    rep.outcome(&format!("init:{}:{}", outcome, if problems.is_empty() { "ok" } else { "MISMATCH" }));
    rep.state_of(&(major, minor, flags64, ext as u8, want, fail));
    rep.sample(|| json!({"major": major, "minor": minor, "flags": format!("{:#x}", flags64), "ext": format!("{:?}", ext), "want": format!("{:#x}", want), "transport": tr.label(), "outcome": outcome}));
    for (class, msg) in problems {
        rep.violation(&format!("C12/server/{}", class), &msg, || {
            json!({"engine": "c12-server", "major": major, "minor": minor, "flags64": format!("{:#x}", flags64), "ext": format!("{:?}", ext), "want": format!("{:#x}", want),
                   "fs_fails": fail, "transport": tr.to_replay(), "request_hex": hex(&req), "records": recs.iter().map(|r| hex(r)).collect::<Vec<_>>()})
        });
    }
}

const RELEVANT: [u64; 12] = [
    k::FUSE_INIT_EXT, k::FUSE_BIG_WRITES, k::FUSE_MAX_PAGES, k::FUSE_ATOMIC_O_TRUNC, k::FUSE_WRITEBACK_CACHE,
    k::FUSE_NO_OPEN_SUPPORT, k::FUSE_NO_OPENDIR_SUPPORT, k::FUSE_HANDLE_KILLPRIV_V2, k::FUSE_DO_READDIRPLUS,
    k::FUSE_HAS_INODE_DAX, k::FUSE_HAS_RESEND, 1u64 << 63,
];

fn subset(bits: &[u64], mask: usize) -> u64 {
    bits.iter().enumerate().filter(|(i, _)| mask >> i & 1 == 1).fold(0, |a, (_, b)| a | b)
}

/// The VFS layer: switches x offered capabilities, then behaviour probes.
fn c12_vfs(rep: &mut Report, idx: &mut u64, dev: &mut FuseDev) {

    let bits = [k::FUSE_NO_OPEN_SUPPORT, k::FUSE_NO_OPENDIR_SUPPORT, k::FUSE_WRITEBACK_CACHE, k::FUSE_HANDLE_KILLPRIV_V2, k::FUSE_ATOMIC_O_TRUNC, k::FUSE_HAS_INODE_DAX | k::FUSE_INIT_EXT];
    for sw in 0..16usize {
        for cm in 0..(1usize << bits.len()) {
            if rep.mine(*idx) {
                rep.eval();
                let (no_open, no_opendir, no_writeback, killpriv) = (sw & 1 != 0, sw & 2 != 0, sw & 4 != 0, sw & 8 != 0);
                let opts = VfsOptions { no_open, no_opendir, no_writeback, killpriv_v2: killpriv, ..VfsOptions::default() };
                let want_cfg = opts.out_opts.bits();
                let vfs = Arc::new(Vfs::new(opts));
                let server = Server::new(vfs.clone());
                let capable = subset(&bits, cm) | k::FUSE_ASYNC_READ | k::FUSE_BIG_WRITES;
                let mut problems: Vec<(String, String)> = vec![];
                let send = |dev: &mut FuseDev, req: &[u8]| -> Option<wire::Reply> {
                    let ex = dev.via_sep(&server, req, 8192);
                    ex.records.first().and_then(|r| wire::parse_reply(r).ok())
                };
                rep.transitions += 4;
                let r = dev.via_sep(&server, &init_req(7, 36, capable, Ext::Present, 4096), 8192);
                rep.transitions += 1;
                let enabled = match r.records.first().map(|x| parse_init(x)) {
                    Some(Ok(ir)) if ir.error == 0 => ir.flags64,
                    other => {
                        problems.push(("init-failed".into(), format!("INIT not answered with success: {:?}", other.map(|x| x.map(|y| y.error)))));
                        0
                    }
                };
                // the VFS may only enable what the client offered and its configuration allows
                let allowed = capable & want_cfg
                    & !(if no_open { 0 } else { k::FUSE_NO_OPEN_SUPPORT })
                    & !(if no_opendir { 0 } else { k::FUSE_NO_OPENDIR_SUPPORT })
                    & !(if no_writeback { k::FUSE_WRITEBACK_CACHE } else { 0 })
                    & !(if killpriv { 0 } else { k::FUSE_HANDLE_KILLPRIV_V2 });
                let allowed = allowed | (capable & k::FUSE_INIT_EXT);
                if enabled & !allowed != 0 {
                    problems.push(("enabled-not-allowed".into(), format!("enabled {:#x} contains {:#x} which the client or the configuration excludes", enabled, enabled & !allowed)));
                }
                if enabled & k::FUSE_NO_OPEN_SUPPORT != 0 && enabled & k::FUSE_ATOMIC_O_TRUNC != 0 {
                    problems.push(("no-open-with-atomic-trunc".into(), format!("enabled {:#x}", enabled)));
                }
                if (enabled >> 32) != 0 && enabled & k::FUSE_INIT_EXT == 0 {
                    problems.push(("ext-marker".into(), format!("enabled {:#x}: high bits without FUSE_INIT_EXT, the client ignores them", enabled)));
                }
                // behaviour follows the negotiation
                let mut c = wf_case(k::FUSE_OPEN);
                c.nodeid = 1;
                c.f.insert("flags", 0);
                let open = send(dev, &c.req().bytes());
                let mut c2 = wf_case(k::FUSE_OPENDIR);
                c2.nodeid = 1;
                c2.f.insert("flags", 0);
                let opendir = send(dev, &c2.req().bytes());
                let enosys = |r: &Option<wire::Reply>| r.as_ref().map(|x| x.error == -libc::ENOSYS).unwrap_or(false);
                if enosys(&open) != (enabled & k::FUSE_NO_OPEN_SUPPORT != 0) {
                    problems.push(("no-open-behaviour".into(), format!("OPEN answered {:?} although zero-message-open negotiated = {}", open.as_ref().map(|x| x.error), enabled & k::FUSE_NO_OPEN_SUPPORT != 0)));
                }
                if enosys(&opendir) != (enabled & k::FUSE_NO_OPENDIR_SUPPORT != 0) {
                    problems.push(("no-opendir-behaviour".into(), format!("OPENDIR answered {:?} although zero-message-opendir negotiated = {}", opendir.as_ref().map(|x| x.error), enabled & k::FUSE_NO_OPENDIR_SUPPORT != 0)));
                }
                // a second INIT is refused and changes nothing: neither the behaviour nor the negotiation the VFS keeps
                // (options(), what later mounts are initialised with, what a snapshot saves). Tried with a capability
                // word that offers everything and with one that offers next to nothing.
                let opts_before = format!("{:?}", vfs.options());
                for second in [u64::MAX & !(1 << 31), k::FUSE_ASYNC_READ] {
                    let r2 = dev.via_sep(&server, &init_req(7, 36, second, Ext::Present, 4096), 8192);
                    rep.transitions += 1;
                    match r2.records.first().map(|x| parse_init(x)) {
                        Some(Ok(ir)) if ir.error < 0 => {}
                        other => problems.push(("second-init-accepted".into(), format!("second INIT answered {:?}", other.map(|x| x.map(|y| y.error))))),
                    }
                    let open2 = send(dev, &c.req().bytes());
                    let opendir2 = send(dev, &c2.req().bytes());
                    if enosys(&open2) != enosys(&open) || enosys(&opendir2) != enosys(&opendir) {
                        problems.push(("second-init-changed-behaviour".into(), "OPEN/OPENDIR behave differently after a refused second INIT".into()));
                    }
                    let opts_after = format!("{:?}", vfs.options());
                    if opts_after != opts_before {
                        problems.push(("second-init-changed-options".into(), format!("a refused second INIT (capabilities {:#x}) changed the stored negotiation from {} to {}", second, opts_before, opts_after)));
                    }
                }
                rep.outcome(&format!("vfs:sw{}:{}", sw, if problems.is_empty() { "ok" } else { "MISMATCH" }));
                rep.state_of(&("vfs", sw, cm, enabled));
                rep.sample(|| json!({"layer": "vfs", "no_open": no_open, "no_opendir": no_opendir, "no_writeback": no_writeback, "killpriv_v2": killpriv, "capable": format!("{:#x}", capable), "enabled": format!("{:#x}", enabled)}));
                for (class, msg) in problems {
                    rep.violation(&format!("C12/vfs/{}", class), &msg, || {
                        json!({"engine": "c12-vfs", "no_open": no_open, "no_opendir": no_opendir, "no_writeback": no_writeback, "killpriv_v2": killpriv, "capable": format!("{:#x}", capable), "enabled": format!("{:#x}", enabled)})
                    });
                }
            }
            *idx += 1;
        }
    }
}

pub fn c12(args: &Args) -> Report {
    let mut rep = args.report();
    let mut rig = Rig::new();
    let thorough = args.thorough();
    let mut idx = 0u64;
    let minors: Vec<u32> = vec![0, 3, 4, 5, 22, 23, 27, 33, 35, 36, 38, u32::MAX];
    let trs = [Tr::Sep(4096), virt_simple(4096, false)];
    // every known option bit plus some undefined ones
    let mut bits: Vec<u64> = (0..64).map(|i| 1u64 << i).filter(|b| FsOptions::all().bits() & b != 0).collect();
    bits.extend([1u64 << 29, 1 << 31, 1 << 32, 1 << 36, 1 << 62]);
    let backgrounds: [(u64, u64); 4] = [(0, 0), (u64::MAX, u64::MAX), (u64::MAX, 0), (0, u64::MAX)];
    // part 1: majors and minors, with and without the extended payload, filesystem failing or not
    for major in [0u32, 6, 7, 8, u32::MAX] {
        for &minor in &minors {
            for ext in [Ext::Present, Ext::Absent, Ext::Truncated] {
                for (cap, want) in [(0u64, 0u64), (u64::MAX, u64::MAX), (0xffff_ffff, u64::MAX), (u64::MAX & !k::FUSE_INIT_EXT, u64::MAX)] {
                    for fail in [false, true] {
                        for tr in &trs {
                            if rep.mine(idx) {
                                c12_server_case(&mut rig, &mut rep, major, minor, cap, ext, want, fail, tr);
                            }
                            idx += 1;
                        }
                    }
                }
            }
        }
    }
    // part 2: DEV(2) over option bits: every pair of bits x all 16 (capable, want) assignments x 4 backgrounds
    let pair_minors: Vec<u32> = if thorough { vec![5, 22, 23, 36, u32::MAX] } else { vec![22, 36] };
    for i in 0..bits.len() {
        for j in i..bits.len() {
            for combo in 0..16u32 {
                if i == j && combo >= 4 {
                    continue;
                }
                for (bc, bw) in backgrounds {
                    let pair = bits[i] | bits[j];
                    let mut cap = bc & !pair;
                    let mut want = bw & !pair;
                    if combo & 1 != 0 {
                        cap |= bits[i];
                    }
                    if combo & 2 != 0 {
                        want |= bits[i];
                    }
                    if combo & 4 != 0 {
                        cap |= bits[j];
                    }
                    if combo & 8 != 0 {
                        want |= bits[j];
                    }
                    for &minor in &pair_minors {
                        for ext in [Ext::Present, Ext::Absent] {
                            if rep.mine(idx) {
                                c12_server_case(&mut rig, &mut rep, 7, minor, cap, ext, want, false, &trs[(idx % 2) as usize]);
                            }
                            idx += 1;
                        }
                    }
                }
            }
        }
    }
    // part 3: every subset of the twelve behaviour-relevant bits on both sides
    let step = if thorough { 1 } else { 7 };
    let mut cm = 0usize;
    while cm < 4096 {
        let mut wm = 0usize;
        while wm < 4096 {
            if rep.mine(idx) {
                c12_server_case(&mut rig, &mut rep, 7, 36, subset(&RELEVANT, cm), Ext::Present, subset(&RELEVANT, wm), false, &trs[0]);
            }
            idx += 1;
            wm += step;
        }
        cm += step;
    }
    // part 4: the VFS layer
    let mut dev = FuseDev::new();
    c12_vfs(&mut rep, &mut idx, &mut dev);
    // part 5: the passthrough (standalone, behind a Vfs) and overlay layers
    #[cfg(not(feature = "asyncio"))]
    crate::engines::ptfs_eng::c12_layers(&mut rep, &mut idx);
    rep.set("total_cases_all_shards", json!(idx));
    rep.set("option_bits", json!(bits.len()));
    rep
}

// ------------------------------------------------------------------------------------------------
// C17, part 2: whole requests through Server on a dirty-tracked guest memory (8-byte pages)

pub fn c17_requests(rep: &mut Report, thorough: bool) {
    use std::io::{Seek, SeekFrom, Write};
    use std::os::unix::io::{AsRawFd, FromRawFd};
    let fs = Arc::new(ScriptFs::new());
    let server = Server::new(fs.clone());
    let virt = Virtio::new(8, 1 << 16, 1 << 16);
    let mut src = unsafe {
        let fd = libc::memfd_create(b"fbrv-c17\0".as_ptr() as *const libc::c_char, 0);
        std::fs::File::from_raw_fd(fd)
    };
    let filedata = payload_of(300);
    src.write_all(&filedata).unwrap();
    src.seek(SeekFrom::Start(0)).unwrap();
    let mut idx = 0u64;
    // (label, opcode, size field, answer)
    let mut cases: Vec<(String, u64, u64, Answer)> = Vec::new();
    for (l, sz, dl) in [("read-buf", 64u64, 50usize), ("read-buf-exact", 50, 50), ("read-buf-empty", 64, 0), ("read-buf-200", 256, 200)] {
        let mut a = Answer::default();
        a.data = payload_of(dl);
        cases.push((l.into(), k::FUSE_READ, sz, a));
    }
    for (l, sz) in [("read-file-64", 64u64), ("read-file-300", 300), ("read-file-short", 400), ("read-file-0", 0)] {
        let mut a = Answer::default();
        a.read_from_fd = Some(src.as_raw_fd());
        a.data = filedata.clone();
        cases.push((l.into(), k::FUSE_READ, sz, a));
    }
    for (l, op, sz) in [("readdir", k::FUSE_READDIR, 120u64), ("readdirplus", k::FUSE_READDIRPLUS, 400), ("readdir-none-fit", k::FUSE_READDIR, 16)] {
        let mut a = Answer::default();
        a.dirents = (0..6).map(|i| DirAns { ino: 10 + i, off: 1 + i, typ: 8, name: name_of(3 + i as usize * 2, i as u8), entry: base_answer().entry }).collect();
        cases.push((l.into(), op, sz, a));
    }
    {
        let mut a = Answer::default();
        a.data = payload_of(33);
        cases.push(("getxattr-value".into(), k::FUSE_GETXATTR, 64, a.clone()));
        a.xattr_count = Some(33);
        cases.push(("getxattr-size".into(), k::FUSE_GETXATTR, 0, a));
    }
    cases.push(("lookup".into(), k::FUSE_LOOKUP, 0, base_answer()));
    cases.push(("getattr".into(), k::FUSE_GETATTR, 0, base_answer()));
    cases.push(("write".into(), k::FUSE_WRITE, 0, base_answer()));
    cases.push(("forget".into(), k::FUSE_FORGET, 0, base_answer()));
    {
        let mut a = Answer::default();
        a.fail = Some(Fail::Errno(libc::EIO));
        cases.push(("lookup-error".into(), k::FUSE_LOOKUP, 0, a.clone()));
        cases.push(("read-error".into(), k::FUSE_READ, 64, a.clone()));
        cases.push(("readdir-error".into(), k::FUSE_READDIR, 64, a));
    }
    let mut layouts: Vec<(Vec<usize>, Vec<usize>, usize)> = Vec::new();
    let wrs: Vec<Vec<usize>> = vec![vec![16, 1024], vec![1040], vec![15, 1, 1024], vec![16, 7, 0, 9, 1008], vec![8, 8, 8, 8, 1008], vec![3, 13, 100, 0, 924]];
    let aligns: Vec<usize> = if thorough { (0..8).collect() } else { vec![0, 1, 5, 7] };
    for wr in &wrs {
        for &al in &aligns {
            for cuts in [vec![], vec![40], vec![13, 41]] {
                layouts.push((cuts, wr.clone(), al));
            }
        }
    }
    for (label, op, size, ans) in &cases {
        for (cuts, wr, al) in &layouts {
            for gap in [0usize, 8, 13] {
                if !rep.mine(idx) {
                    idx += 1;
                    continue;
                }
                idx += 1;
                let mut c = wf_case(*op);
                if c.f.contains_key("size") {
                    c.f.insert("size", *size);
                }
                let req = c.req().bytes();
                // lay out with the writable area starting `al` bytes off a page boundary
                let (rd, mut wrs) = virt_layout(req.len(), cuts, wr, gap, true);
                for s in wrs.iter_mut() {
                    s.addr += *al as u64;
                }
                let mut written: Vec<bool> = Vec::new();
                let mut dirty: Vec<bool> = Vec::new();
                let mut addrs: Vec<u64> = Vec::new();
                let mut outs: Vec<String> = Vec::new();
                let mut problems: Vec<String> = Vec::new();
                for flip in [false, true] {
                    virt.flip.set(flip);
                    fs.reset(ans.clone());
                    src.seek(SeekFrom::Start(0)).unwrap();
                    let ex = virt.run(&server, &req, &rd, &wrs, false);
                    rep.transitions += 1;
                    if let Some(p) = &ex.panic {
                        problems.push(format!("panic: {}", p));
                    }
                    problems.extend(ex.problems.iter().cloned());
                    outs.push(format!("{:?}", ex.ret.as_ref().map_err(|_| "err")));
                    if written.is_empty() {
                        written = ex.area.iter().map(|x| x.1).collect();
                        dirty = ex.area.iter().map(|x| x.2).collect();
                        addrs = ex.area.iter().map(|x| x.0).collect();
                    } else {
                        for (i, x) in ex.area.iter().enumerate() {
                            written[i] = written[i] || x.1;
                            if dirty[i] != x.2 {
                                problems.push(format!("dirty bit of gpa {:#x} differs between two identical runs", x.0));
                                break;
                            }
                        }
                    }
                }
                virt.flip.set(false);
                rep.eval();
                let mut must: std::collections::BTreeSet<u64> = Default::default();
                for (i, w) in written.iter().enumerate() {
                    if *w {
                        must.insert(addrs[i] / 8);
                    }
                }
                let mut is: std::collections::BTreeSet<u64> = Default::default();
                for (i, d) in dirty.iter().enumerate() {
                    if *d {
                        is.insert(addrs[i] / 8);
                    }
                }
                let mut class = None;
                if let Some(pg) = must.difference(&is).next() {
                    class = Some(("modified-not-dirty", format!("page {:#x} was modified by the server and is not marked dirty", pg * 8)));
                } else if let Some(pg) = is.difference(&must).next() {
                    class = Some(("dirty-not-modified", format!("page {:#x} is marked dirty, the server modified nothing in it", pg * 8)));
                }
                rep.outcome(&format!("request:{}:{}:{}", label, outs[0], if class.is_none() && problems.is_empty() { "ok" } else { "VIOLATION" }));
                rep.state_of(&(label, cuts, wr, al, gap));
                rep.sample(|| json!({"request": label, "readable_cuts": cuts, "writable": wr, "align": al, "gap": gap, "modified_pages": must.len(), "dirty_pages": is.len()}));
                if let Some((cl, msg)) = class {
                    rep.violation(&format!("C17/request/{}/{}", ops::op_name(*op), cl), &msg, || {
                        json!({"engine": "c17-request", "request": label, "cuts": cuts, "wr": wr, "align": al, "gap": gap, "modified_pages": must.iter().map(|p| p * 8).collect::<Vec<_>>(), "dirty_pages": is.iter().map(|p| p * 8).collect::<Vec<_>>()})
                    });
                }
                for p in problems {
                    rep.violation(&format!("C17/request/{}/environment", ops::op_name(*op)), &p, || json!({"engine": "c17-request", "request": label, "cuts": cuts, "wr": wr, "align": al, "gap": gap}));
                }
            }
        }
    }
    rep.set("whole_request_cases_all_shards", json!(idx));
}
