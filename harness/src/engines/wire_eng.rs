//! Engine W: the wire level (C01, C02, C03, C12). Drives `Server<Arc<ScriptFs>>`.

use std::sync::Arc;

use fuse_backend_rs::api::server::Server;
use serde_json::{json, Value};

use crate::args::Args;
use crate::env::{segs, Exec, FuseDev, Seg, Virtio, A_BASE, B_BASE, PAD};
use crate::kabi as k;
use crate::ops::{self, Case, FK};
use crate::report::{hex, Report};
use crate::scriptfs::{Answer, ScriptFs};
use crate::wire::{self, Req};

/// Transport configuration of one execution.
#[derive(Clone, Debug, PartialEq, Eq, Hash)]
pub enum Tr {
    /// real FuseChannel::get_request (shared request/reply buffer)
    Chan,
    /// fusedev with separate buffers, reply capacity given
    Sep(usize),
    /// virtio-fs: readable segment lengths are derived from `cuts` (cut points of the request
    /// bytes, ascending; a repeated cut point gives a zero-length descriptor); writable segment
    /// lengths given; gap between descriptors; second region for the writable part
    Virt { cuts: Vec<usize>, wr: Vec<usize>, gap: usize, wr_in_b: bool, cache: bool },
}

impl Tr {
    pub fn label(&self) -> String {
        match self {
            Tr::Chan => "fusedev-channel".into(),
            Tr::Sep(c) => format!("fusedev-sep-cap{}", c),
            Tr::Virt { cuts, wr, gap, wr_in_b, cache } => {
                format!("virtio-cuts{:?}-wr{:?}-gap{}-{}{}", cuts, wr, gap, if *wr_in_b { "B" } else { "A" }, if *cache { "-dax" } else { "" })
            }
        }
    }
    pub fn capacity(&self) -> usize {
        match self {
            Tr::Chan => (1 << 20) + 4096,
            Tr::Sep(c) => *c,
            Tr::Virt { wr, .. } => wr.iter().sum(),
        }
    }
    pub fn is_virtio(&self) -> bool {
        matches!(self, Tr::Virt { .. })
    }
    pub fn has_cache(&self) -> bool {
        matches!(self, Tr::Virt { cache: true, .. })
    }
    pub fn to_json(&self) -> Value {
        json!(self.label())
    }
}

pub fn virt_simple(cap: usize, cache: bool) -> Tr {
    Tr::Virt { cuts: vec![], wr: vec![cap], gap: 0, wr_in_b: false, cache }
}

/// Lay a request of `n` bytes out as readable segments per `cuts`, writable per `wr`.
pub fn virt_layout(n: usize, cuts: &[usize], wr: &[usize], gap: usize, wr_in_b: bool) -> (Vec<Seg>, Vec<Seg>) {
    let mut lens = Vec::new();
    let mut prev = 0usize;
    for c in cuts {
        let c = (*c).min(n);
        lens.push(c - prev.min(c));
        prev = prev.max(c);
    }
    lens.push(n - prev);
    let rd = segs(A_BASE + PAD as u64, &lens, gap);
    let rd_end = rd.last().map(|s| s.addr + s.len as u64).unwrap_or(A_BASE + PAD as u64);
    let wbase = if wr_in_b { B_BASE + PAD as u64 } else { (rd_end + (gap + PAD) as u64 + 7) & !7 };
    let wrs = segs(wbase, wr, gap);
    (rd, wrs)
}

pub struct Rig {
    pub fs: Arc<ScriptFs>,
    pub server: Server<Arc<ScriptFs>>,
    pub dev: FuseDev,
    pub virt: Virtio,
}

impl Rig {
    pub fn new() -> Rig {
        let fs = Arc::new(ScriptFs::new());
        Rig { server: Server::new(fs.clone()), fs, dev: FuseDev::new(), virt: Virtio::new(1, 6 << 20, 3 << 20) }
    }
    pub fn fresh_server(&mut self) {
        self.server = Server::new(self.fs.clone());
    }
    pub fn run(&mut self, req: &[u8], tr: &Tr, ans: Answer) -> (Exec, Vec<String>) {
        self.fs.reset(ans);
        let ex = match tr {
            Tr::Chan => self.dev.via_channel(&self.server, req),
            Tr::Sep(cap) => self.dev.via_sep(&self.server, req, *cap),
            Tr::Virt { cuts, wr, gap, wr_in_b, cache } => {
                let (rd, wrs) = virt_layout(req.len(), cuts, wr, *gap, *wr_in_b);
                self.virt.run(&self.server, req, &rd, &wrs, *cache)
            }
        };
        (ex, self.fs.take_log())
    }
}

// ------------------------------------------------------------------------------------------------
// C02

fn dom_u64() -> Vec<u64> {
    vec![0, 1, (1 << 32) - 1, 1 << 32, 1 << 63, u64::MAX]
}
fn dom_u32() -> Vec<u64> {
    vec![0, 1, 1 << 31, u32::MAX as u64]
}

fn name_of(len: usize, salt: u8) -> Vec<u8> {
    (0..len).map(|i| b'a' + ((i as u8).wrapping_add(salt) % 26)).collect()
}

fn payload_of(len: usize) -> Vec<u8> {
    (0..len).map(|i| (i as u32).wrapping_mul(2654435761).to_le_bytes()[3] | 1).collect()
}

/// One dimension of a C02 case and the alternatives to its base value.
#[derive(Clone, Debug)]
pub enum Dim {
    Hdr(&'static str),
    Field(&'static str, FK),
    Name1,
    Name2,
    Payload,
    List,
}

fn dim_alts(d: &Dim, thorough: bool) -> Vec<u64> {
    match d {
        Dim::Hdr("unique") | Dim::Hdr("nodeid") => dom_u64(),
        Dim::Hdr(_) => dom_u32(),
        Dim::Field(_, FK::U64) => dom_u64(),
        Dim::Field(_, FK::U32) => dom_u32(),
        Dim::Field(_, FK::Pad) => vec![u32::MAX as u64],
        Dim::Field(_, FK::Flags(bits)) => {
            let mut v: Vec<u64> = bits.to_vec();
            v.push(bits.iter().fold(0, |a, b| a | b));
            v.push(u32::MAX as u64);
            v
        }
        Dim::Field(_, FK::Size) => vec![0, 1, 4096],
        Dim::Field(_, _) => vec![],
        Dim::Name1 | Dim::Name2 => {
            if thorough {
                let mut v: Vec<u64> = (1..=300).collect();
                v.extend([1023, 1024, 4095, 4096]);
                v
            } else {
                vec![1, 2, 7, 8, 9, 255, 256, 300, 4095, 4096]
            }
        }
        Dim::Payload => {
            if thorough {
                vec![0, 1, 2, 4095, 4096, 4097, 128 << 10, (1 << 20) - 1, 1 << 20]
            } else {
                vec![0, 1, 4095, 4096, 4097, 128 << 10, 1 << 20]
            }
        }
        Dim::List => vec![0, 1, 2, 64],
    }
}

fn dims_of(op: u64) -> Vec<Dim> {
    let mut d = vec![Dim::Hdr("unique"), Dim::Hdr("nodeid"), Dim::Hdr("uid"), Dim::Hdr("gid"), Dim::Hdr("pid")];
    for (n, kind) in ops::fields(op) {
        if !matches!(kind, FK::Len | FK::Count) {
            d.push(Dim::Field(n, kind));
        }
    }
    match ops::n_names(op) {
        0 => {}
        1 => d.push(Dim::Name1),
        _ => {
            d.push(Dim::Name1);
            d.push(Dim::Name2);
        }
    }
    if ops::has_payload(op) {
        d.push(Dim::Payload);
    }
    if ops::has_list(op) {
        d.push(Dim::List);
    }
    d
}

fn apply(c: &mut Case, d: &Dim, v: u64) {
    match d {
        Dim::Hdr("unique") => c.unique = v,
        Dim::Hdr("nodeid") => c.nodeid = v,
        Dim::Hdr("uid") => c.uid = v as u32,
        Dim::Hdr("gid") => c.gid = v as u32,
        Dim::Hdr("pid") => c.pid = v as u32,
        Dim::Hdr(_) => unreachable!(),
        Dim::Field(n, _) => {
            c.f.insert(n, v);
        }
        Dim::Name1 => c.name1 = name_of(v as usize, 3),
        Dim::Name2 => c.name2 = name_of(v as usize, 11),
        Dim::Payload => c.payload = payload_of(v as usize),
        Dim::List => c.list = (0..v).map(|i| (0x9000 + i, 0x100 + i)).collect(),
    }
}

fn c02_transports(op: u64) -> Vec<Tr> {
    let n = ops::struct_size(op);
    vec![
        Tr::Chan,
        Tr::Sep(2 << 20),
        virt_simple(8192, true),
        Tr::Virt { cuts: vec![40, 40 + n], wr: vec![16, 8192], gap: 8, wr_in_b: true, cache: true },
    ]
}

fn diff_key(exp: &str, got: &str) -> String {
    let e: Vec<&str> = exp.split(' ').collect();
    let g: Vec<&str> = got.split(' ').collect();
    if e.first() != g.first() {
        return format!("wrong-operation:{}", g.first().unwrap_or(&""));
    }
    for (a, b) in e.iter().zip(g.iter()) {
        if a != b {
            let key = a.split('=').next().unwrap_or(a);
            return format!("argument:{}", key);
        }
    }
    "argument:arity".to_string()
}

fn c02_check(rig: &mut Rig, rep: &mut Report, c: &Case, tr: &Tr, devs: &[(String, u64)]) {
    rep.eval();
    let req = c.req();
    let bytes = req.bytes();
    let mut ans = Answer::default();
    if matches!(c.op, k::FUSE_READ) {
        ans.data = vec![7u8; 8];
    }
    let (ex, log) = rig.run(&bytes, tr, ans);
    rep.transitions += 1;
    let cap = tr.capacity();
    let mut expected = c.expected_calls(tr.has_cache());
    // READDIR with a size beyond the reply buffer is refused before the filesystem is asked
    if matches!(c.op, k::FUSE_READDIR | k::FUSE_READDIRPLUS) && c.v("size") as usize > cap {
        expected.clear();
    }
    if c.op == k::FUSE_IOCTL && c.v("in_size") as usize > c.payload.len() {
        expected.clear();
    }
    let case_json = || {
        json!({"case": c.describe(), "deviations": devs, "transport": tr.to_json(), "request_hex": if bytes.len() <= 512 { hex(&bytes) } else { format!("{}.. ({} bytes)", hex(&bytes[..128]), bytes.len()) },
               "expected_calls": expected, "logged_calls": log, "ret": format!("{:?}", ex.ret)})
    };
    rep.outcome(&format!("{}:{}", ops::op_name(c.op), if log == expected { "decoded-as-expected" } else { "MISMATCH" }));
    rep.state_of(&(c.op, &log));
    if let Some(p) = &ex.panic {
        rep.violation(&format!("C02/{}/panic", ops::op_name(c.op)), &format!("panic: {}", p), case_json);
        return;
    }
    if log != expected {
        let class = if log.is_empty() {
            "no-call".to_string()
        } else if log.len() > expected.len() && !expected.is_empty() {
            "extra-calls".to_string()
        } else if expected.is_empty() {
            format!("unexpected-call:{}", log[0].split(' ').next().unwrap_or(""))
        } else {
            diff_key(&expected[0], &log[0])
        };
        rep.violation(
            &format!("C02/{}/{}", ops::op_name(c.op), class),
            &format!("filesystem saw {:?}, the request denotes {:?}", log, expected),
            case_json,
        );
    }
    rep.sample(|| json!({"op": ops::op_name(c.op), "deviations": devs, "transport": tr.label(), "calls": log}));
}

pub fn c02(args: &Args) -> Report {
    let mut rep = args.report();
    let mut rig = Rig::new();
    let thorough = args.thorough();
    let mut idx = 0u64;
    let mut max_dev = 0;
    for &op in ops::ALL_OPS {
        if op == k::FUSE_INIT {
            continue; // C12
        }
        let dims = dims_of(op);
        let base = ops::base_case(op);
        let trs = c02_transports(op);
        // deviation 0
        for tr in &trs {
            if rep.mine(idx) {
                c02_check(&mut rig, &mut rep, &base, tr, &[]);
            }
            idx += 1;
        }
        // deviation 1
        for d in &dims {
            for v in dim_alts(d, thorough) {
                let mut c = base.clone();
                apply(&mut c, d, v);
                let big = c.payload.len() > 8192 || c.name1.len() > 1024 || c.name2.len() > 1024;
                for (ti, tr) in trs.iter().enumerate() {
                    if big && ti >= 2 && !thorough {
                        continue;
                    }
                    if rep.mine(idx) {
                        c02_check(&mut rig, &mut rep, &c, tr, &[(format!("{:?}", d), v)]);
                    }
                    idx += 1;
                }
            }
        }
        max_dev = 1;
        // deviation 2: all pairs of dimensions, all pairs of alternatives (sizes capped for pairs)
        for i in 0..dims.len() {
            for j in (i + 1)..dims.len() {
                let ai: Vec<u64> = dim_alts(&dims[i], false).into_iter().filter(|v| pair_ok(&dims[i], *v)).collect();
                let aj: Vec<u64> = dim_alts(&dims[j], false).into_iter().filter(|v| pair_ok(&dims[j], *v)).collect();
                for &vi in &ai {
                    for &vj in &aj {
                        let mut c = base.clone();
                        apply(&mut c, &dims[i], vi);
                        apply(&mut c, &dims[j], vj);
                        // pairs: channel transport always; the others in the thorough tier
                        let ntr = if thorough { trs.len() } else { 1 };
                        for tr in trs.iter().take(ntr) {
                            if rep.mine(idx) {
                                c02_check(
                                    &mut rig,
                                    &mut rep,
                                    &c,
                                    tr,
                                    &[(format!("{:?}", dims[i]), vi), (format!("{:?}", dims[j]), vj)],
                                );
                            }
                            idx += 1;
                        }
                    }
                }
            }
        }
        max_dev = max_dev.max(2);
    }
    rep.set("total_cases_all_shards", json!(idx));
    rep.set("deviation_bound_completed", json!(max_dev));
    rep.set("opcodes", json!(ops::ALL_OPS.len() - 1));
    rep
}

fn pair_ok(d: &Dim, v: u64) -> bool {
    match d {
        Dim::Payload => v <= 4097,
        Dim::Name1 | Dim::Name2 => v <= 300,
        _ => true,
    }
}

pub fn replay_c02(_args: &Args, _case: &Value) -> i32 {
    0
}

// ------------------------------------------------------------------------------------------------
// C01

impl Tr {
    pub fn to_replay(&self) -> Value {
        match self {
            Tr::Chan => json!({"kind": "chan"}),
            Tr::Sep(c) => json!({"kind": "sep", "cap": c}),
            Tr::Virt { cuts, wr, gap, wr_in_b, cache } => {
                json!({"kind": "virt", "cuts": cuts, "wr": wr, "gap": gap, "wr_in_b": wr_in_b, "cache": cache})
            }
        }
    }
    pub fn from_replay(v: &Value) -> Tr {
        let us = |x: &Value| x.as_array().unwrap().iter().map(|y| y.as_u64().unwrap() as usize).collect::<Vec<_>>();
        match v["kind"].as_str().unwrap() {
            "chan" => Tr::Chan,
            "sep" => Tr::Sep(v["cap"].as_u64().unwrap() as usize),
            _ => Tr::Virt {
                cuts: us(&v["cuts"]),
                wr: us(&v["wr"]),
                gap: v["gap"].as_u64().unwrap() as usize,
                wr_in_b: v["wr_in_b"].as_bool().unwrap(),
                cache: v["cache"].as_bool().unwrap(),
            },
        }
    }
}

#[derive(Clone, Copy, Debug, PartialEq, Eq)]
pub enum Script {
    OkSmall,
    OkBig,
    Enoent,
    KindOther,
}

impl Script {
    pub const ALL: [Script; 4] = [Script::OkSmall, Script::OkBig, Script::Enoent, Script::KindOther];
    pub fn name(&self) -> &'static str {
        match self {
            Script::OkSmall => "ok-small",
            Script::OkBig => "ok-big",
            Script::Enoent => "err-enoent",
            Script::KindOther => "err-kind-other",
        }
    }
    pub fn from_name(s: &str) -> Script {
        *Script::ALL.iter().find(|x| x.name() == s).unwrap()
    }
    pub fn answer(&self) -> Answer {
        use crate::scriptfs::{DirAns, Fail};
        let mut a = Answer::default();
        a.entry.inode = 0x4242;
        a.handle = Some(0x77);
        a.count = 5;
        let dirents = |n: usize| -> Vec<DirAns> {
            (0..n)
                .map(|i| DirAns { ino: 100 + i as u64, off: 1 + i as u64, typ: 8, name: name_of(1 + i % 20, i as u8), entry: a.entry })
                .collect()
        };
        match self {
            Script::OkSmall => {
                a.data = b"small-data".to_vec();
                a.dirents = dirents(3);
            }
            Script::OkBig => {
                a.data = payload_of(70_000);
                a.count = usize::MAX;
                a.dirents = dirents(3000);
                a.want = u64::MAX;
            }
            Script::Enoent => a.fail = Some(Fail::Errno(libc::ENOENT)),
            Script::KindOther => a.fail = Some(Fail::Kind(std::io::ErrorKind::Other)),
        }
        a
    }
}

#[derive(Clone, Debug)]
pub struct Shape {
    pub label: String,
    pub body: Vec<u8>,
    pub wellformed: bool,
}

fn wf_case(op: u64) -> Case {
    let mut c = ops::base_case(op);
    c.unique = 0x1122_3344_5566_7788;
    c.nodeid = 1;
    c
}

fn init_body(major: u32, minor: u32, flags: u32, ext: Option<usize>) -> Vec<u8> {
    let mut b = vec![0u8; k::FUSE_INIT_IN.size];
    wire::put(&mut b, &k::FUSE_INIT_IN, "major", major as u64);
    wire::put(&mut b, &k::FUSE_INIT_IN, "minor", minor as u64);
    wire::put(&mut b, &k::FUSE_INIT_IN, "max_readahead", 0x20000);
    wire::put(&mut b, &k::FUSE_INIT_IN, "flags", flags as u64);
    wire::put(&mut b, &k::FUSE_INIT_IN, "flags2", 0xffff_ffff);
    match ext {
        None => b.truncate(16),
        Some(n) => b.truncate(16 + n),
    }
    b
}

/// Request bodies for one opcode: the well-formed template, its truncations, over-long variants
/// and the per-opcode hostile shapes.
pub fn c01_shapes(op: u64, thorough: bool, cap: usize) -> Vec<Shape> {
    let mut out: Vec<Shape> = Vec::new();
    let known = ops::ALL_OPS.contains(&op);
    if !known {
        for (l, b) in [("empty", vec![]), ("zeros8", vec![0u8; 8]), ("ff64", vec![0xffu8; 64])] {
            out.push(Shape { label: l.into(), body: b, wellformed: false });
        }
        return out;
    }
    let mut c = wf_case(op);
    if op == k::FUSE_IOCTL {
        c.f.insert("out_size", 64);
    }
    let wf = if op == k::FUSE_INIT { init_body(7, 33, 0, None) } else { c.body() };
    out.push(Shape { label: "wellformed".into(), body: wf.clone(), wellformed: true });
    // truncations
    let ss = ops::struct_size(op);
    let cuts: Vec<usize> = if thorough {
        (0..wf.len()).collect()
    } else {
        let mut v = vec![0, 1, ss.saturating_sub(1), ss, ss + 1, wf.len().saturating_sub(1)];
        v.retain(|x| *x < wf.len());
        v.sort_unstable();
        v.dedup();
        v
    };
    for n in cuts {
        out.push(Shape { label: format!("truncated-to-{}", n), body: wf[..n].to_vec(), wellformed: false });
    }
    for extra in [1usize, 4096] {
        let mut b = wf.clone();
        b.extend(std::iter::repeat(0x5a).take(extra));
        out.push(Shape { label: format!("overlong+{}", extra), body: b, wellformed: false });
    }
    let head = &wf[..ss.min(wf.len())];
    // hostile names
    if ops::n_names(op) > 0 && op != k::FUSE_SETXATTR {
        let names: Vec<(&str, Vec<u8>)> = vec![
            ("name-empty", vec![0]),
            ("name-no-nul", b"abc".to_vec()),
            ("name-only-nuls", vec![0, 0, 0]),
            ("name-a", b"a\0".to_vec()),
            ("name-a-b", b"a\0b\0".to_vec()),
            ("name-a-b-junk", b"a\0b\0junk".to_vec()),
            ("name-255", wire::cstr(&name_of(255, 0))),
            ("name-4096", wire::cstr(&name_of(4096, 0))),
            ("name-nothing", vec![]),
        ];
        for (l, n) in names {
            let wfn = match (ops::n_names(op), l) {
                (1, "name-a") | (1, "name-255") | (1, "name-4096") | (1, "name-empty") => true,
                (2, "name-a-b") => true,
                _ => false,
            };
            out.push(Shape { label: l.into(), body: wire::cat(&[head, &n]), wellformed: wfn });
        }
    }
    // counts
    if ops::has_list(op) {
        let one = if op == k::FUSE_BATCH_FORGET { 16usize } else { 16 };
        let limit = ((1usize << 20) + 4096 - 8 - 40) / one;
        for count in [0u64, 1, 3, 4, limit as u64, limit as u64 + 1, (1 << 20) / 16, (1 << 20) / 16 + 1, u32::MAX as u64] {
            let mut h = head.to_vec();
            wire::put(&mut h, ops::layout(op).unwrap(), "count", count);
            let items: Vec<u8> = (0..3 * one).map(|i| i as u8).collect();
            out.push(Shape { label: format!("count-{}-present-3", count), body: wire::cat(&[&h, &items]), wellformed: count == 3 });
        }
    }
    if op == k::FUSE_IOCTL {
        for in_size in [0u64, 1, 18, 19, u32::MAX as u64] {
            let mut h = head.to_vec();
            wire::put(&mut h, &k::FUSE_IOCTL_IN, "in_size", in_size);
            out.push(Shape {
                label: format!("ioctl-in_size-{}-present-18", in_size),
                body: wire::cat(&[&h, b"PAYLOAD-0123456789"]),
                wellformed: in_size == 18,
            });
        }
        for out_size in [0u64, u32::MAX as u64] {
            let mut h = wf.clone();
            wire::put(&mut h, &k::FUSE_IOCTL_IN, "out_size", out_size);
            out.push(Shape { label: format!("ioctl-out_size-{}", out_size), body: h, wellformed: true });
        }
    }
    if matches!(op, k::FUSE_READ | k::FUSE_READDIR | k::FUSE_READDIRPLUS) {
        let mut sizes = vec![0u64, 1, 15, 16, 17, 4096, u32::MAX as u64];
        for d in [32i64, 17, 16, 15, 1, 0, -1] {
            let v = cap as i64 - d;
            if v >= 0 {
                sizes.push(v as u64);
            }
        }
        sizes.sort_unstable();
        sizes.dedup();
        for s in sizes {
            let mut h = wf.clone();
            wire::put(&mut h, &k::FUSE_READ_IN, "size", s);
            // the kernel never asks for more than the reply buffer minus the header
            out.push(Shape { label: format!("size-{}", s), body: h, wellformed: s as usize + 16 <= cap });
        }
    }
    if op == k::FUSE_SETXATTR {
        for (l, sz, val) in [("xattr-size-eq", 4u64, &b"vvvv"[..]), ("xattr-size+1", 5, b"vvvv"), ("xattr-size-1", 3, b"vvvv"), ("xattr-empty-value", 0, b""), ("xattr-size-max", u32::MAX as u64, b"v")] {
            let mut h = vec![0u8; 8];
            wire::put_at(&mut h, 0, 4, sz);
            out.push(Shape { label: l.into(), body: wire::cat(&[&h, b"user.x\0", val]), wellformed: sz as usize == val.len() });
        }
        let mut h = vec![0u8; 8];
        wire::put_at(&mut h, 0, 4, 3);
        out.push(Shape { label: "xattr-no-nul".into(), body: wire::cat(&[&h, b"abc"]), wellformed: false });
        out.push(Shape { label: "xattr-only-nul".into(), body: wire::cat(&[&h, b"\0abc"]), wellformed: true });
    }
    if op == k::FUSE_WRITE {
        for (l, sz) in [("write-size-0", 0u64), ("write-size+1", 19), ("write-size-max", u32::MAX as u64)] {
            let mut h = wf.clone();
            wire::put(&mut h, &k::FUSE_WRITE_IN, "size", sz);
            out.push(Shape { label: l.into(), body: h, wellformed: false });
        }
    }
    if matches!(op, k::FUSE_GETXATTR | k::FUSE_LISTXATTR) {
        for sz in [0u64, 1, 65536, u32::MAX as u64] {
            let mut h = wf.clone();
            wire::put(&mut h, &k::FUSE_GETXATTR_IN, "size", sz);
            out.push(Shape { label: format!("xattr-get-size-{}", sz), body: h, wellformed: true });
        }
    }
    if op == k::FUSE_INIT {
        let ext = k::FUSE_INIT_EXT as u32;
        for (l, b, wfd) in [
            ("init-6.0", init_body(6, 0, 0, None), true),
            ("init-8.0", init_body(8, 0, 0, None), true),
            ("init-7.4", init_body(7, 4, 0, None), true),
            ("init-7.22", init_body(7, 22, 0, None), true),
            ("init-7.36-ext-payload", init_body(7, 36, ext | 0xffff, Some(48)), true),
            ("init-7.36-ext-nopayload", init_body(7, 36, ext | 0xffff, None), false),
            ("init-7.36-ext-truncated", init_body(7, 36, ext | 0xffff, Some(20)), false),
            ("init-7.max-allflags", init_body(7, u32::MAX, u32::MAX, Some(48)), true),
        ] {
            out.push(Shape { label: l.into(), body: b, wellformed: wfd });
        }
    }
    out
}

/// Reply size the protocol prescribes for a well-formed request answered by `script`.
fn need(op: u64, script: Script, body: &[u8]) -> usize {
    let ok = matches!(script, Script::OkSmall | Script::OkBig);
    if op == k::FUSE_INIT && body.len() >= 4 {
        // the major version decides before the filesystem is asked
        let major = wire::get_at(body, 0, 4);
        if major < 7 {
            return 16;
        }
        if major > 7 {
            return 16 + 64;
        }
    }
    if !ok || !ops::wants_reply(op) {
        return 16;
    }
    let data = if script == Script::OkSmall { 10usize } else { 70_000 };
    let sz = |lay: &'static k::Lay, f: &str| if body.len() >= lay.size { wire::get(body, lay, f) as usize } else { 0 };
    16 + match op {
        k::FUSE_LOOKUP | k::FUSE_SYMLINK | k::FUSE_MKNOD | k::FUSE_MKDIR | k::FUSE_LINK => 128,
        k::FUSE_GETATTR | k::FUSE_SETATTR => 104,
        k::FUSE_READLINK => data,
        k::FUSE_OPEN | k::FUSE_OPENDIR => 16,
        k::FUSE_READ => data.min(sz(&k::FUSE_READ_IN, "size")),
        k::FUSE_READDIR | k::FUSE_READDIRPLUS => sz(&k::FUSE_READ_IN, "size"),
        k::FUSE_WRITE => 8,
        k::FUSE_STATFS => 80,
        k::FUSE_GETXATTR | k::FUSE_LISTXATTR => data,
        k::FUSE_GETLK => 24,
        k::FUSE_CREATE => 144,
        k::FUSE_BMAP | k::FUSE_POLL | k::FUSE_LSEEK => 8,
        k::FUSE_IOCTL => 16 + data,
        k::FUSE_INIT => 64,
        _ => 0,
    }
}

pub struct C01Case<'a> {
    pub req: &'a [u8],
    pub tr: &'a Tr,
    pub script: Script,
    pub wellformed: bool,
    pub label: String,
}

/// The C01 oracle. Returns (class, message) for each violated clause.
/// What the client receives. fusedev: one record per write call. virtio-fs: the device reports a
/// used length (the handler's return value) and the guest reads that many bytes from the start of
/// the writable descriptors; when the handler returned an error after writing a message (bad
/// name: EINVAL reply, then Err) the message framed by the header at the start of the area counts.
/// Bytes the server scribbled behind the reported message (e.g. directory entries abandoned on
/// error) are not emitted bytes.
pub fn client_view(tr: &Tr, ex: &Exec) -> (Vec<Vec<u8>>, Vec<(String, String)>) {
    let mut v = Vec::new();
    if !tr.is_virtio() {
        return (ex.records.clone(), v);
    }
    let area = match ex.records.first() {
        None => {
            if let Ok(n) = ex.ret {
                if n > 0 {
                    v.push(("reply-length".into(), format!("handler reported {} bytes used but wrote nothing", n)));
                }
            }
            return (vec![], v);
        }
        Some(a) => a,
    };
    if area.len() < 16 {
        v.push(("short-reply".into(), format!("{} bytes written to the reply area, less than a header", area.len())));
        return (vec![area.clone()], v);
    }
    let hl = wire::get(area, &k::FUSE_OUT_HEADER, "len") as usize;
    match ex.ret {
        Ok(n) if n > 0 => {
            if n > area.len() {
                v.push(("reply-length".into(), format!("handler reported {} bytes used, only {} written", n, area.len())));
                (vec![area.clone()], v)
            } else {
                (vec![area[..n].to_vec()], v)
            }
        }
        _ => {
            if hl >= 16 && hl <= area.len() {
                (vec![area[..hl].to_vec()], v)
            } else {
                (vec![area.clone()], v)
            }
        }
    }
}

pub fn c01_oracle(cs: &C01Case, ex: &Exec) -> Vec<(String, String)> {
    let (records, mut v) = client_view(cs.tr, ex);
    let ex = &Exec { records, ..ex.clone() };
    let req = cs.req;
    let hdr = if req.len() >= 40 { Some(req) } else { None };
    let opcode = hdr.map(|h| wire::get(h, &k::FUSE_IN_HEADER, "opcode"));
    let unique = hdr.map(|h| wire::get(h, &k::FUSE_IN_HEADER, "unique"));
    if let Some(p) = &ex.panic {
        v.push(("panic".into(), format!("handler panicked: {}", p)));
    }
    for p in &ex.problems {
        v.push(("memory".into(), p.clone()));
    }
    if ex.records.len() > 1 {
        v.push(("multiple-replies".into(), format!("{} replies emitted (lengths {:?})", ex.records.len(), ex.records.iter().map(|r| r.len()).collect::<Vec<_>>())));
    }
    for r in &ex.records {
        match wire::parse_reply(r) {
            Err(e) => v.push(("short-reply".into(), e)),
            Ok(rp) => {
                if rp.len as usize != r.len() {
                    v.push(("reply-length".into(), format!("header len {} but {} bytes emitted", rp.len, r.len())));
                }
                if Some(rp.unique) != unique {
                    v.push(("reply-unique".into(), format!("unique {:#x}, request had {:?}", rp.unique, unique)));
                }
                if !(rp.error == 0 || (-4095..=-1).contains(&rp.error)) {
                    v.push(("reply-error-range".into(), format!("error field {}", rp.error)));
                }
            }
        }
    }
    if let Some(op) = opcode {
        if (op == k::FUSE_FORGET || op == k::FUSE_BATCH_FORGET) && !ex.records.is_empty() {
            v.push(("forget-replied".into(), format!("{} answered with {} bytes", ops::op_name(op), ex.records[0].len())));
        }
        let true_len = req.len() as u64;
        let len_field = wire::get(req, &k::FUSE_IN_HEADER, "len");
        if cs.wellformed && len_field == true_len && ops::wants_reply(op) && ex.records.is_empty() && ex.panic.is_none() {
            let nd = need(op, cs.script, &req[40..]);
            if cs.tr.capacity() >= nd {
                v.push((
                    "no-reply".into(),
                    format!(
                        "well-formed {} got no reply (capacity {}, prescribed reply {} bytes); handler returned {:?}",
                        ops::op_name(op),
                        cs.tr.capacity(),
                        nd,
                        ex.ret
                    ),
                ));
            }
        }
    }
    v
}

fn c01_run(rig: &mut Rig, rep: &mut Report, cs: &C01Case) {
    rep.eval();
    rep.transitions += 1;
    let is_init = cs.req.len() >= 8 && wire::get(cs.req, &k::FUSE_IN_HEADER, "opcode") == k::FUSE_INIT;
    let (ex, _log) = rig.run(cs.req, cs.tr, cs.script.answer());
    if is_init {
        rig.fresh_server();
    }
    let viol = c01_oracle(cs, &ex);
    let opn = if cs.req.len() >= 8 { ops::op_name(wire::get(cs.req, &k::FUSE_IN_HEADER, "opcode")) } else { "short".into() };
    let outcome = format!(
        "{}:{}:{}",
        opn,
        match ex.records.len() {
            0 => "no-reply".to_string(),
            1 => match wire::parse_reply(&ex.records[0]) {
                Ok(r) => format!("reply-err{}", r.error),
                Err(_) => "reply-short".to_string(),
            },
            n => format!("{}-replies", n),
        },
        if ex.ret.is_ok() { "ok" } else { "err" }
    );
    rep.outcome(&outcome);
    rep.state_of(&(cs.req, cs.tr, cs.script.name()));
    rep.sample(|| json!({"shape": cs.label, "transport": cs.tr.label(), "script": cs.script.name(), "request_len": cs.req.len(), "outcome": outcome}));
    for (class, msg) in viol {
        let trk = match cs.tr {
            Tr::Chan => "fusedev-channel",
            Tr::Sep(_) => "fusedev",
            Tr::Virt { .. } => "virtio",
        };
        rep.violation(&format!("C01/{}/{}/{}", opn, class, trk), &msg, || {
            json!({"engine": "wire", "shape": cs.label, "request_hex": hex(&cs.req[..cs.req.len().min(4200)]), "request_len": cs.req.len(),
                   "transport": cs.tr.to_replay(), "script": cs.script.name(), "wellformed": cs.wellformed,
                   "ret": format!("{:?}", ex.ret), "records": ex.records.iter().map(|r| hex(&r[..r.len().min(256)])).collect::<Vec<_>>()})
        });
    }
}

fn c01_transports(thorough: bool, reqlen: usize, ss: usize) -> Vec<Tr> {
    let mut v = vec![Tr::Chan];
    let caps: Vec<usize> = if thorough {
        let mut c: Vec<usize> = (0..=176).collect();
        c.extend([4095, 4096, 4097, 8192 + 16, (1 << 20) + 4096]);
        c
    } else {
        vec![0, 1, 15, 16, 17, 24, 32, 96, 119, 120, 143, 144, 160, 4096, 8192 + 16]
    };
    for c in &caps {
        v.push(Tr::Sep(*c));
    }
    let l = reqlen;
    let mut cutsets: Vec<Vec<usize>> = vec![vec![], vec![1], vec![39], vec![40], vec![41], vec![40 + ss], vec![l.saturating_sub(1)], vec![40, 40], vec![0], vec![l], vec![16, 40 + ss]];
    if thorough {
        for a in 0..=l.min(200) {
            cutsets.push(vec![a]);
        }
        for a in [1usize, 39, 40, 41] {
            for b in [40 + ss, l.saturating_sub(1), l] {
                if b >= a {
                    cutsets.push(vec![a, b]);
                }
            }
        }
    }
    cutsets.sort();
    cutsets.dedup();
    for cuts in cutsets {
        v.push(Tr::Virt { cuts, wr: vec![8192 + 16], gap: 8, wr_in_b: false, cache: true });
    }
    let wrs: Vec<Vec<usize>> = vec![
        vec![],
        vec![0],
        vec![1],
        vec![8],
        vec![15],
        vec![16],
        vec![17],
        vec![16, 8192],
        vec![15, 1, 8192],
        vec![1; 14],
        vec![0, 8208],
        vec![8, 8, 0, 128, 8192],
        vec![120],
        vec![143],
        vec![144],
        vec![4096],
    ];
    for wr in wrs {
        v.push(Tr::Virt { cuts: vec![40], wr: wr.clone(), gap: 8, wr_in_b: true, cache: true });
        if thorough {
            v.push(Tr::Virt { cuts: vec![], wr: wr.clone(), gap: 0, wr_in_b: false, cache: false });
        }
    }
    v.push(Tr::Virt { cuts: vec![], wr: vec![8208], gap: 0, wr_in_b: false, cache: false });
    v
}

pub fn c01(args: &Args) -> Report {
    let mut rep = args.report();
    let mut rig = Rig::new();
    let thorough = args.thorough();
    let mut idx = 0u64;
    let mut opcodes: Vec<u64> = (0..=60).collect();
    opcodes.extend([4096u64, 1 << 20, 26 << 24, u32::MAX as u64]);
    let maxlen = ((1u64 << 20) + 4096) as u32;
    for &op in &opcodes {
        let ss = ops::struct_size(op);
        // part 1: shapes x transports x scripts, true header length
        // (size-dependent shapes are generated against each transport's capacity)
        let proto = c01_shapes(op, thorough, 8208);
        let mut seen_tr = 0usize;
        for sh in &proto {
            let reqb = Req { len: None, ..Req::new(op, 1, sh.body.clone()) }.bytes();
            let trs = c01_transports(thorough, reqb.len(), ss);
            seen_tr = seen_tr.max(trs.len());
            for tr in &trs {
                // skip giant bodies on byte-granular virtio layouts in quick tier: covered by channel
                for sc in Script::ALL {
                    if rep.mine(idx) {
                        let cs = C01Case { req: &reqb, tr, script: sc, wellformed: sh.wellformed, label: format!("{}:{}", ops::op_name(op), sh.label) };
                        c01_run(&mut rig, &mut rep, &cs);
                    }
                    idx += 1;
                }
            }
        }
        // part 1b: size fields relative to each capacity
        if matches!(op, k::FUSE_READ | k::FUSE_READDIR | k::FUSE_READDIRPLUS) {
            for tr in c01_transports(thorough, 80, ss) {
                let cap = tr.capacity();
                for sh in c01_shapes(op, false, cap).into_iter().filter(|s| s.label.starts_with("size-")) {
                    let reqb = Req::new(op, 1, sh.body.clone()).bytes();
                    for sc in Script::ALL {
                        if rep.mine(idx) {
                            let cs = C01Case { req: &reqb, tr: &tr, script: sc, wellformed: sh.wellformed, label: format!("{}:{}@cap{}", ops::op_name(op), sh.label, cap) };
                            c01_run(&mut rig, &mut rep, &cs);
                        }
                        idx += 1;
                    }
                }
            }
        }
        // part 2: header len / unique / nodeid lies on every shape, three transports
        let trs2 = [Tr::Chan, Tr::Sep(4096), Tr::Virt { cuts: vec![40], wr: vec![16, 4096], gap: 8, wr_in_b: true, cache: true }];
        for sh in &proto {
            let true_len = (40 + sh.body.len()) as u32;
            let mut lens = vec![0u32, 1, 39, 40, true_len.wrapping_sub(1), true_len + 1, 0x1000, maxlen, maxlen + 1, u32::MAX];
            lens.sort_unstable();
            lens.dedup();
            for len in lens {
                if len == true_len {
                    continue;
                }
                let reqb = Req { len: Some(len), ..Req::new(op, 1, sh.body.clone()) }.bytes();
                for tr in &trs2 {
                    for sc in [Script::OkSmall, Script::Enoent] {
                        if rep.mine(idx) {
                            let cs = C01Case { req: &reqb, tr, script: sc, wellformed: false, label: format!("{}:{}:len={}", ops::op_name(op), sh.label, len) };
                            c01_run(&mut rig, &mut rep, &cs);
                        }
                        idx += 1;
                    }
                }
            }
            for (unique, nodeid) in [(0u64, 1u64), (u64::MAX, 1), (7, 0), (7, u64::MAX)] {
                let reqb = Req { unique, nodeid, ..Req::new(op, 1, sh.body.clone()) }.bytes();
                for tr in &trs2 {
                    if rep.mine(idx) {
                        let cs = C01Case { req: &reqb, tr, script: Script::OkSmall, wellformed: sh.wellformed, label: format!("{}:{}:unique={:#x},nodeid={:#x}", ops::op_name(op), sh.label, unique, nodeid) };
                        c01_run(&mut rig, &mut rep, &cs);
                    }
                    idx += 1;
                }
            }
        }
    }
    // part 3: physical requests shorter than a header (not deliverable through the channel's read)
    let hdr = Req::new(k::FUSE_GETATTR, 1, vec![0u8; 16]).bytes();
    for n in 0..40usize {
        for tr in [Tr::Sep(4096), virt_simple(4096, false), Tr::Virt { cuts: vec![n / 2], wr: vec![16, 64], gap: 8, wr_in_b: true, cache: false }] {
            if rep.mine(idx) {
                let cs = C01Case { req: &hdr[..n], tr: &tr, script: Script::OkSmall, wellformed: false, label: format!("short-header-{}", n) };
                c01_run(&mut rig, &mut rep, &cs);
            }
            idx += 1;
        }
    }
    // part 4: a maximal and an over-maximal physical request (WRITE with 1 MiB payload, +1)
    for extra in [0usize, 1, 4096] {
        let mut c = wf_case(k::FUSE_WRITE);
        c.payload = payload_of((1 << 20) + extra);
        let reqb = c.req().bytes();
        for tr in [Tr::Chan, Tr::Sep(4096), virt_simple(4096, false)] {
            for sc in Script::ALL {
                if rep.mine(idx) {
                    let cs = C01Case { req: &reqb, tr: &tr, script: sc, wellformed: extra == 0, label: format!("FUSE_WRITE:payload-1MiB+{}", extra) };
                    c01_run(&mut rig, &mut rep, &cs);
                }
                idx += 1;
            }
        }
    }
    // part 5: descriptor chains that cannot be mapped: construction must fail cleanly
    c01_bad_chains(&mut rig, &mut rep, &mut idx);
    rep.set("total_cases_all_shards", json!(idx));
    rep.set("opcodes", json!(opcodes.len()));
    rep
}

fn c01_bad_chains(rig: &mut Rig, rep: &mut Report, idx: &mut u64) {
    use fuse_backend_rs::transport::{Reader, VirtioFsWriter};
    let a_end = A_BASE + rig.virt.a_size as u64;
    let b_end = B_BASE + rig.virt.b_size as u64;
    let bad: Vec<(&str, Vec<Seg>, Vec<Seg>)> = vec![
        ("readable-outside-memory", vec![Seg { addr: 0x4000_0000, len: 64 }], vec![Seg { addr: B_BASE, len: 64 }]),
        ("writable-outside-memory", vec![Seg { addr: A_BASE, len: 64 }], vec![Seg { addr: 0x4000_0000, len: 64 }]),
        ("readable-straddles-region-end", vec![Seg { addr: a_end - 32, len: 64 }], vec![Seg { addr: B_BASE, len: 64 }]),
        ("writable-straddles-region-end", vec![Seg { addr: A_BASE, len: 64 }], vec![Seg { addr: b_end - 8, len: 64 }]),
        ("readable-len-u32max", vec![Seg { addr: A_BASE, len: u32::MAX }], vec![Seg { addr: B_BASE, len: 64 }]),
        ("writable-len-u32max-twice", vec![Seg { addr: A_BASE, len: 64 }], vec![Seg { addr: B_BASE, len: u32::MAX }, Seg { addr: B_BASE, len: u32::MAX }]),
        ("addr-u64max", vec![Seg { addr: u64::MAX - 8, len: 64 }], vec![Seg { addr: B_BASE, len: 64 }]),
    ];
    for (label, rd, wr) in bad {
        if rep.mine(*idx) {
            rep.eval();
            rep.transitions += 1;
            let q = rig.virt.queue();
            let descs = Virtio::descs(&rd, &wr);
            let mappable = |v: &[Seg]| -> usize {
                v.iter()
                    .filter(|s| match rig.virt.region_of(s.addr) {
                        Some((base, size)) => s.addr + s.len as u64 <= base + size as u64,
                        None => false,
                    })
                    .map(|s| s.len as usize)
                    .sum()
            };
            let (max_r, max_w) = (mappable(&rd), mappable(&wr));
            let res = std::panic::catch_unwind(std::panic::AssertUnwindSafe(|| {
                use std::io::{Read, Write};
                let chain = q.build_desc_chain(&descs).map_err(|e| format!("{:?}", e))?;
                let r = Reader::from_descriptor_chain(&rig.virt.mem, chain.clone())
                    .map(|mut r| {
                        let n = r.available_bytes();
                        let mut sink = vec![0u8; n.min(1 << 16)];
                        let _ = r.read(&mut sink);
                        n
                    })
                    .map_err(|e| format!("{:?}", e));
                let w = VirtioFsWriter::new(&rig.virt.mem, chain)
                    .map(|mut w| {
                        let n = w.available_bytes();
                        let _ = w.write(&vec![1u8; n.min(1 << 16)]);
                        n
                    })
                    .map_err(|e| format!("{:?}", e));
                Ok::<_, String>((r, w))
            }));
            let outcome = match &res {
                Err(_) => "panic".to_string(),
                Ok(Err(e)) => format!("mock-rejected:{}", e),
                Ok(Ok((r, w))) => format!("reader={:?} writer={:?}", r.as_ref().map_err(|_| "err"), w.as_ref().map_err(|_| "err")),
            };
            rep.outcome(&format!("bad-chain:{}:{}", label, outcome));
            let violated = match &res {
                Err(_) => true,
                Ok(Err(_)) => false,
                Ok(Ok((r, w))) => r.as_ref().map(|n| *n > max_r).unwrap_or(false) || w.as_ref().map(|n| *n > max_w).unwrap_or(false),
            };
            if violated {
                rep.violation(&format!("C01/bad-chain/{}", label), &format!("unmappable descriptor chain accepted or panicked: {}", outcome), || {
                    json!({"engine": "bad-chain", "label": label})
                });
            }
        }
        *idx += 1;
    }
}

pub fn replay_wire(prop: &str, case: &Value) -> (bool, String) {
    let mut rig = Rig::new();
    let req = crate::report::unhex(case["request_hex"].as_str().unwrap());
    let tr = Tr::from_replay(&case["transport"]);
    let sc = Script::from_name(case["script"].as_str().unwrap_or("ok-small"));
    let (ex, log) = rig.run(&req, &tr, sc.answer());
    match prop {
        "C01" => {
            let cs = C01Case { req: &req, tr: &tr, script: sc, wellformed: case["wellformed"].as_bool().unwrap_or(false), label: "replay".into() };
            let v = c01_oracle(&cs, &ex);
            (v.is_empty(), format!("ret={:?} records={:?} violations={:?}", ex.ret, ex.records.iter().map(|r| r.len()).collect::<Vec<_>>(), v))
        }
        _ => (true, format!("log={:?}", log)),
    }
}
