//! Engine P: the passthrough filesystem on a real directory (C05, C06, C08, C15, C16, C18).

use std::collections::{BTreeMap, BTreeSet};
use std::ffi::CString;
use std::os::unix::fs::MetadataExt;
use std::os::unix::io::{AsRawFd, FromRawFd};
use std::path::{Path, PathBuf};

use serde_json::{json, Value};

use crate::args::Args;
use crate::client::{AttrR, Client, EntryR, EBADREPLY, ENOREPLY, EPANIC};
use crate::kabi as k;
use crate::ptworld::{as_caller, cpath, errno, fd_count, snap, snap_diff, thread_creds, PtCfg, PtWorld};
use crate::report::Report;

pub const NAMES: [&str; 10] = ["a", "b", "l", "fifo", "d", "h", "pub", "esc", "..data", "..new"];
const CALLERS: [(u32, u32); 2] = [(0, 0), (1000, 1000)];

#[derive(Clone, Copy, Debug, PartialEq, Eq, Hash)]
pub enum D {
    Root,
    Dd,
    Pub,
}

impl D {
    fn prefix(&self) -> &'static str {
        match self {
            D::Root => "",
            D::Dd => "d/",
            D::Pub => "pub/",
        }
    }
}

#[derive(Clone, Copy, Debug, PartialEq, Eq, Hash)]
pub enum Op {
    Lookup(D, usize),
    Getattr(D, usize),
    Create(D, usize, usize, usize),
    Mkdir(D, usize, usize),
    Mknod(D, usize, usize, usize),
    Symlink(D, usize, usize, usize),
    Link(usize, D, usize),
    Unlink(D, usize),
    Rmdir(D, usize),
    Rename(D, usize, D, usize, u32),
    Open(usize, usize),
    Opendir(usize),
    Read(u8, u32),
    Write(u8, usize),
    Setattr(usize, usize, bool),
    Fallocate(usize),
    Lseek(usize),
    SetX(usize, usize),
    GetX(usize, u32),
    ListX(usize, u32),
    RemX(usize),
    Readlink(usize),
    Statfs,
    Fsync(bool),
    Flush,
    Release,
    /// fcntl(F_SETFL) on the client side: later requests on the newest handle carry O_APPEND (true) or not (false)
    SetFl(bool),
}

const OPEN_FLAGS: [i32; 6] = [
    libc::O_RDONLY,
    libc::O_WRONLY,
    libc::O_RDWR,
    libc::O_WRONLY | libc::O_APPEND,
    libc::O_RDWR | libc::O_TRUNC,
    libc::O_RDONLY | libc::O_NOFOLLOW,
];
const CREATE_FLAGS: [i32; 4] = [libc::O_RDWR, libc::O_WRONLY | libc::O_TRUNC, libc::O_RDWR | libc::O_EXCL, libc::O_RDONLY];
const FALLOC_MODES: [i32; 4] = [0, libc::FALLOC_FL_KEEP_SIZE, libc::FALLOC_FL_PUNCH_HOLE | libc::FALLOC_FL_KEEP_SIZE, libc::FALLOC_FL_ZERO_RANGE];
const SYMLINK_TARGETS: [&str; 2] = ["a", "../secret"];

pub fn c05_alphabet(rich: bool) -> Vec<Op> {
    let mut v = Vec::new();
    for n in [0usize, 1, 2, 3] {
        v.push(Op::Lookup(D::Root, n));
    }
    v.push(Op::Lookup(D::Dd, 0));
    v.push(Op::Lookup(D::Root, 5));
    // legal names that merely begin with two dots
    v.push(Op::Lookup(D::Root, 8));
    v.push(Op::Lookup(D::Root, 9));
    v.push(Op::Lookup(D::Dd, 9));
    v.push(Op::Getattr(D::Root, 8));
    v.push(Op::Mkdir(D::Root, 9, 0));
    v.push(Op::Mknod(D::Root, 9, 0, 0));
    v.push(Op::Create(D::Root, 9, 0, 0));
    v.push(Op::Create(D::Root, 8, 1, 0));
    v.push(Op::Symlink(D::Root, 9, 0, 0));
    v.push(Op::Link(0, D::Root, 9));
    v.push(Op::Unlink(D::Root, 8));
    v.push(Op::Rename(D::Root, 8, D::Root, 9, 0));
    v.push(Op::Rename(D::Root, 0, D::Root, 9, 0));
    v.push(Op::Open(8, 0));
    v.push(Op::SetFl(true));
    v.push(Op::SetFl(false));
    v.push(Op::Getattr(D::Root, 0));
    v.push(Op::Getattr(D::Root, 2));
    for n in [0usize, 1] {
        for f in 0..CREATE_FLAGS.len() {
            for c in 0..2 {
                v.push(Op::Create(D::Root, n, f, c));
            }
        }
    }
    for c in 0..2 {
        v.push(Op::Create(D::Pub, 1, 0, c));
        v.push(Op::Mkdir(D::Root, 1, c));
        v.push(Op::Mkdir(D::Pub, 1, c));
        v.push(Op::Mknod(D::Pub, 1, 0, c));
        v.push(Op::Symlink(D::Pub, 1, 0, c));
    }
    v.push(Op::Mknod(D::Root, 1, 0, 0));
    v.push(Op::Mknod(D::Root, 1, 1, 0));
    v.push(Op::Mkdir(D::Root, 0, 0));
    v.push(Op::Symlink(D::Root, 1, 0, 0));
    v.push(Op::Symlink(D::Root, 1, 1, 0));
    v.push(Op::Link(0, D::Root, 1));
    v.push(Op::Link(0, D::Dd, 1));
    v.push(Op::Link(4, D::Root, 1));
    for n in [0usize, 1, 2, 4] {
        v.push(Op::Unlink(D::Root, n));
    }
    v.push(Op::Rmdir(D::Root, 4));
    v.push(Op::Rmdir(D::Root, 1));
    v.push(Op::Rmdir(D::Root, 0));
    for fl in [0u32, 1, 2] {
        v.push(Op::Rename(D::Root, 0, D::Root, 1, fl));
        v.push(Op::Rename(D::Root, 0, D::Root, 5, fl));
    }
    v.push(Op::Rename(D::Root, 0, D::Dd, 1, 0));
    v.push(Op::Rename(D::Root, 4, D::Root, 1, 0));
    v.push(Op::Rename(D::Root, 1, D::Root, 0, 0));
    for f in 0..OPEN_FLAGS.len() {
        v.push(Op::Open(0, f));
    }
    v.push(Op::Open(1, 2));
    v.push(Op::Open(3, 0));
    v.push(Op::Open(3, 1));
    v.push(Op::Opendir(4));
    v.push(Op::Opendir(0));
    for off in [0u8, 1, 2] {
        v.push(Op::Read(off, 4));
        v.push(Op::Write(off, 2));
    }
    v.push(Op::Read(0, 4096));
    v.push(Op::Write(0, 0));
    // kinds 8, 9: exactly one of the two time stamps (utimensat with UTIME_OMIT for the other)
    for kind in 0..10 {
        v.push(Op::Setattr(0, kind, false));
    }
    for kind in [0usize, 4, 5, 7, 9] {
        v.push(Op::Setattr(0, kind, true));
    }
    v.push(Op::Setattr(4, 0, false));
    v.push(Op::Setattr(4, 1, false));
    for m in 0..FALLOC_MODES.len() {
        v.push(Op::Fallocate(m));
    }
    for kind in 0..4 {
        v.push(Op::Lseek(kind));
    }
    v.push(Op::SetX(0, 0));
    v.push(Op::SetX(0, 1));
    v.push(Op::SetX(4, 0));
    v.push(Op::GetX(0, 0));
    v.push(Op::GetX(0, 64));
    v.push(Op::GetX(0, 1));
    v.push(Op::ListX(0, 0));
    v.push(Op::ListX(0, 64));
    v.push(Op::RemX(0));
    v.push(Op::Readlink(2));
    v.push(Op::Readlink(7));
    v.push(Op::Readlink(0));
    v.push(Op::Statfs);
    v.push(Op::Fsync(false));
    v.push(Op::Fsync(true));
    v.push(Op::Flush);
    v.push(Op::Release);
    if !rich {
        // reduced alphabet for deeper sequences
        v.retain(|o| match o {
            Op::Create(_, _, f, _) => *f != 3,
            Op::Open(_, f) => *f != 5,
            Op::Setattr(_, kind, _) => ![2usize, 6].contains(kind),
            Op::Fallocate(m) => *m != 3,
            Op::GetX(_, s) => *s != 1,
            _ => true,
        });
    }
    v
}

struct Hnd {
    fh: u64,
    nodeid: u64,
    flags: i32,
    shadow: Option<std::fs::File>,
    shadow_path: String,
    dir: bool,
}

/// One world plus the client model of a C05-style run.
pub struct Pt {
    pub w: PtWorld,
    /// nodeid -> lookup count held by the client
    pub counts: BTreeMap<u64, u64>,
    handles: Vec<Hnd>,
    pub problems: Vec<(String, String)>,
    nonroot: bool,
}

fn attr_of_path(p: &Path) -> Result<(u32, u64, u64, u32, u32, u64), i32> {
    match std::fs::symlink_metadata(p) {
        Ok(m) => Ok((m.mode(), m.nlink(), if m.file_type().is_dir() { 0 } else { m.size() }, m.uid(), m.gid(), m.rdev())),
        Err(e) => Err(e.raw_os_error().unwrap_or(-1)),
    }
}

fn attr_tuple(a: &AttrR, isdir: bool) -> (u32, u64, u64, u32, u32, u64) {
    (a.mode, a.nlink as u64, if isdir { 0 } else { a.size }, a.uid, a.gid, a.rdev as u64)
}

impl Pt {
    pub fn new(cfg: &PtCfg, cl: &mut Client) -> Pt {
        let w = PtWorld::new(cfg, cl, true);
        // a world-writable directory for unprivileged creation
        for d in [&w.exp, &w.shadow] {
            std::fs::create_dir(d.join("pub")).unwrap();
            let c = cpath(&d.join("pub"));
            unsafe { libc::chmod(c.as_ptr(), 0o777) };
        }
        Pt { w, counts: BTreeMap::new(), handles: Vec::new(), problems: Vec::new(), nonroot: false }
    }

    fn bad(&mut self, class: &str, msg: String) {
        self.problems.push((class.to_string(), msg));
    }

    fn got(&mut self, e: &EntryR) {
        *self.counts.entry(e.nodeid).or_insert(0) += 1;
    }

    /// nodeid of a directory of the alphabet (auto lookup, counted)
    fn dir_node(&mut self, cl: &mut Client, d: D) -> Option<u64> {
        match d {
            D::Root => Some(1),
            D::Dd | D::Pub => {
                let name = if d == D::Dd { "d" } else { "pub" };
                match cl.lookup(&self.w.subj, 1, name.as_bytes()) {
                    Ok(e) => {
                        self.got(&e);
                        Some(e.nodeid)
                    }
                    Err(_) => None,
                }
            }
        }
    }

    /// nodeid of root-level name (auto lookup, counted)
    fn name_node(&mut self, cl: &mut Client, n: usize) -> Result<u64, i32> {
        match cl.lookup(&self.w.subj, 1, NAMES[n].as_bytes()) {
            Ok(e) => {
                self.got(&e);
                Ok(e.nodeid)
            }
            Err(e) => Err(e),
        }
    }

    fn cmp_errno(&mut self, what: &str, got: i32, want: i32) -> bool {
        if got == EPANIC || got == ENOREPLY || got == EBADREPLY {
            self.bad(&format!("{}/protocol", what), format!("request failed at the protocol level ({})", got));
            return false;
        }
        if got != want {
            let tag = if self.w.cfg.inode_file_handles && self.nonroot { "@file-handles+non-root-caller" } else { "" };
            self.bad(&format!("{}/errno:{}-host:{}{}", what, got, want, tag), format!("server answered errno {}, the host system call gives {}", got, want));
            return false;
        }
        true
    }

    fn cmp_entry(&mut self, what: &str, e: &EntryR, shadow_path: &Path) {
        match attr_of_path(shadow_path) {
            Ok(want) => {
                let isdir = want.0 & libc::S_IFMT == libc::S_IFDIR;
                let got = attr_tuple(&e.attr, isdir);
                if got != want {
                    self.bad(&format!("{}/attr", what), format!("reply says (mode,nlink,size,uid,gid,rdev) = {:?}, host says {:?}", got, want));
                }
            }
            Err(en) => self.bad(&format!("{}/attr", what), format!("server returned an entry, host object missing (errno {})", en)),
        }
    }

    /// Executes one op on both sides and compares. Returns false if the op was not applicable.
    pub fn step(&mut self, cl: &mut Client, op: Op) -> bool {
        cl.creds(0, 0);
        self.nonroot = match op {
            Op::Create(_, _, _, c) | Op::Mkdir(_, _, c) | Op::Mknod(_, _, _, c) | Op::Symlink(_, _, _, c) => c != 0,
            _ => false,
        };
        let sh = self.w.shadow.clone();
        match op {
            Op::Lookup(d, n) => {
                let Some(p) = self.dir_node(cl, d) else { return false };
                let r = cl.lookup(&self.w.subj, p, NAMES[n].as_bytes());
                let path = sh.join(format!("{}{}", d.prefix(), NAMES[n]));
                let want = attr_of_path(&path);
                match (&r, &want) {
                    (Ok(e), Ok(_)) => {
                        self.got(e);
                        self.cmp_entry("lookup", e, &path);
                    }
                    (Err(g), Err(w)) => {
                        self.cmp_errno("lookup", *g, *w);
                    }
                    (Ok(_), Err(w)) => self.bad("lookup/errno", format!("server found {}, host errno {}", NAMES[n], w)),
                    (Err(g), Ok(_)) => {
                        self.cmp_errno("lookup", *g, 0);
                    }
                }
            }
            Op::Getattr(_d, n) => {
                let node = match self.name_node(cl, n) {
                    Ok(x) => x,
                    Err(_) => return false,
                };
                let r = cl.getattr(&self.w.subj, node, None);
                let path = sh.join(NAMES[n]);
                match r {
                    Ok(a) => {
                        let e = EntryR { nodeid: node, generation: 0, attr: a };
                        self.cmp_entry("getattr", &e, &path);
                    }
                    Err(g) => {
                        self.cmp_errno("getattr", g, 0);
                    }
                }
            }
            Op::Create(d, n, f, c) => {
                let Some(p) = self.dir_node(cl, d) else { return false };
                let (uid, gid) = CALLERS[c];
                let flags = CREATE_FLAGS[f];
                if flags & libc::O_TRUNC != 0 && self.w.enabled & k::FUSE_ATOMIC_O_TRUNC == 0 {
                    // without atomic-O_TRUNC the kernel strips the flag and truncates with SETATTR
                    return false;
                }
                let mode = 0o640u32;
                let umask = 0o022u32;
                cl.creds(uid, gid);
                let r = cl.create(&self.w.subj, p, NAMES[n].as_bytes(), flags as u32, mode, umask);
                cl.creds(0, 0);
                let rel = format!("{}{}", d.prefix(), NAMES[n]);
                let path = sh.join(&rel);
                let cp = cpath(&path);
                if let Ok(m) = std::fs::symlink_metadata(&path) {
                    let ft = m.mode() & libc::S_IFMT;
                    if ft != libc::S_IFREG && ft != libc::S_IFDIR && ft != libc::S_IFLNK {
                        // an existing special file is never opened for I/O
                        if let Ok((e, fh, _)) = &r {
                            self.bad("create/special-file", format!("CREATE on the existing special file {} succeeded (nodeid {:#x}, fh {})", rel, e.nodeid, fh));
                        }
                        return true;
                    }
                }
                let (fd, en) = as_caller(uid, gid, || {
                    let fd = unsafe { libc::open(cp.as_ptr(), flags | libc::O_CREAT | libc::O_NOFOLLOW | libc::O_CLOEXEC | libc::O_NONBLOCK, mode & !umask) };
                    (fd, errno())
                });
                match r {
                    Ok((e, fh, _)) => {
                        if fd < 0 {
                            self.bad(&format!("create/errno:0-host:{}", en), format!("server created/opened {} (flags {:#o}) as uid {}, the host call fails with errno {}", rel, flags, uid, en));
                        } else {
                            self.got(&e);
                            self.cmp_entry("create", &e, &path);
                            self.handles.push(Hnd { fh, nodeid: e.nodeid, flags, shadow: Some(unsafe { std::fs::File::from_raw_fd(fd) }), shadow_path: rel, dir: false });
                        }
                    }
                    Err(g) => {
                        if fd >= 0 {
                            unsafe { libc::close(fd) };
                            self.cmp_errno("create", g, 0);
                        } else {
                            // opening an existing symlink with O_NOFOLLOW gives ELOOP on the host; the server refuses symlinks with EBADF
                            if !(en == libc::ELOOP && g != 0) {
                                self.cmp_errno("create", g, en);
                            }
                        }
                    }
                }
            }
            Op::Mkdir(d, n, c) | Op::Mknod(d, n, _, c) | Op::Symlink(d, n, _, c) => {
                let Some(p) = self.dir_node(cl, d) else { return false };
                let (uid, gid) = CALLERS[c];
                cl.creds(uid, gid);
                let rel = format!("{}{}", d.prefix(), NAMES[n]);
                let path = sh.join(&rel);
                let cp = cpath(&path);
                let (what, r, rc_en) = match op {
                    Op::Mkdir(..) => {
                        let r = cl.mkdir(&self.w.subj, p, NAMES[n].as_bytes(), 0o2775, 0o022);
                        let x = as_caller(uid, gid, || (unsafe { libc::mkdir(cp.as_ptr(), 0o2775 & !0o022) }, errno()));
                        ("mkdir", r, x)
                    }
                    Op::Mknod(_, _, kind, _) => {
                        let mode = if kind == 0 { libc::S_IFREG | 0o644 } else { libc::S_IFIFO | 0o600 };
                        let r = cl.mknod(&self.w.subj, p, NAMES[n].as_bytes(), mode, 0, 0o022);
                        let x = as_caller(uid, gid, || (unsafe { libc::mknod(cp.as_ptr(), mode & !0o022, 0) }, errno()));
                        ("mknod", r, x)
                    }
                    Op::Symlink(_, _, t, _) => {
                        let r = cl.symlink(&self.w.subj, p, NAMES[n].as_bytes(), SYMLINK_TARGETS[t].as_bytes());
                        let ct = CString::new(SYMLINK_TARGETS[t]).unwrap();
                        let x = as_caller(uid, gid, || (unsafe { libc::symlink(ct.as_ptr(), cp.as_ptr()) }, errno()));
                        ("symlink", r, x)
                    }
                    _ => unreachable!(),
                };
                cl.creds(0, 0);
                match r {
                    Ok(e) => {
                        if rc_en.0 != 0 {
                            self.bad(&format!("{}/errno", what), format!("server succeeded as uid {}, the host call fails with errno {}", uid, rc_en.1));
                        } else {
                            self.got(&e);
                            self.cmp_entry(what, &e, &path);
                        }
                    }
                    Err(g) => {
                        self.cmp_errno(what, g, if rc_en.0 == 0 { 0 } else { rc_en.1 });
                    }
                }
            }
            Op::Link(src, d, n) => {
                let node = match self.name_node(cl, src) {
                    Ok(x) => x,
                    Err(_) => return false,
                };
                let Some(p) = self.dir_node(cl, d) else { return false };
                let r = cl.link(&self.w.subj, node, p, NAMES[n].as_bytes());
                let (cs, cd) = (cpath(&sh.join(NAMES[src])), cpath(&sh.join(format!("{}{}", d.prefix(), NAMES[n]))));
                let rc = unsafe { libc::linkat(libc::AT_FDCWD, cs.as_ptr(), libc::AT_FDCWD, cd.as_ptr(), 0) };
                let en = errno();
                match r {
                    Ok(e) => {
                        if rc != 0 {
                            self.bad("link/errno", format!("server linked, host errno {}", en));
                        } else {
                            self.got(&e);
                            self.cmp_entry("link", &e, &sh.join(format!("{}{}", d.prefix(), NAMES[n])));
                        }
                    }
                    Err(g) => {
                        self.cmp_errno("link", g, if rc == 0 { 0 } else { en });
                    }
                }
            }
            Op::Unlink(d, n) | Op::Rmdir(d, n) => {
                let Some(p) = self.dir_node(cl, d) else { return false };
                let isrm = matches!(op, Op::Rmdir(..));
                let g = if isrm { cl.rmdir(&self.w.subj, p, NAMES[n].as_bytes()) } else { cl.unlink(&self.w.subj, p, NAMES[n].as_bytes()) };
                let cp = cpath(&sh.join(format!("{}{}", d.prefix(), NAMES[n])));
                let rc = unsafe { libc::unlinkat(libc::AT_FDCWD, cp.as_ptr(), if isrm { libc::AT_REMOVEDIR } else { 0 }) };
                let en = errno();
                self.cmp_errno(if isrm { "rmdir" } else { "unlink" }, g, if rc == 0 { 0 } else { en });
            }
            Op::Rename(d1, n1, d2, n2, fl) => {
                let Some(p1) = self.dir_node(cl, d1) else { return false };
                let Some(p2) = self.dir_node(cl, d2) else { return false };
                let g = cl.rename(&self.w.subj, p1, NAMES[n1].as_bytes(), p2, NAMES[n2].as_bytes(), fl);
                let (c1, c2) = (cpath(&sh.join(format!("{}{}", d1.prefix(), NAMES[n1]))), cpath(&sh.join(format!("{}{}", d2.prefix(), NAMES[n2]))));
                let rc = unsafe { libc::syscall(libc::SYS_renameat2, libc::AT_FDCWD, c1.as_ptr(), libc::AT_FDCWD, c2.as_ptr(), fl) };
                let en = errno();
                self.cmp_errno("rename", g, if rc == 0 { 0 } else { en });
                if rc == 0 {
                    for h in self.handles.iter_mut() {
                        // handles follow the file; only the recorded name is updated for diagnostics
                        if h.shadow_path == format!("{}{}", d1.prefix(), NAMES[n1]) {
                            h.shadow_path = format!("{}{}", d2.prefix(), NAMES[n2]);
                        }
                    }
                }
            }
            Op::Open(n, _) | Op::Opendir(n) => {
                let isdirop = matches!(op, Op::Opendir(_));
                let flags = if isdirop { libc::O_RDONLY | libc::O_DIRECTORY } else { OPEN_FLAGS[if let Op::Open(_, f) = op { f } else { 0 }] };
                if flags & libc::O_TRUNC != 0 && self.w.enabled & k::FUSE_ATOMIC_O_TRUNC == 0 {
                    return false;
                }
                let node = match self.name_node(cl, n) {
                    Ok(x) => x,
                    Err(_) => return false,
                };
                let path = sh.join(NAMES[n]);
                let md = std::fs::symlink_metadata(&path).ok();
                let ft = md.as_ref().map(|m| m.mode() & libc::S_IFMT).unwrap_or(0);
                let special = ft != libc::S_IFREG && ft != libc::S_IFDIR;
                let zero_msg = if isdirop { self.w.zero_message_opendir() } else { self.w.zero_message_open() };
                let r = if isdirop { cl.opendir(&self.w.subj, node, flags as u32) } else { cl.open(&self.w.subj, node, flags as u32) };
                if zero_msg {
                    if r != Err(libc::ENOSYS) {
                        self.bad("open/zero-message", format!("zero-message open negotiated, OPEN answered {:?}", r));
                    }
                    // the client then uses handle 0 without OPEN
                    if !special {
                        let cp = cpath(&path);
                        let fd = unsafe { libc::open(cp.as_ptr(), flags | libc::O_NOFOLLOW | libc::O_CLOEXEC) };
                        if fd >= 0 {
                            self.handles.push(Hnd { fh: 0, nodeid: node, flags, shadow: Some(unsafe { std::fs::File::from_raw_fd(fd) }), shadow_path: NAMES[n].to_string(), dir: ft == libc::S_IFDIR });
                        }
                    }
                    return true;
                }
                if special {
                    // special files are looked up but never opened for I/O
                    if r.is_ok() {
                        self.bad("open/special-file", format!("OPEN of {} (type {:o}) succeeded", NAMES[n], ft));
                    }
                    return true;
                }
                let cp = cpath(&path);
                let fd = unsafe { libc::open(cp.as_ptr(), flags | libc::O_NOFOLLOW | libc::O_CLOEXEC) };
                let en = errno();
                match r {
                    Ok((fh, _)) => {
                        if fd < 0 {
                            self.bad("open/errno", format!("server opened {} with flags {:#o}, host errno {}", NAMES[n], flags, en));
                            let _ = cl.release(&self.w.subj, node, fh, flags as u32, isdirop);
                        } else {
                            self.handles.push(Hnd { fh, nodeid: node, flags, shadow: Some(unsafe { std::fs::File::from_raw_fd(fd) }), shadow_path: NAMES[n].to_string(), dir: ft == libc::S_IFDIR });
                        }
                    }
                    Err(g) => {
                        if fd >= 0 {
                            unsafe { libc::close(fd) };
                        }
                        self.cmp_errno("open", g, if fd >= 0 { 0 } else { en });
                    }
                }
            }
            Op::Read(off, len) => {
                let Some(h) = self.handles.last() else { return false };
                if h.dir || (h.flags & libc::O_ACCMODE) == libc::O_WRONLY {
                    return false;
                }
                let sfd = h.shadow.as_ref().unwrap().as_raw_fd();
                let size = h.shadow.as_ref().unwrap().metadata().map(|m| m.size()).unwrap_or(0);
                let offset = match off {
                    0 => 0,
                    1 => 1,
                    _ => size,
                };
                let (node, fh, flags) = (h.nodeid, h.fh, h.flags);
                let r = cl.read(&self.w.subj, node, fh, offset, len, flags as u32);
                let mut buf = vec![0u8; len as usize];
                let n = unsafe { libc::pread(sfd, buf.as_mut_ptr() as *mut libc::c_void, buf.len(), offset as i64) };
                let en = errno();
                match r {
                    Ok(data) => {
                        if n < 0 {
                            self.bad("read/errno", format!("server read {} bytes, host errno {}", data.len(), en));
                        } else if data != buf[..n as usize] {
                            self.bad("read/data", format!("server returned {:?}, host pread returns {:?}", String::from_utf8_lossy(&data), String::from_utf8_lossy(&buf[..n as usize])));
                        }
                    }
                    Err(g) => {
                        self.cmp_errno("read", g, if n >= 0 { 0 } else { en });
                    }
                }
            }
            Op::SetFl(append) => {
                let Some(h) = self.handles.last_mut() else { return false };
                if h.dir || h.fh == 0 {
                    return false;
                }
                let want = if append { h.flags | libc::O_APPEND } else { h.flags & !libc::O_APPEND };
                if want == h.flags {
                    return false;
                }
                h.flags = want;
                let sfd = h.shadow.as_ref().unwrap().as_raw_fd();
                unsafe { libc::fcntl(sfd, libc::F_SETFL, want & (libc::O_APPEND | libc::O_NONBLOCK | libc::O_NOATIME | libc::O_DIRECT)) };
            }
            Op::Write(off, len) => {
                let Some(h) = self.handles.last() else { return false };
                if h.dir || ((h.fh == 0 || len == 0) && (h.flags & libc::O_ACCMODE) == libc::O_RDONLY) {
                    // with zero-message open the kernel alone enforces the access mode of the open
                    // file; a zero-length write is refused by the kernel on a read-only file as well
                    return false;
                }
                let sfd = h.shadow.as_ref().unwrap().as_raw_fd();
                let size = h.shadow.as_ref().unwrap().metadata().map(|m| m.size()).unwrap_or(0);
                let append = h.flags & libc::O_APPEND != 0;
                let offset = if append {
                    size
                } else {
                    match off {
                        0 => 0,
                        1 => size,
                        _ => size + 1,
                    }
                };
                let data: Vec<u8> = b"WXYZ"[..len.min(4)].to_vec();
                let (node, fh, flags) = (h.nodeid, h.fh, h.flags);
                let r = cl.write(&self.w.subj, node, fh, offset, &data, flags as u32, 0);
                let n = unsafe { libc::pwrite(sfd, data.as_ptr() as *const libc::c_void, data.len(), offset as i64) };
                let en = errno();
                match r {
                    Ok(cnt) => {
                        if n < 0 {
                            self.bad("write/errno", format!("server wrote {} bytes, host errno {}", cnt, en));
                        } else if cnt as isize != n {
                            self.bad("write/count", format!("server wrote {}, host {}", cnt, n));
                        }
                    }
                    Err(g) => {
                        self.cmp_errno("write", g, if n >= 0 { 0 } else { en });
                    }
                }
            }
            Op::Setattr(n, kind, use_fh) => {
                let node = match self.name_node(cl, n) {
                    Ok(x) => x,
                    Err(_) => return false,
                };
                let path = sh.join(NAMES[n]);
                let hidx = if use_fh { self.handles.iter().rposition(|h| h.nodeid == node && !h.dir) } else { None };
                if use_fh && hidx.is_none() {
                    return false;
                }
                if let Some(hi) = hidx {
                    let h = &self.handles[hi];
                    if h.fh == 0 && (4..=6).contains(&kind) && (h.flags & libc::O_ACCMODE) == libc::O_RDONLY {
                        return false;
                    }
                }
                let cur_size = std::fs::symlink_metadata(&path).map(|m| m.size()).unwrap_or(0);
                let mut fields: Vec<(&str, u64)> = Vec::new();
                let mut valid = 0u64;
                if let Some(hi) = hidx {
                    valid |= k::FATTR_FH;
                    fields.push(("fh", self.handles[hi].fh));
                }
                let cp = cpath(&path);
                let sfd = hidx.map(|hi| self.handles[hi].shadow.as_ref().unwrap().as_raw_fd());
                // host side
                let (rc, en) = match kind {
                    0 => {
                        valid |= k::FATTR_MODE;
                        fields.push(("mode", 0o100600));
                        let rc = match sfd {
                            Some(fd) => unsafe { libc::fchmod(fd, 0o600) },
                            None => unsafe { libc::chmod(cp.as_ptr(), 0o600) },
                        };
                        (rc, errno())
                    }
                    1 | 2 | 3 => {
                        let (u, g) = match kind {
                            1 => (1000u32, u32::MAX),
                            2 => (u32::MAX, 1000u32),
                            _ => (1000, 1000),
                        };
                        if u != u32::MAX {
                            valid |= k::FATTR_UID;
                            fields.push(("uid", u as u64));
                        }
                        if g != u32::MAX {
                            valid |= k::FATTR_GID;
                            fields.push(("gid", g as u64));
                        }
                        let rc = unsafe { libc::lchown(cp.as_ptr(), u, g) };
                        (rc, errno())
                    }
                    4 | 5 | 6 => {
                        let sz = match kind {
                            4 => 0u64,
                            5 => 3,
                            _ => cur_size + 5,
                        };
                        valid |= k::FATTR_SIZE;
                        fields.push(("size", sz));
                        let rc = match sfd {
                            Some(fd) => unsafe { libc::ftruncate(fd, sz as i64) },
                            None => unsafe { libc::truncate(cp.as_ptr(), sz as i64) },
                        };
                        (rc, errno())
                    }
                    8 | 9 => {
                        // one time stamp only: the other one must stay what it was
                        let omit = libc::timespec { tv_sec: 0, tv_nsec: libc::UTIME_OMIT };
                        let ts = if kind == 8 {
                            valid |= k::FATTR_ATIME;
                            fields.push(("atime", 3_000_000));
                            fields.push(("atimensec", 11));
                            [libc::timespec { tv_sec: 3_000_000, tv_nsec: 11 }, omit]
                        } else {
                            valid |= k::FATTR_MTIME;
                            fields.push(("mtime", 4_000_000));
                            fields.push(("mtimensec", 13));
                            [omit, libc::timespec { tv_sec: 4_000_000, tv_nsec: 13 }]
                        };
                        let rc = match sfd {
                            Some(fd) => unsafe { libc::futimens(fd, ts.as_ptr()) },
                            None => unsafe { libc::utimensat(libc::AT_FDCWD, cp.as_ptr(), ts.as_ptr(), 0) },
                        };
                        (rc, errno())
                    }
                    _ => {
                        valid |= k::FATTR_ATIME | k::FATTR_MTIME;
                        fields.push(("atime", 1_000_000));
                        fields.push(("atimensec", 5));
                        fields.push(("mtime", 2_000_000));
                        fields.push(("mtimensec", 7));
                        let ts = [libc::timespec { tv_sec: 1_000_000, tv_nsec: 5 }, libc::timespec { tv_sec: 2_000_000, tv_nsec: 7 }];
                        let rc = match sfd {
                            Some(fd) => unsafe { libc::futimens(fd, ts.as_ptr()) },
                            None => unsafe { libc::utimensat(libc::AT_FDCWD, cp.as_ptr(), ts.as_ptr(), 0) },
                        };
                        (rc, errno())
                    }
                };
                fields.push(("valid", valid));
                let r = cl.setattr(&self.w.subj, node, &fields);
                match r {
                    Ok(a) => {
                        if rc != 0 {
                            self.bad("setattr/errno", format!("server applied setattr kind {}, host errno {}", kind, en));
                        } else {
                            let e = EntryR { nodeid: node, generation: 0, attr: a.clone() };
                            self.cmp_entry("setattr", &e, &path);
                            if kind == 7 {
                                let m = std::fs::symlink_metadata(&path).unwrap();
                                if (a.atime, a.atimensec, a.mtime, a.mtimensec) != (m.atime() as u64, m.atime_nsec() as u32, m.mtime() as u64, m.mtime_nsec() as u32) {
                                    self.bad("setattr/times", format!("explicit times: reply ({},{},{},{}) host ({},{},{},{})", a.atime, a.atimensec, a.mtime, a.mtimensec, m.atime(), m.atime_nsec(), m.mtime(), m.mtime_nsec()));
                                }
                                // the exported file itself
                                if let Ok(me) = std::fs::symlink_metadata(self.w.exp.join(NAMES[n])) {
                                    if (me.atime(), me.mtime()) != (1_000_000, 2_000_000) {
                                        self.bad("setattr/times", format!("exported file has atime {} mtime {}", me.atime(), me.mtime()));
                                    }
                                }
                            }
                            if kind == 8 || kind == 9 {
                                // the time stamp that was set, in the reply and on the exported file (the other one is not
                                // compared: reading the shadow file may move its atime)
                                let m = std::fs::symlink_metadata(&path).unwrap();
                                let me = std::fs::symlink_metadata(self.w.exp.join(NAMES[n])).ok();
                                let (rep_t, host_t, exp_t, want) = if kind == 8 {
                                    ((a.atime, a.atimensec), (m.atime() as u64, m.atime_nsec() as u32), me.as_ref().map(|x| (x.atime() as u64, x.atime_nsec() as u32)), (3_000_000u64, 11u32))
                                } else {
                                    ((a.mtime, a.mtimensec), (m.mtime() as u64, m.mtime_nsec() as u32), me.as_ref().map(|x| (x.mtime() as u64, x.mtime_nsec() as u32)), (4_000_000u64, 13u32))
                                };
                                if host_t == want && (rep_t != want || exp_t != Some(want)) {
                                    self.bad("setattr/single-time", format!("setattr of {} only: reply carries {:?}, the exported file has {:?}, the host call gives {:?}", if kind == 8 { "atime" } else { "mtime" }, rep_t, exp_t, host_t));
                                }
                            }
                        }
                    }
                    Err(g) => {
                        self.cmp_errno("setattr", g, if rc == 0 { 0 } else { en });
                    }
                }
            }
            Op::Fallocate(m) => {
                let Some(h) = self.handles.last() else { return false };
                if h.dir || (h.fh == 0 && (h.flags & libc::O_ACCMODE) == libc::O_RDONLY) {
                    return false;
                }
                let sfd = h.shadow.as_ref().unwrap().as_raw_fd();
                let (node, fh) = (h.nodeid, h.fh);
                let g = cl.fallocate(&self.w.subj, node, fh, FALLOC_MODES[m] as u32, 0, 8192);
                let rc = unsafe { libc::fallocate(sfd, FALLOC_MODES[m], 0, 8192) };
                let en = errno();
                self.cmp_errno("fallocate", g, if rc == 0 { 0 } else { en });
            }
            Op::Lseek(kind) => {
                let Some(h) = self.handles.last() else { return false };
                if h.dir || self.w.cfg.behind_vfs {
                    // the Vfs type leaves lseek at the trait default (ENOSYS; the kernel then seeks itself)
                    return false;
                }
                let sfd = h.shadow.as_ref().unwrap().as_raw_fd();
                let (node, fh) = (h.nodeid, h.fh);
                let (off, wh) = match kind {
                    0 => (1u64, libc::SEEK_SET),
                    1 => (0, libc::SEEK_END),
                    2 => (0, libc::SEEK_DATA),
                    _ => (0, libc::SEEK_HOLE),
                };
                let r = cl.lseek(&self.w.subj, node, fh, off, wh as u32);
                let n = unsafe { libc::lseek(sfd, off as i64, wh) };
                let en = errno();
                match r {
                    Ok(o) => {
                        if n < 0 || o != n as u64 {
                            self.bad("lseek/offset", format!("server says {}, host says {} (errno {})", o, n, en));
                        }
                    }
                    Err(g) => {
                        self.cmp_errno("lseek", g, if n >= 0 { 0 } else { en });
                    }
                }
            }
            Op::SetX(n, _) | Op::RemX(n) | Op::GetX(n, _) | Op::ListX(n, _) => {
                let node = match self.name_node(cl, n) {
                    Ok(x) => x,
                    Err(_) => return false,
                };
                let cp = cpath(&sh.join(NAMES[n]));
                let name = CString::new("user.fbrv").unwrap();
                match op {
                    Op::SetX(_, v) => {
                        let val: &[u8] = if v == 0 { b"value-0" } else { b"" };
                        let g = cl.setxattr(&self.w.subj, node, b"user.fbrv", val, 0);
                        if !self.w.cfg.xattr {
                            self.cmp_errno("setxattr", g, libc::ENOSYS);
                        } else {
                            let rc = unsafe { libc::lsetxattr(cp.as_ptr(), name.as_ptr(), val.as_ptr() as *const libc::c_void, val.len(), 0) };
                            let en = errno();
                            self.cmp_errno("setxattr", g, if rc == 0 { 0 } else { en });
                        }
                    }
                    Op::RemX(_) => {
                        let g = cl.removexattr(&self.w.subj, node, b"user.fbrv");
                        if !self.w.cfg.xattr {
                            self.cmp_errno("removexattr", g, libc::ENOSYS);
                        } else {
                            let rc = unsafe { libc::lremovexattr(cp.as_ptr(), name.as_ptr()) };
                            let en = errno();
                            self.cmp_errno("removexattr", g, if rc == 0 { 0 } else { en });
                        }
                    }
                    Op::GetX(_, size) | Op::ListX(_, size) => {
                        let isget = matches!(op, Op::GetX(..));
                        let r = if isget { cl.getxattr(&self.w.subj, node, b"user.fbrv", size) } else { cl.listxattr(&self.w.subj, node, size) };
                        let what = if isget { "getxattr" } else { "listxattr" };
                        if !self.w.cfg.xattr {
                            let g = r.err().unwrap_or(0);
                            self.cmp_errno(what, g, libc::ENOSYS);
                        } else {
                            let mut buf = vec![0u8; size as usize];
                            let n = if isget {
                                unsafe { libc::lgetxattr(cp.as_ptr(), name.as_ptr(), buf.as_mut_ptr() as *mut libc::c_void, buf.len()) }
                            } else {
                                unsafe { libc::llistxattr(cp.as_ptr(), buf.as_mut_ptr() as *mut libc::c_char, buf.len()) }
                            };
                            let en = errno();
                            match r {
                                Ok(body) => {
                                    if n < 0 {
                                        self.bad(&format!("{}/errno", what), format!("server succeeded, host errno {}", en));
                                    } else if size == 0 {
                                        let got = if body.len() == 8 { crate::wire::get_at(&body, 0, 4) as isize } else { -1 };
                                        if got != n {
                                            self.bad(&format!("{}/size", what), format!("size probe: server {}, host {}", got, n));
                                        }
                                    } else if body != buf[..n as usize] {
                                        self.bad(&format!("{}/value", what), format!("server {:?}, host {:?}", String::from_utf8_lossy(&body), String::from_utf8_lossy(&buf[..n as usize])));
                                    }
                                }
                                Err(g) => {
                                    self.cmp_errno(what, g, if n >= 0 { 0 } else { en });
                                }
                            }
                        }
                    }
                    _ => unreachable!(),
                }
            }
            Op::Readlink(n) => {
                let node = match self.name_node(cl, n) {
                    Ok(x) => x,
                    Err(_) => return false,
                };
                let r = cl.readlink(&self.w.subj, node);
                let cp = cpath(&sh.join(NAMES[n]));
                let mut buf = vec![0u8; 4096];
                let nn = unsafe { libc::readlink(cp.as_ptr(), buf.as_mut_ptr() as *mut libc::c_char, buf.len()) };
                let en = errno();
                match r {
                    Ok(t) => {
                        if nn < 0 {
                            // readlinkat(fd, "") on a non-symlink: the host call on the path gives EINVAL
                            self.bad("readlink/errno", format!("server returned {:?}, host errno {}", String::from_utf8_lossy(&t), en));
                        } else if t != buf[..nn as usize] {
                            self.bad("readlink/target", format!("server {:?}, host {:?}", String::from_utf8_lossy(&t), String::from_utf8_lossy(&buf[..nn as usize])));
                        }
                    }
                    Err(g) => {
                        // readlinkat(O_PATH fd, "") reports ENOENT for non-symlinks where readlink(path) reports EINVAL
                        if !(nn < 0 && en == libc::EINVAL && g == libc::ENOENT) {
                            self.cmp_errno("readlink", g, if nn >= 0 { 0 } else { en });
                        }
                    }
                }
            }
            Op::Statfs => {
                let r = cl.statfs(&self.w.subj, 1);
                let mut sv: libc::statvfs64 = unsafe { std::mem::zeroed() };
                let cp = cpath(&sh);
                let rc = unsafe { libc::statvfs64(cp.as_ptr(), &mut sv) };
                if r.ok() && rc == 0 && r.body.len() == k::FUSE_STATFS_OUT.size {
                    let g = |f: &str| crate::wire::get(&r.body, &k::FUSE_STATFS_OUT, f);
                    let got = (g("st.bsize"), g("st.frsize"), g("st.namelen"), g("st.blocks"), g("st.files"));
                    let want = (sv.f_bsize, sv.f_frsize, sv.f_namemax, sv.f_blocks, sv.f_files);
                    if got != want {
                        self.bad("statfs/fields", format!("server (bsize,frsize,namelen,blocks,files) = {:?}, host {:?}", got, want));
                    }
                } else {
                    self.cmp_errno("statfs", r.errno, if rc == 0 { 0 } else { errno() });
                }
            }
            Op::Fsync(datasync) => {
                let Some(h) = self.handles.last() else { return false };
                let sfd = h.shadow.as_ref().unwrap().as_raw_fd();
                let (node, fh, dir) = (h.nodeid, h.fh, h.dir);
                let g = cl.fsync(&self.w.subj, node, fh, datasync, dir);
                let rc = unsafe { if datasync { libc::fdatasync(sfd) } else { libc::fsync(sfd) } };
                let en = errno();
                self.cmp_errno("fsync", g, if rc == 0 { 0 } else { en });
            }
            Op::Flush => {
                let Some(h) = self.handles.last() else { return false };
                if h.dir {
                    return false;
                }
                let (node, fh) = (h.nodeid, h.fh);
                let g = cl.flush(&self.w.subj, node, fh);
                let zero = self.w.zero_message_open();
                // flush = close(dup(fd)); with zero-message open the client does not send FLUSH
                if !zero {
                    self.cmp_errno("flush", g, 0);
                }
            }
            Op::Release => {
                let Some(h) = self.handles.pop() else { return false };
                let zero = if h.dir { self.w.zero_message_opendir() } else { self.w.zero_message_open() };
                if !zero {
                    let g = cl.release(&self.w.subj, h.nodeid, h.fh, h.flags as u32, h.dir);
                    self.cmp_errno("release", g, 0);
                }
            }
        }
        // serving thread credentials and capabilities are what they were
        let (u, g, cap) = thread_creds();
        if u != 0 || g != 0 || !cap {
            self.bad("credentials-leaked", format!("after {:?} the serving thread runs as uid {} gid {} CAP_FSETID {}", op, u, g, cap));
            unsafe {
                libc::syscall(libc::SYS_setresuid, -1i32, 0u32, -1i32);
                libc::syscall(libc::SYS_setresgid, -1i32, 0u32, -1i32);
            }
        }
        true
    }

    pub fn compare_trees(&mut self) {
        let a = snap(&self.w.exp);
        let b = snap(&self.w.shadow);
        if let Some(d) = snap_diff(&a, &b) {
            self.bad("tree-differs", format!("exported tree vs tree produced by the host calls: {}", d));
        }
    }
}

fn op_kind(op: &Op) -> String {
    let s = format!("{:?}", op);
    s.split('(').next().unwrap_or(&s).to_string()
}

pub struct SeqRun<'a> {
    pub rep: &'a mut Report,
    pub cl: Client,
    pub prop: &'static str,
}

impl<'a> SeqRun<'a> {
    /// Runs one C05 sequence from a fresh world; returns true if it was cut by a violation or is
    /// not applicable (so that it is not extended).
    fn c05_seq(&mut self, cfg: &PtCfg, seq: &[Op]) -> bool {
        let mut pt = Pt::new(cfg, &mut self.cl);
        let n0 = self.cl.nreq;
        let mut applicable = true;
        for op in seq {
            if !pt.step(&mut self.cl, *op) {
                applicable = false;
                break;
            }
            pt.compare_trees();
            if !pt.problems.is_empty() {
                break;
            }
        }
        if !applicable {
            return true;
        }
        self.rep.eval();
        self.rep.transitions += self.cl.nreq - n0;
        let last = op_kind(seq.last().unwrap());
        self.rep.outcome(&format!("{}:{}", last, if pt.problems.is_empty() { "agrees" } else { "VIOLATION" }));
        let s = snap(&pt.w.exp);
        self.rep.state_of(&(cfg.label(), s.iter().map(|(k, v)| (k.clone(), v.mode, v.uid, v.size, v.nlink, v.content.clone(), v.target.clone())).collect::<Vec<_>>(), pt.handles.len()));
        self.rep.sample(|| json!({"config": cfg.label(), "sequence": format!("{:?}", seq)}));
        let cut = !pt.problems.is_empty();
        let mut seen = BTreeSet::new();
        for (class, msg) in &pt.problems {
            if !seen.insert(class.clone()) {
                continue;
            }
            let seqs = format!("{:?}", seq);
            let cfgl = cfg.label();
            self.rep.violation(&format!("{}/{}", self.prop, class), msg, || json!({"engine": "ptfs-c05", "config": cfgl, "sequence": seqs}));
        }
        cut
    }

    fn c05_rec(&mut self, cfg: &PtCfg, seq: &mut Vec<Op>, alphabet: &[Op], depth: usize) {
        let cut = self.c05_seq(cfg, seq);
        if cut || seq.len() >= depth || self.rep.over_budget() {
            return;
        }
        for op in alphabet {
            seq.push(*op);
            self.c05_rec(cfg, seq, alphabet, depth);
            seq.pop();
        }
    }
}

pub fn c05(args: &Args) -> Report {
    let mut rep = args.report();
    let thorough = args.thorough();
    let pw = PtCfg::pairwise();
    let (tm, ex): (Vec<PtCfg>, Vec<PtCfg>) = pw.iter().cloned().partition(|c| !c.ext4);
    let passes: Vec<(Vec<PtCfg>, usize, bool)> = if thorough {
        vec![(PtCfg::all().into_iter().filter(|c| !c.killpriv_v2 && !c.ext4).collect(), 2, true), (PtCfg::all().into_iter().filter(|c| !c.killpriv_v2 && c.ext4).collect(), 2, false), (tm.clone(), 3, false)]
    } else {
        // ext4 worlds cost ten times a tmpfs world: two of them, reduced alphabet
        vec![(tm.clone(), 2, true), (ex.into_iter().take(1).collect(), 2, false)]
    };
    let mut idx = 0u64;
    let mut run = SeqRun { rep: &mut rep, cl: Client::new(), prop: "C05" };
    run.cl.cap = 1 << 17;
    for (cfgs, depth, rich) in &passes {
        let alphabet = c05_alphabet(*rich);
        for cfg in cfgs {
            for op in &alphabet {
                if run.rep.mine(idx) {
                    let mut seq = vec![*op];
                    run.c05_rec(cfg, &mut seq, &alphabet, *depth);
                }
                idx += 1;
            }
        }
    }
    // targeted deeper histories (beyond the SEQ depth), in every tier: unlink + re-create while the
    // client still holds the old inode (inode-number reuse on ext4), rename chains, truncate + append
    {
        let t: Vec<Vec<Op>> = vec![
            vec![Op::Mknod(D::Root, 1, 0, 0), Op::Unlink(D::Root, 1), Op::Mknod(D::Root, 1, 0, 0), Op::Getattr(D::Root, 1), Op::Setattr(1, 0, false)],
            vec![Op::Create(D::Root, 1, 0, 0), Op::Release, Op::Unlink(D::Root, 1), Op::Create(D::Root, 1, 0, 0), Op::Write(0, 2), Op::Getattr(D::Root, 1), Op::SetX(1, 0)],
            vec![Op::Lookup(D::Root, 0), Op::Unlink(D::Root, 0), Op::Mkdir(D::Root, 0, 0), Op::Getattr(D::Root, 0), Op::Rmdir(D::Root, 0), Op::Mknod(D::Root, 0, 0, 0), Op::Getattr(D::Root, 0)],
            vec![Op::Rename(D::Root, 0, D::Root, 1, 0), Op::Rename(D::Root, 1, D::Dd, 1, 0), Op::Lookup(D::Dd, 1), Op::Mknod(D::Root, 0, 0, 0), Op::Rename(D::Root, 0, D::Root, 5, 2), Op::Getattr(D::Root, 0)],
            vec![Op::Open(0, 3), Op::Write(0, 2), Op::Write(0, 2), Op::Setattr(0, 5, true), Op::Write(0, 2), Op::Read(0, 4096), Op::Release, Op::Open(0, 0), Op::Read(0, 4096)],
            vec![Op::Symlink(D::Root, 1, 0, 0), Op::Readlink(1), Op::Unlink(D::Root, 1), Op::Symlink(D::Root, 1, 1, 0), Op::Readlink(1), Op::Lookup(D::Root, 1)],
            // the client toggles O_APPEND on an open file: the request flags change back and forth on one handle
            vec![Op::Open(0, 1), Op::SetFl(true), Op::Write(0, 2), Op::SetFl(false), Op::Write(0, 2), Op::Write(1, 2), Op::SetFl(true), Op::Write(0, 2), Op::Release, Op::Open(0, 0), Op::Read(0, 4096)],
            vec![Op::Open(0, 3), Op::SetFl(false), Op::Write(0, 2), Op::SetFl(true), Op::Write(0, 2), Op::SetFl(false), Op::Write(0, 2), Op::Release, Op::Open(0, 0), Op::Read(0, 4096)],
        ];
        let b = PtCfg::base();
        let cfgs = vec![
            PtCfg { ext4: true, inode_file_handles: true, ..b.clone() },
            PtCfg { ext4: true, inode_file_handles: true, use_host_ino: true, ..b.clone() },
            PtCfg { ext4: true, ..b.clone() },
            PtCfg { inode_file_handles: true, ..b.clone() },
            PtCfg { behind_vfs: true, ext4: true, inode_file_handles: true, ..b.clone() },
        ];
        let mut run = SeqRun { rep: &mut rep, cl: Client::new(), prop: "C05" };
        run.cl.cap = 1 << 17;
        for cfg in &cfgs {
            for seq in &t {
                for rounds in 0..4 {
                    // ext4 hands a freed inode number out again at once; a few rounds make sure of it
                    if run.rep.mine(idx) {
                        for n in 1..=seq.len() {
                            if run.c05_seq(cfg, &seq[..n]) {
                                break;
                            }
                        }
                    }
                    idx += 1;
                    let _ = rounds;
                }
            }
        }
    }
    rep.set("first_step_units_all_shards", json!(idx));
    rep.set("passes", json!(passes.iter().map(|(c, d, r)| format!("{} configurations, depth {}, alphabet {}", c.len(), d, if *r { "full" } else { "reduced" })).collect::<Vec<_>>()));
    rep
}

pub fn _keep(_: Value, _: PathBuf) {}

pub fn debug_timing() {
    use std::time::Instant;
    let mut cl = Client::new();
    cl.cap = 1 << 17;
    for cfg in [PtCfg::base(), PtCfg { ext4: true, ..PtCfg::base() }, PtCfg { behind_vfs: true, ..PtCfg::base() }, PtCfg { inode_file_handles: true, ..PtCfg::base() }] {
        let t = Instant::now();
        for _ in 0..200 {
            let pt = Pt::new(&cfg, &mut cl);
            drop(pt);
        }
        let a = t.elapsed().as_secs_f64() / 200.0;
        let mut pt = Pt::new(&cfg, &mut cl);
        let t = Instant::now();
        for _ in 0..200 {
            pt.compare_trees();
        }
        let b = t.elapsed().as_secs_f64() / 200.0;
        let t = Instant::now();
        for _ in 0..200 {
            pt.step(&mut cl, Op::Lookup(D::Root, 0));
        }
        let c = t.elapsed().as_secs_f64() / 200.0;
        println!("{}: world new+drop {:.0} us, compare_trees {:.0} us, lookup step {:.0} us", cfg.label(), a * 1e6, b * 1e6, c * 1e6);
    }
}

// ------------------------------------------------------------------------------------------------
// C08: inode validity == client lookup references

/// Identity of a host file: device + file handle bytes (inode number and generation), so that a
/// recycled inode number is a different file.
pub fn host_identity(p: &Path) -> Option<(u64, Vec<u8>)> {
    let md = std::fs::symlink_metadata(p).ok()?;
    let c = cpath(p);
    #[repr(C)]
    struct Fh {
        bytes: u32,
        typ: i32,
        data: [u8; 128],
    }
    let mut fh = Fh { bytes: 128, typ: 0, data: [0; 128] };
    let mut mnt = 0i32;
    let rc = unsafe { libc::syscall(libc::SYS_name_to_handle_at, libc::AT_FDCWD, c.as_ptr(), &mut fh as *mut Fh, &mut mnt as *mut i32, 0) };
    if rc == 0 {
        let mut v = fh.typ.to_le_bytes().to_vec();
        v.extend_from_slice(&fh.data[..fh.bytes as usize]);
        Some((md.dev(), v))
    } else {
        Some((md.dev(), md.ino().to_le_bytes().to_vec()))
    }
}

#[derive(Clone, Debug)]
pub struct NodeInfo {
    pub count: u64,
    pub ident: (u64, Vec<u8>),
    pub host_ino: u64,
    pub seen_as: String,
}

#[derive(Clone, Copy, Debug, PartialEq, Eq, Hash)]
pub enum ROp {
    Lookup(D, usize),
    Create(usize),
    Mkdir(usize),
    Mknod(usize),
    Symlink(usize),
    Link(usize, usize),
    ReaddirPlus(usize),
    Readdir,
    /// forget the k-th known inode number by (1 | its count | count+1 | u64::MAX)
    Forget(usize, u8),
    BatchForget,
    /// a batch that names one inode more than once: [(first, 1), (second, 1), (first, 1), (first, 1)]
    BatchForgetRepeat,
    Rename(usize, usize),
    Unlink(usize),
    Rmdir(usize),
    Getattr(usize),
}

pub fn c08_alphabet(rich: bool) -> Vec<ROp> {
    let mut v = vec![
        ROp::Lookup(D::Root, 0), ROp::Lookup(D::Root, 1), ROp::Lookup(D::Root, 5), ROp::Lookup(D::Root, 4), ROp::Lookup(D::Dd, 0),
        ROp::Create(1), ROp::Create(0), ROp::Create(4), ROp::Create(2), ROp::Mkdir(1), ROp::Mknod(1), ROp::Symlink(1), ROp::Link(0, 1),
        ROp::ReaddirPlus(0), ROp::ReaddirPlus(1), ROp::ReaddirPlus(2), ROp::Readdir,
        ROp::BatchForget, ROp::BatchForgetRepeat, ROp::Rename(0, 1), ROp::Rename(1, 0), ROp::Unlink(0), ROp::Unlink(1), ROp::Unlink(5), ROp::Rmdir(1),
    ];
    for slot in 0..if rich { 3 } else { 2 } {
        for kind in 0..4u8 {
            v.push(ROp::Forget(slot, kind));
        }
    }
    if rich {
        v.push(ROp::Lookup(D::Root, 2));
        v.push(ROp::Lookup(D::Root, 3));
        v.push(ROp::Getattr(0));
    }
    v
}

pub struct RefWorld {
    pub w: PtWorld,
    pub nodes: BTreeMap<u64, NodeInfo>,
    pub order: Vec<u64>,
    pub problems: Vec<(String, String)>,
    pub base_tables: (usize, usize, usize),
    pub base_fds: usize,
    pub recycled: bool,
}

impl RefWorld {
    pub fn new(cfg: &PtCfg, cl: &mut Client) -> RefWorld {
        let w = PtWorld::new(cfg, cl, true);
        let base_tables = w.table_sizes();
        let base_fds = fd_count();
        RefWorld { w, nodes: BTreeMap::new(), order: Vec::new(), problems: Vec::new(), base_tables, base_fds, recycled: false }
    }

    fn bad(&mut self, class: &str, msg: String) {
        let tag = if self.w.cfg.use_host_ino && self.w.cfg.inode_file_handles { "@use_host_ino+file_handles" } else { "" };
        self.problems.push((format!("{}{}", class, tag), msg));
    }

    /// Is a file with this identity still linked somewhere in the export?
    fn still_linked(&self, ident: &(u64, Vec<u8>)) -> bool {
        fn walk(dir: &Path, ident: &(u64, Vec<u8>)) -> bool {
            if let Ok(rd) = std::fs::read_dir(dir) {
                for e in rd.flatten() {
                    let p = e.path();
                    if host_identity(&p).as_ref() == Some(ident) {
                        return true;
                    }
                    if e.file_type().map(|t| t.is_dir()).unwrap_or(false) && walk(&p, ident) {
                        return true;
                    }
                }
            }
            false
        }
        walk(&self.w.exp, ident)
    }

    fn exp_path(&self, d: D, n: usize) -> PathBuf {
        self.w.exp.join(format!("{}{}", d.prefix(), NAMES[n]))
    }

    /// An entry was delivered to the client for the object at `path`.
    pub fn delivered(&mut self, what: &str, e: &EntryR, path: &Path) {
        if e.nodeid == 0 {
            return;
        }
        let ident = match host_identity(path) {
            Some(i) => i,
            None => {
                self.bad(&format!("{}/phantom-entry", what), format!("entry {:#x} returned for {:?} which does not exist", e.nodeid, path));
                return;
            }
        };
        let host_ino = std::fs::symlink_metadata(path).map(|m| m.ino()).unwrap_or(0);
        // a host file has one inode number ...
        let other = self.nodes.iter().find(|(n, i)| **n != e.nodeid && i.ident == ident).map(|(n, i)| (*n, i.count));
        if let Some((on, oc)) = other {
            let class = if oc > 0 { "two-numbers-for-one-file" } else { "number-changed-after-forget" };
            self.bad(&format!("{}/{}", what, class), format!("{:?} was known as inode {:#x} (count {}), now returned as {:#x}", path, on, oc, e.nodeid));
        }
        // ... and an inode number denotes one host file
        if let Some(cur) = self.nodes.get(&e.nodeid) {
            if cur.ident != ident && cur.count > 0 {
                let s = cur.seen_as.clone();
                if self.w.cfg.use_host_ino && self.w.cfg.inode_file_handles {
                    // inode numbers are the host's, nothing pins the host inode: the host recycled the number of an
                    // unlinked file the client still references. One signature for this event; the model of this
                    // number is void from here on.
                    self.recycled = true;
                    self.problems.clear();
                    self.problems.push((
                        "host-inode-number-recycled-while-referenced@use_host_ino+file_handles".to_string(),
                        format!("inode {:#x} denotes {} (still referenced) and is now also returned for the new object {:?}", e.nodeid, s, path),
                    ));
                    return;
                }
                self.bad(&format!("{}/one-number-for-two-files", what), format!("inode {:#x} denotes {} and is now also returned for {:?}", e.nodeid, s, path));
            }
        }
        let ent = self.nodes.entry(e.nodeid).or_insert(NodeInfo { count: 0, ident: ident.clone(), host_ino, seen_as: path.to_string_lossy().to_string() });
        if ent.count == 0 {
            ent.ident = ident;
            ent.host_ino = host_ino;
            ent.seen_as = path.to_string_lossy().to_string();
        }
        ent.count = ent.count.saturating_add(1);
        if !self.order.contains(&e.nodeid) {
            self.order.push(e.nodeid);
        }
    }

    fn forget_model(&mut self, node: u64, n: u64) {
        if node == 1 {
            return;
        }
        if let Some(i) = self.nodes.get_mut(&node) {
            i.count = i.count.saturating_sub(n);
        }
    }

    pub fn dir_node(&mut self, cl: &mut Client, d: D) -> Option<u64> {
        match d {
            D::Root => Some(1),
            D::Dd | D::Pub => {
                let name = if d == D::Dd { "d" } else { "pub" };
                let p = self.w.exp.join(name);
                match cl.lookup(&self.w.subj, 1, name.as_bytes()) {
                    Ok(e) => {
                        self.delivered("lookup", &e, &p);
                        Some(e.nodeid)
                    }
                    Err(_) => None,
                }
            }
        }
    }

    pub fn step(&mut self, cl: &mut Client, op: ROp) -> bool {
        cl.creds(0, 0);
        match op {
            ROp::Lookup(d, n) => {
                let Some(p) = self.dir_node(cl, d) else { return false };
                let path = self.exp_path(d, n);
                if let Ok(e) = cl.lookup(&self.w.subj, p, NAMES[n].as_bytes()) {
                    self.delivered("lookup", &e, &path);
                }
            }
            ROp::Create(n) => {
                let path = self.exp_path(D::Root, n);
                if let Ok((e, fh, _)) = cl.create(&self.w.subj, 1, NAMES[n].as_bytes(), libc::O_RDWR as u32, 0o644, 0o022) {
                    self.delivered("create", &e, &path);
                    if !self.w.zero_message_open() {
                        let _ = cl.release(&self.w.subj, e.nodeid, fh, 0, false);
                    }
                }
            }
            ROp::Mkdir(n) | ROp::Mknod(n) | ROp::Symlink(n) => {
                let path = self.exp_path(D::Root, n);
                let r = match op {
                    ROp::Mkdir(_) => cl.mkdir(&self.w.subj, 1, NAMES[n].as_bytes(), 0o755, 0o022),
                    ROp::Mknod(_) => cl.mknod(&self.w.subj, 1, NAMES[n].as_bytes(), libc::S_IFREG | 0o644, 0, 0o022),
                    _ => cl.symlink(&self.w.subj, 1, NAMES[n].as_bytes(), b"a"),
                };
                if let Ok(e) = r {
                    self.delivered("create-op", &e, &path);
                }
            }
            ROp::Link(src, dst) => {
                let sp = self.exp_path(D::Root, src);
                let node = match cl.lookup(&self.w.subj, 1, NAMES[src].as_bytes()) {
                    Ok(e) => {
                        self.delivered("lookup", &e, &sp);
                        e.nodeid
                    }
                    Err(_) => return false,
                };
                let path = self.exp_path(D::Root, dst);
                if let Ok(e) = cl.link(&self.w.subj, node, 1, NAMES[dst].as_bytes()) {
                    self.delivered("link", &e, &path);
                }
            }
            ROp::ReaddirPlus(_) | ROp::Readdir => {
                let plus = matches!(op, ROp::ReaddirPlus(_));
                let size = match op {
                    ROp::ReaddirPlus(0) => 8192u32,
                    ROp::ReaddirPlus(1) => 2 * 160,
                    ROp::ReaddirPlus(_) => 160 + 159,
                    _ => 4096,
                };

                let (fh, opened) = if self.w.zero_message_opendir() {
                    (0, false)
                } else {
                    match cl.opendir(&self.w.subj, 1, 0) {
                        Ok((fh, _)) => (fh, true),
                        Err(_) => return false,
                    }
                };
                if let Ok(ents) = cl.readdir(&self.w.subj, 1, fh, 0, size, plus) {
                    for d in &ents {
                        if let Some(eb) = &d.entry {
                            let e = crate::client::parse_entry(eb);
                            let name = String::from_utf8_lossy(&d.name).to_string();
                            let path = self.w.exp.join(&name);
                            // the kernel takes a reference for every readdirplus entry with a non-zero nodeid (except . and ..)
                            self.delivered("readdirplus", &e, &path);
                        }
                    }
                }
                if opened {
                    let _ = cl.release(&self.w.subj, 1, fh, 0, true);
                }
            }
            ROp::Forget(slot, kind) => {
                let Some(&node) = self.order.get(slot) else { return false };
                let cnt = self.nodes.get(&node).map(|i| i.count).unwrap_or(0);
                let n = match kind {
                    0 => 1,
                    1 => cnt.max(1),
                    2 => cnt + 1,
                    _ => u64::MAX,
                };
                cl.forget(&self.w.subj, node, n);
                self.forget_model(node, n);
            }
            ROp::BatchForget => {
                let items: Vec<(u64, u64)> = self.order.iter().take(3).map(|n| (*n, 1)).chain(std::iter::once((1u64, 5u64))).collect();
                if items.len() <= 1 {
                    return false;
                }
                cl.batch_forget(&self.w.subj, &items);
                for (n, c) in items {
                    self.forget_model(n, c);
                }
            }
            ROp::BatchForgetRepeat => {
                let Some(&first) = self.order.first() else { return false };
                let mut items: Vec<(u64, u64)> = vec![(first, 1)];
                if let Some(&second) = self.order.get(1) {
                    items.push((second, 1));
                }
                items.push((first, 1));
                items.push((first, 1));
                cl.batch_forget(&self.w.subj, &items);
                for (n, c) in items {
                    self.forget_model(n, c);
                }
            }
            ROp::Rename(a, b) => {
                cl.rename(&self.w.subj, 1, NAMES[a].as_bytes(), 1, NAMES[b].as_bytes(), 0);
            }
            ROp::Unlink(n) => {
                cl.unlink(&self.w.subj, 1, NAMES[n].as_bytes());
            }
            ROp::Rmdir(n) => {
                cl.rmdir(&self.w.subj, 1, NAMES[n].as_bytes());
            }
            ROp::Getattr(slot) => {
                let Some(&node) = self.order.get(slot) else { return false };
                let _ = cl.getattr(&self.w.subj, node, None);
            }
        }
        true
    }

    /// Invariants after every step.
    pub fn check(&mut self, cl: &mut Client, what: &str) {
        let vfs = self.w.cfg.behind_vfs;
        let handles_mode = self.w.cfg.inode_file_handles;
        let nodes: Vec<(u64, NodeInfo)> = self.nodes.iter().map(|(k, v)| (*k, v.clone())).collect();
        let mut live = 0usize;
        for (node, info) in &nodes {
            let r = cl.getattr(&self.w.subj, *node, None);
            if info.count == 0 {
                match r {
                    Err(e) if e == libc::EBADF || (vfs && e == libc::ENOENT) => {}
                    other => self.bad(&format!("{}/forgotten-inode-still-resolves", what), format!("inode {:#x} ({}) has no client references left, GETATTR answers {:?}", node, info.seen_as, other.map(|a| a.ino))),
                }
            } else {
                live += 1;
                match r {
                    Ok(a) => {
                        if !vfs && a.ino != info.host_ino {
                            self.bad(&format!("{}/inode-denotes-other-file", what), format!("inode {:#x} was given out for host inode {} ({}), GETATTR reports host inode {}", node, info.host_ino, info.seen_as, a.ino));
                        }
                    }
                    // with file handles an unlinked file may stop resolving (the property allows it)
                    Err(_) if handles_mode && !self.still_linked(&info.ident) => {}
                    Err(e) => self.bad(&format!("{}/referenced-inode-unusable", what), format!("inode {:#x} ({}) is referenced {} times by the client, GETATTR fails with errno {}", node, info.seen_as, info.count, e)),
                }
            }
            // the server's own count (hook H2) equals the client's
            let rc = self.w.refcount(*node);
            let want = if info.count == 0 { None } else { Some(info.count) };
            if rc != want {
                self.bad(&format!("{}/refcount", what), format!("inode {:#x} ({}): server holds {:?} references, the client was given {:?}", node, info.seen_as, rc, want));
            }
        }
        // the root can never be forgotten
        if cl.getattr(&self.w.subj, 1, None).is_err() {
            self.bad(&format!("{}/root-forgotten", what), "GETATTR on the root fails".into());
        }
        let t = self.w.table_sizes();
        if t.0 != self.base_tables.0 + live {
            self.bad(&format!("{}/inode-table-size", what), format!("{} live inode objects, the client references {} (+{} at start)", t.0, live, self.base_tables.0));
        }
    }
}

fn rop_kind(op: &ROp) -> String {
    let s = format!("{:?}", op);
    s.split('(').next().unwrap_or(&s).to_string()
}

impl<'a> SeqRun<'a> {
    fn c08_seq(&mut self, cfg: &PtCfg, seq: &[ROp]) -> bool {
        let mut rw = RefWorld::new(cfg, &mut self.cl);
        let n0 = self.cl.nreq;
        for op in seq {
            if !rw.step(&mut self.cl, *op) {
                return true;
            }
            if rw.recycled || !rw.problems.is_empty() {
                break;
            }
            let k = rop_kind(op);
            rw.check(&mut self.cl, &k);
            if !rw.problems.is_empty() {
                break;
            }
        }
        self.rep.eval();
        self.rep.transitions += self.cl.nreq - n0;
        let last = rop_kind(seq.last().unwrap());
        self.rep.outcome(&format!("{}:{}", last, if rw.problems.is_empty() { "consistent" } else { "VIOLATION" }));
        let st: Vec<(u64, u64)> = rw.nodes.iter().map(|(k, v)| (*k, v.count)).collect();
        self.rep.state_of(&(cfg.label(), st));
        self.rep.sample(|| json!({"config": cfg.label(), "sequence": format!("{:?}", seq), "client_counts": format!("{:?}", rw.nodes.iter().map(|(k, v)| (*k, v.count)).collect::<Vec<_>>())}));
        let cut = !rw.problems.is_empty();
        let mut seen = BTreeSet::new();
        for (class, msg) in &rw.problems {
            if !seen.insert(class.clone()) {
                continue;
            }
            let seqs = format!("{:?}", seq);
            let cfgl = cfg.label();
            self.rep.violation(&format!("{}/{}", self.prop, class), msg, || json!({"engine": "ptfs-c08", "config": cfgl, "sequence": seqs}));
        }
        cut
    }

    fn c08_rec(&mut self, cfg: &PtCfg, seq: &mut Vec<ROp>, alphabet: &[ROp], depth: usize) {
        let cut = self.c08_seq(cfg, seq);
        if cut || seq.len() >= depth || self.rep.over_budget() {
            return;
        }
        for op in alphabet {
            seq.push(*op);
            self.c08_rec(cfg, seq, alphabet, depth);
            seq.pop();
        }
    }
}

pub fn c08(args: &Args) -> Report {
    let mut rep = args.report();
    let thorough = args.thorough();
    let b = PtCfg::base();
    let mut cfgs: Vec<PtCfg> = Vec::new();
    for fh in [false, true] {
        for hi in [false, true] {
            cfgs.push(PtCfg { inode_file_handles: fh, use_host_ino: hi, mntid: hi, ..b.clone() });
        }
    }
    cfgs.push(PtCfg { behind_vfs: true, ..b.clone() });
    cfgs.push(PtCfg { no_opendir: true, no_open: true, cache: 1, inode_file_handles: true, ..b.clone() });
    let ext4: Vec<PtCfg> = vec![PtCfg { ext4: true, inode_file_handles: true, ..b.clone() }, PtCfg { ext4: true, ..b.clone() }, PtCfg { ext4: true, inode_file_handles: true, use_host_ino: true, ..b.clone() }];
    let depth = if thorough { 4 } else { 3 };
    let alphabet = c08_alphabet(thorough);
    let mut idx = 0u64;
    let mut run = SeqRun { rep: &mut rep, cl: Client::new(), prop: "C08" };
    run.cl.cap = 1 << 17;
    for cfg in &cfgs {
        for a in &alphabet {
            for b2 in &alphabet {
                if run.rep.mine(idx) {
                    if b2 == &alphabet[0] {
                        run.c08_seq(cfg, &[*a]);
                    }
                    let mut seq = vec![*a, *b2];
                    run.c08_rec(cfg, &mut seq, &alphabet, depth);
                }
                idx += 1;
            }
        }
    }
    // ext4 (inode numbers are recycled at once): depth 2 plus targeted histories
    let targeted: Vec<Vec<ROp>> = vec![
        vec![ROp::Mknod(1), ROp::Unlink(1), ROp::Mknod(1), ROp::Lookup(D::Root, 1), ROp::Forget(0, 1), ROp::Lookup(D::Root, 1)],
        vec![ROp::Lookup(D::Root, 0), ROp::Unlink(0), ROp::Mknod(0), ROp::Lookup(D::Root, 0), ROp::Forget(0, 3), ROp::Forget(1, 3)],
        vec![ROp::Create(1), ROp::Unlink(1), ROp::Mkdir(1), ROp::Rmdir(1), ROp::Symlink(1), ROp::Lookup(D::Root, 1)],
        vec![ROp::Lookup(D::Root, 0), ROp::Link(0, 1), ROp::Unlink(0), ROp::Lookup(D::Root, 1), ROp::Forget(0, 1), ROp::Forget(0, 1), ROp::Forget(0, 1)],
        vec![ROp::ReaddirPlus(1), ROp::ReaddirPlus(2), ROp::ReaddirPlus(0), ROp::BatchForget, ROp::BatchForget, ROp::Forget(0, 3), ROp::ReaddirPlus(1)],
        vec![ROp::Lookup(D::Root, 5), ROp::Lookup(D::Dd, 0), ROp::Unlink(5), ROp::Forget(0, 0), ROp::Lookup(D::Dd, 0), ROp::Forget(0, 3)],
        // a new file gets the recycled host inode number of a deleted, still referenced one; it is forgotten and looked up again
        vec![ROp::Mknod(1), ROp::Unlink(1), ROp::Mknod(1), ROp::Forget(1, 1), ROp::Lookup(D::Root, 1), ROp::Forget(1, 1), ROp::Forget(0, 1), ROp::Lookup(D::Root, 1)],
        // the host inode number is recycled twice while the first file is still referenced: the second holder is
        // forgotten and deleted before the third appears; then the first one is forgotten
        vec![ROp::Mknod(1), ROp::Unlink(1), ROp::Mknod(1), ROp::Forget(1, 1), ROp::Unlink(1), ROp::Mknod(1), ROp::Getattr(0), ROp::Forget(0, 1), ROp::Getattr(2), ROp::Lookup(D::Root, 1)],
    ];
    for cfg in ext4.iter().chain(cfgs.iter()) {
        for t in &targeted {
            for _round in 0..3 {
                if run.rep.mine(idx) {
                    for n in 1..=t.len() {
                        if run.c08_seq(cfg, &t[..n]) {
                            break;
                        }
                    }
                }
                idx += 1;
            }
        }
    }
    for cfg in &ext4 {
        for a in &alphabet {
            if run.rep.mine(idx) {
                let mut seq = vec![*a];
                run.c08_rec(cfg, &mut seq, &alphabet, 2);
            }
            idx += 1;
        }
    }
    rep.set("units_all_shards", json!(idx));
    rep.set("depth", json!(depth));
    rep.set("configurations", json!(cfgs.iter().chain(ext4.iter()).map(|c| c.label()).collect::<Vec<_>>()));
    rep
}

// ------------------------------------------------------------------------------------------------
// C15: handles and descriptors are released when the client releases them

#[derive(Clone, Copy, Debug, PartialEq, Eq, Hash)]
pub enum HOp {
    Lookup(usize),
    Open(usize, usize),
    Opendir(D),
    Create(usize),
    ReleaseLast,
    /// release the last handle naming another inode: must be refused and leave the handle usable
    ReleaseWrongInode,
    /// release the last handle with the other release opcode (RELEASE for a directory handle, RELEASEDIR for a file handle)
    ReleaseOtherOpcode,
    Read,
    Write,
    /// a write far beyond the end of the file (refused on a size-sealed export)
    WriteFar,
    Readdir(u32),
    ReaddirPlus(u32),
    Forget(usize),
    Destroy,
    Init,
}

pub fn c15_alphabet() -> Vec<HOp> {
    vec![
        HOp::Lookup(0), HOp::Lookup(4),
        HOp::Open(0, 0), HOp::Open(0, 2), HOp::Open(2, 0), HOp::Open(3, 0), HOp::Open(5, 1),
        HOp::Opendir(D::Root), HOp::Opendir(D::Dd),
        HOp::Create(1), HOp::Create(0), HOp::Create(4), HOp::Create(2), HOp::Create(3),
        HOp::ReleaseLast, HOp::ReleaseWrongInode, HOp::ReleaseOtherOpcode,
        HOp::Read, HOp::Write, HOp::WriteFar, HOp::Readdir(4096), HOp::Readdir(80), HOp::ReaddirPlus(4096), HOp::ReaddirPlus(320),
        HOp::Forget(0), HOp::Forget(1), HOp::Destroy, HOp::Init,
    ]
}

#[derive(Clone, Debug)]
struct LiveH {
    fh: u64,
    node: u64,
    dir: bool,
    flags: i32,
}

pub struct HWorld {
    pub rw: RefWorld,
    live: Vec<LiveH>,
    dead: Vec<LiveH>,
    /// (step, n): fail the n-th descriptor allocation of that step's main request
    pub inject_at: Option<(usize, u64)>,
    pub step_idx: usize,
    pub main_allocs: Vec<u64>,
    pub injected: bool,
}

impl HWorld {
    pub fn new(cfg: &PtCfg, cl: &mut Client) -> HWorld {
        HWorld { rw: RefWorld::new(cfg, cl), live: Vec::new(), dead: Vec::new(), inject_at: None, step_idx: 0, main_allocs: Vec::new(), injected: false }
    }

    fn arm(&mut self, cl: &mut Client) {
        if let Some((s, n)) = self.inject_at {
            if s == self.step_idx {
                cl.inject = Some(n);
                self.injected = true;
            }
        }
    }

    fn name_node(&mut self, cl: &mut Client, n: usize) -> Option<u64> {
        let p = self.rw.w.exp.join(NAMES[n]);
        match cl.lookup(&self.rw.w.subj, 1, NAMES[n].as_bytes()) {
            Ok(e) => {
                self.rw.delivered("lookup", &e, &p);
                Some(e.nodeid)
            }
            Err(_) => None,
        }
    }

    pub fn step(&mut self, cl: &mut Client, op: HOp) -> bool {
        cl.creds(0, 0);
        let zo = self.rw.w.zero_message_open();
        let zd = self.rw.w.zero_message_opendir();
        let mut allocs = 0u64;
        match op {
            HOp::Lookup(n) => {
                let p = self.rw.w.exp.join(NAMES[n]);
                self.arm(cl);
                let r = cl.lookup(&self.rw.w.subj, 1, NAMES[n].as_bytes());
                allocs = cl.last_allocs;
                if let Ok(e) = r {
                    self.rw.delivered("lookup", &e, &p);
                }
            }
            HOp::Open(n, f) => {
                let Some(node) = self.name_node(cl, n) else { return false };
                let flags = OPEN_FLAGS[f];
                self.arm(cl);
                let r = cl.open(&self.rw.w.subj, node, flags as u32);
                allocs = cl.last_allocs;
                match r {
                    Ok((fh, _)) => {
                        if self.live.iter().any(|h| h.fh == fh) {
                            self.rw.problems.push(("handle-number-reused".into(), format!("OPEN returned handle {} which is still open", fh)));
                        }
                        self.live.push(LiveH { fh, node, dir: false, flags });
                    }
                    Err(_) => {}
                }
            }
            HOp::Opendir(d) => {
                let Some(node) = self.rw.dir_node(cl, d) else { return false };
                self.arm(cl);
                let r = cl.opendir(&self.rw.w.subj, node, 0);
                allocs = cl.last_allocs;
                if let Ok((fh, _)) = r {
                    if self.live.iter().any(|h| h.fh == fh) {
                        self.rw.problems.push(("handle-number-reused".into(), format!("OPENDIR returned handle {} which is still open", fh)));
                    }
                    self.live.push(LiveH { fh, node, dir: true, flags: 0 });
                }
            }
            HOp::Create(n) => {
                let p = self.rw.w.exp.join(NAMES[n]);
                self.arm(cl);
                let r = cl.create(&self.rw.w.subj, 1, NAMES[n].as_bytes(), libc::O_RDWR as u32, 0o644, 0o022);
                allocs = cl.last_allocs;
                if let Ok((e, fh, _)) = r {
                    self.rw.delivered("create", &e, &p);
                    if !zo {
                        if self.live.iter().any(|h| h.fh == fh) {
                            self.rw.problems.push(("handle-number-reused".into(), format!("CREATE returned handle {} which is still open", fh)));
                        }
                        self.live.push(LiveH { fh, node: e.nodeid, dir: false, flags: libc::O_RDWR });
                    }
                }
            }
            HOp::ReleaseLast | HOp::ReleaseOtherOpcode => {
                let Some(h) = self.live.pop() else { return false };
                let swap = matches!(op, HOp::ReleaseOtherOpcode);
                self.arm(cl);
                let e = cl.release(&self.rw.w.subj, h.node, h.fh, h.flags as u32, h.dir != swap);
                allocs = cl.last_allocs;
                if e != 0 && !(swap) {
                    self.rw.problems.push(("release-refused".into(), format!("release of the open handle {} on inode {:#x} failed with errno {}", h.fh, h.node, e)));
                }
                if e == 0 {
                    self.dead.push(h);
                } else {
                    self.live.push(h);
                }
            }
            HOp::ReleaseWrongInode => {
                let Some(h) = self.live.last().cloned() else { return false };
                let other = if h.node == 1 { 0x7777 } else { 1 };
                self.arm(cl);
                let e = cl.release(&self.rw.w.subj, other, h.fh, h.flags as u32, h.dir);
                allocs = cl.last_allocs;
                if e == 0 {
                    self.rw.problems.push(("release-with-wrong-inode-accepted".into(), format!("handle {} of inode {:#x} released through inode {:#x}", h.fh, h.node, other)));
                }
            }
            HOp::Read | HOp::Write | HOp::WriteFar => {
                let Some(h) = self.live.iter().rev().find(|h| !h.dir).cloned() else { return false };
                self.arm(cl);
                if matches!(op, HOp::Read) {
                    let _ = cl.read(&self.rw.w.subj, h.node, h.fh, 0, 16, h.flags as u32);
                } else {
                    let off = if matches!(op, HOp::WriteFar) { 1 << 20 } else { 0 };
                    let _ = cl.write(&self.rw.w.subj, h.node, h.fh, off, b"zz", h.flags as u32, 0);
                }
                allocs = cl.last_allocs;
            }
            HOp::Readdir(size) | HOp::ReaddirPlus(size) => {
                let plus = matches!(op, HOp::ReaddirPlus(_));
                let h = match self.live.iter().rev().find(|h| h.dir).cloned() {
                    Some(h) => h,
                    None if zd => LiveH { fh: 0, node: 1, dir: true, flags: 0 },
                    None => return false,
                };
                self.arm(cl);
                let r = cl.readdir(&self.rw.w.subj, h.node, h.fh, 0, size, plus);
                allocs = cl.last_allocs;
                if let Ok(ents) = r {
                    let dirpath = if h.node == 1 { self.rw.w.exp.clone() } else { self.rw.w.exp.join("d") };
                    for d in &ents {
                        if let Some(eb) = &d.entry {
                            let e = crate::client::parse_entry(eb);
                            let path = dirpath.join(String::from_utf8_lossy(&d.name).to_string());
                            self.rw.delivered("readdirplus", &e, &path);
                        }
                    }
                }
            }
            HOp::Forget(slot) => {
                let Some(&node) = self.rw.order.get(slot) else { return false };
                let cnt = self.rw.nodes.get(&node).map(|i| i.count).unwrap_or(0);
                if cnt == 0 {
                    return false;
                }
                cl.forget(&self.rw.w.subj, node, cnt);
                if let Some(i) = self.rw.nodes.get_mut(&node) {
                    i.count = 0;
                }
            }
            HOp::Destroy => {
                self.arm(cl);
                let _ = cl.destroy(&self.rw.w.subj);
                allocs = cl.last_allocs;
                // the session is over: every handle and every inode number is void (numbers start afresh)
                self.dead.append(&mut self.live);
                self.rw.nodes.clear();
                self.rw.order.clear();
                if self.rw.w.cfg.behind_vfs {
                    // the Vfs must be initialised again before it serves requests
                    let _ = cl.init(&self.rw.w.subj, crate::ptworld::CAPABLE_ALL);
                }
            }
            HOp::Init => {
                if self.rw.w.cfg.behind_vfs {
                    return false; // a second INIT is refused by the Vfs (C12)
                }
                self.arm(cl);
                let _ = cl.init(&self.rw.w.subj, crate::ptworld::CAPABLE_ALL);
                allocs = cl.last_allocs;
            }
        }
        self.main_allocs.push(allocs);
        self.step_idx += 1;
        true
    }

    /// usable only with its inode and only until released
    pub fn check_handles(&mut self, cl: &mut Client) {
        let live = self.live.clone();
        for h in &live {
            let e = cl.fsync(&self.rw.w.subj, h.node, h.fh, false, h.dir);
            if e != 0 {
                self.rw.problems.push(("open-handle-unusable".into(), format!("handle {} on inode {:#x} is open, FSYNC{} fails with errno {}", h.fh, h.node, if h.dir { "DIR" } else { "" }, e)));
            }
            let other = if h.node == 1 { *self.rw.order.first().unwrap_or(&0x7777) } else { 1 };
            let e = cl.fsync(&self.rw.w.subj, other, h.fh, false, h.dir);
            if e == 0 {
                self.rw.problems.push(("handle-usable-with-other-inode".into(), format!("handle {} of inode {:#x} accepted with inode {:#x}", h.fh, h.node, other)));
            }
        }
        let dead = self.dead.clone();
        for h in dead.iter().rev().take(3) {
            if live.iter().any(|l| l.fh == h.fh) {
                continue;
            }
            let e = cl.fsync(&self.rw.w.subj, h.node, h.fh, false, h.dir);
            if e == 0 {
                self.rw.problems.push(("released-handle-usable".into(), format!("handle {} on inode {:#x} was released and is still accepted", h.fh, h.node)));
            }
        }
    }

    /// The client lets go of everything; the server must be back to its start state.
    pub fn finish(&mut self, cl: &mut Client) {
        while let Some(h) = self.live.pop() {
            let _ = cl.release(&self.rw.w.subj, h.node, h.fh, h.flags as u32, h.dir);
        }
        let nodes: Vec<(u64, u64)> = self.rw.nodes.iter().map(|(k, v)| (*k, v.count)).filter(|(_, c)| *c > 0).collect();
        if nodes.iter().any(|(_, c)| *c >= 2 && *c <= 16) {
            // several references to one inode: they go back one by one in a single BATCH_FORGET whose records for the same
            // inode are interleaved with the others (the kernel queues one record per eviction)
            let mut items: Vec<(u64, u64)> = Vec::new();
            for round in 0..16u64 {
                for (n, c) in &nodes {
                    if *c <= 16 && *c > round {
                        items.push((*n, 1));
                    }
                }
            }
            for (n, c) in &nodes {
                if *c > 16 {
                    items.push((*n, *c));
                }
            }
            cl.batch_forget(&self.rw.w.subj, &items);
        } else {
            for (n, c) in nodes {
                cl.forget(&self.rw.w.subj, n, c);
            }
        }
        let t = self.rw.w.table_sizes();
        let b = self.rw.base_tables;
        // "no more than a freshly started server": fewer (e.g. the root could not be re-imported after an injected
        // failure during DESTROY) is not a leak
        if t.0 > b.0 {
            self.rw.problems.push(("leak/inode-objects".into(), format!("{} live inode objects after everything was forgotten, {} at start", t.0, b.0)));
        }
        if t.1 > b.1 {
            self.rw.problems.push(("leak/handles".into(), format!("{} handles after everything was released, {} at start", t.1, b.1)));
        }
        if t.2 > b.2 {
            self.rw.problems.push(("leak/directory-position-records".into(), format!("{} directory-position records after everything was released, {} at start", t.2, b.2)));
        }
        let f = fd_count();
        if f > self.rw.base_fds {
            self.rw.problems.push(("leak/file-descriptors".into(), format!("{} open descriptors after everything was released, {} at start", f, self.rw.base_fds)));
        }
    }
}

fn hop_kind(op: &HOp) -> String {
    let s = format!("{:?}", op);
    s.split('(').next().unwrap_or(&s).to_string()
}

impl<'a> SeqRun<'a> {
    /// returns (cut, per-step descriptor allocations of the main requests)
    fn c15_seq(&mut self, cfg: &PtCfg, seq: &[HOp], inject: Option<(usize, u64)>) -> (bool, Vec<u64>) {
        let mut hw = HWorld::new(cfg, &mut self.cl);
        hw.inject_at = inject;
        let n0 = self.cl.nreq;
        for op in seq {
            if !hw.step(&mut self.cl, *op) {
                return (true, vec![]);
            }
            if !hw.rw.recycled && hw.rw.problems.is_empty() {
                hw.check_handles(&mut self.cl);
            }
            if !hw.rw.problems.is_empty() {
                break;
            }
        }
        if hw.rw.problems.is_empty() {
            hw.finish(&mut self.cl);
        }
        self.rep.eval();
        self.rep.transitions += self.cl.nreq - n0;
        let last = hop_kind(seq.last().unwrap());
        self.rep.outcome(&format!("{}:{}:{}", last, if inject.is_some() { "emfile" } else { "plain" }, if hw.rw.problems.is_empty() { "clean" } else { "VIOLATION" }));
        self.rep.state_of(&(cfg.label(), format!("{:?}", seq), inject));
        self.rep.sample(|| json!({"config": cfg.label(), "sequence": format!("{:?}", seq), "emfile_at": format!("{:?}", inject), "descriptor_allocations_per_step": hw.main_allocs}));
        let cut = !hw.rw.problems.is_empty();
        let mut seen = BTreeSet::new();
        for (class, msg) in &hw.rw.problems {
            if !seen.insert(class.clone()) {
                continue;
            }
            let seqs = format!("{:?}", seq);
            let cfgl = cfg.label();
            let tag = if inject.is_some() { "@descriptor-allocation-failed" } else { "" };
            let cls = if class.starts_with("leak/") || class.starts_with("descriptor-closed") { format!("{}/after-{}{}", class, last, tag) } else { format!("{}{}", class, tag) };
            self.rep.violation(&format!("{}/{}", self.prop, cls), msg, || json!({"engine": "ptfs-c15", "config": cfgl, "sequence": seqs, "emfile_at": format!("{:?}", inject)}));
        }
        (cut, hw.main_allocs.clone())
    }

    fn c15_rec(&mut self, cfg: &PtCfg, seq: &mut Vec<HOp>, alphabet: &[HOp], depth: usize, faults: bool) {
        let (cut, allocs) = self.c15_seq(cfg, seq, None);
        if faults && !cut {
            // DEV(1) on the environment: every descriptor allocation of the last step fails once
            let last = seq.len() - 1;
            if let Some(&a) = allocs.get(last) {
                for n in 1..=a {
                    self.c15_seq(cfg, seq, Some((last, n)));
                }
            }
        }
        if cut || seq.len() >= depth || self.rep.over_budget() {
            return;
        }
        for op in alphabet {
            seq.push(*op);
            self.c15_rec(cfg, seq, alphabet, depth, faults);
            seq.pop();
        }
    }
}

pub fn c15(args: &Args) -> Report {
    let mut rep = args.report();
    if !crate::fault::INTERPOSED.load(std::sync::atomic::Ordering::SeqCst) {
        eprintln!("libc interposers not linked in");
        std::process::exit(2);
    }
    let thorough = args.thorough();
    let b = PtCfg::base();
    let mut cfgs: Vec<PtCfg> = Vec::new();
    for bits in 0..8u32 {
        cfgs.push(PtCfg { no_open: bits & 1 != 0, no_opendir: bits & 2 != 0, inode_file_handles: bits & 4 != 0, cache: 1, ..b.clone() });
    }
    cfgs.push(PtCfg { behind_vfs: true, ..b.clone() });
    cfgs.push(PtCfg { behind_vfs: true, inode_file_handles: true, no_opendir: true, mntid: true, ..b.clone() });
    // zero-message open/opendir negotiated by the Vfs while the passthrough's own Config leaves them off
    cfgs.push(PtCfg { behind_vfs: true, no_open: true, no_opendir: true, layer_cfg_off: true, cache: 1, ..b.clone() });
    cfgs.push(PtCfg { behind_vfs: true, no_open: true, layer_cfg_off: true, cache: 1, ..b.clone() });
    cfgs.push(PtCfg { seal_size: true, ..b.clone() });
    cfgs.push(PtCfg { seal_size: true, no_open: true, cache: 1, ..b.clone() });
    let depth = if thorough { 3 } else { 2 };
    let alphabet = c15_alphabet();
    let mut idx = 0u64;
    let mut run = SeqRun { rep: &mut rep, cl: Client::new(), prop: "C15" };
    run.cl.cap = 1 << 17;
    for cfg in &cfgs {
        for a in &alphabet {
            if run.rep.mine(idx) {
                let mut seq = vec![*a];
                run.c15_rec(cfg, &mut seq, &alphabet, depth, true);
            }
            idx += 1;
        }
    }
    // targeted longer histories
    let targeted: Vec<Vec<HOp>> = vec![
        vec![HOp::Opendir(D::Root), HOp::Readdir(80), HOp::Readdir(4096), HOp::ReleaseOtherOpcode, HOp::Opendir(D::Root), HOp::ReaddirPlus(320), HOp::ReleaseLast],
        vec![HOp::Open(0, 2), HOp::ReleaseWrongInode, HOp::Read, HOp::Write, HOp::ReleaseLast, HOp::Read],
        vec![HOp::Open(0, 2), HOp::WriteFar, HOp::Read, HOp::WriteFar, HOp::Write, HOp::Open(5, 2), HOp::Read, HOp::ReleaseLast, HOp::ReleaseLast],
        vec![HOp::Destroy, HOp::Destroy, HOp::Destroy, HOp::Lookup(0), HOp::Open(0, 0), HOp::Destroy, HOp::Init, HOp::Lookup(0)],
        vec![HOp::Create(1), HOp::Create(1), HOp::Create(4), HOp::Create(2), HOp::Create(3), HOp::ReleaseLast, HOp::ReleaseLast],
        vec![HOp::ReaddirPlus(320), HOp::ReaddirPlus(320), HOp::Forget(0), HOp::Forget(1), HOp::Opendir(D::Dd), HOp::ReaddirPlus(4096), HOp::ReleaseLast],
    ];
    for cfg in &cfgs {
        for t in &targeted {
            if run.rep.mine(idx) {
                for n in 1..=t.len() {
                    if run.c15_seq(cfg, &t[..n], None).0 {
                        break;
                    }
                }
            }
            idx += 1;
        }
    }
    rep.set("units_all_shards", json!(idx));
    rep.set("depth", json!(depth));
    rep.set("sum_emfile_injections", json!(crate::fault::INJECTED.load(std::sync::atomic::Ordering::SeqCst)));
    rep.set("configurations", json!(cfgs.iter().map(|c| c.label()).collect::<Vec<_>>()));
    rep
}

// ------------------------------------------------------------------------------------------------
// C18: a size-sealed export never lets a client change a file's size

const SEAL_FILES: [(&str, u64); 4] = [("s1", 1), ("s12288", 12288), ("s0", 0), ("s5000", 5000)];

/// worlds built while this is set carry the append-only inode attribute (chattr +a) on every sealed file: an
/// environment in which fcntl(F_SETFL) that would clear O_APPEND fails with EPERM
static SEAL_APPEND_ONLY: std::sync::atomic::AtomicBool = std::sync::atomic::AtomicBool::new(false);
const FS_IOC_GETFLAGS: libc::c_ulong = 0x8008_6601;
const FS_IOC_SETFLAGS: libc::c_ulong = 0x4008_6602;
const FS_APPEND_FL: libc::c_long = 0x20;

fn set_append_only(path: &std::path::Path, on: bool) -> bool {
    let Ok(f) = std::fs::File::open(path) else { return false };
    let mut fl: libc::c_long = 0;
    unsafe {
        if libc::ioctl(f.as_raw_fd(), FS_IOC_GETFLAGS as _, &mut fl) != 0 {
            return false;
        }
        let nf = if on { fl | FS_APPEND_FL } else { fl & !FS_APPEND_FL };
        libc::ioctl(f.as_raw_fd(), FS_IOC_SETFLAGS as _, &nf) == 0
    }
}

#[derive(Clone, Copy, Debug, PartialEq, Eq, Hash)]
pub enum SOp {
    /// open(file, access 0..3, extra flag 0 none / 1 O_APPEND / 2 O_TRUNC)
    Open(usize, u8, u8),
    /// create on the existing name (flags: 0 O_RDWR, 1 O_RDWR|O_TRUNC, 2 O_WRONLY|O_TRUNC|O_APPEND, 3 O_RDWR|O_EXCL)
    Create(usize, u8),
    /// write(offset kind 0: 0, 1: size-1, 2: size, 3: size+1; len; request flags 0: as opened, 1: |O_APPEND, 2: O_APPEND removed; write_flags)
    Write(u8, u8, u8, u8),
    /// setattr kinds: 0 size 0, 1 same size, 2 size+1, 3 mode, 4 times
    Setattr(usize, u8, bool),
    /// fallocate(mode index, range kind 0: inside, 1: straddling the end, 2: beyond, 3: block aligned inside)
    Fallocate(u8, u8),
    Release,
}

const SEAL_FALLOC: [i32; 8] = [
    0,
    libc::FALLOC_FL_KEEP_SIZE,
    libc::FALLOC_FL_PUNCH_HOLE | libc::FALLOC_FL_KEEP_SIZE,
    libc::FALLOC_FL_ZERO_RANGE,
    libc::FALLOC_FL_ZERO_RANGE | libc::FALLOC_FL_KEEP_SIZE,
    libc::FALLOC_FL_COLLAPSE_RANGE,
    libc::FALLOC_FL_INSERT_RANGE,
    libc::FALLOC_FL_UNSHARE_RANGE,
];

pub fn c18_alphabet(nfiles: usize) -> Vec<SOp> {
    let mut v = Vec::new();
    for f in 0..nfiles {
        for acc in [1u8, 2] {
            for extra in 0..3u8 {
                v.push(SOp::Open(f, acc, extra));
            }
        }
        v.push(SOp::Open(f, 0, 2));
        for c in 0..4u8 {
            v.push(SOp::Create(f, c));
        }
        for kind in 0..5u8 {
            v.push(SOp::Setattr(f, kind, false));
        }
        v.push(SOp::Setattr(f, 0, true));
        v.push(SOp::Setattr(f, 2, true));
    }
    for off in 0..4u8 {
        for len in 0..3u8 {
            for rf in 0..2u8 {
                v.push(SOp::Write(off, len, rf, 0));
            }
        }
        v.push(SOp::Write(off, 2, 0, 1));
        v.push(SOp::Write(off, 2, 0, 4));
    }
    for m in 0..SEAL_FALLOC.len() as u8 {
        for r in 0..4u8 {
            v.push(SOp::Fallocate(m, r));
        }
    }
    v.push(SOp::Release);
    v
}

struct SealH {
    fh: u64,
    node: u64,
    file: usize,
    flags: i32,
}

pub struct SealWorld {
    pub w: PtWorld,
    handles: Vec<SealH>,
    pub problems: Vec<(String, String)>,
    nodes: BTreeMap<usize, u64>,
    append_only: bool,
}

impl Drop for SealWorld {
    fn drop(&mut self) {
        if self.append_only {
            for (n, _) in SEAL_FILES {
                set_append_only(&self.w.exp.join(n), false);
            }
        }
    }
}

impl SealWorld {
    pub fn new(cfg: &PtCfg, cl: &mut Client) -> SealWorld {
        let w = PtWorld::new(cfg, cl, false);
        for (n, sz) in SEAL_FILES {
            let data: Vec<u8> = (0..sz).map(|i| b'A' + (i % 23) as u8).collect();
            std::fs::write(w.exp.join(n), &data).unwrap();
        }
        let append_only = SEAL_APPEND_ONLY.load(std::sync::atomic::Ordering::Relaxed);
        if append_only {
            for (n, _) in SEAL_FILES {
                set_append_only(&w.exp.join(n), true);
            }
        }
        SealWorld { w, handles: Vec::new(), problems: Vec::new(), nodes: BTreeMap::new(), append_only }
    }

    fn node(&mut self, cl: &mut Client, f: usize) -> Option<u64> {
        if let Some(n) = self.nodes.get(&f) {
            return Some(*n);
        }
        match cl.lookup(&self.w.subj, 1, SEAL_FILES[f].0.as_bytes()) {
            Ok(e) => {
                self.nodes.insert(f, e.nodeid);
                Some(e.nodeid)
            }
            Err(_) => None,
        }
    }

    /// Executes the op; returns Some(errno) of the main request, None if not applicable.
    pub fn step(&mut self, cl: &mut Client, op: SOp) -> Option<i32> {
        cl.creds(0, 0);
        let zo = self.w.zero_message_open();
        match op {
            SOp::Open(f, acc, extra) => {
                let node = self.node(cl, f)?;
                let flags = (acc as i32) | match extra {
                    1 => libc::O_APPEND,
                    2 => libc::O_TRUNC,
                    _ => 0,
                };
                if zo {
                    self.handles.push(SealH { fh: 0, node, file: f, flags });
                    return Some(libc::ENOSYS);
                }
                match cl.open(&self.w.subj, node, flags as u32) {
                    Ok((fh, _)) => {
                        self.handles.push(SealH { fh, node, file: f, flags });
                        Some(0)
                    }
                    Err(e) => Some(e),
                }
            }
            SOp::Create(f, c) => {
                let flags = match c {
                    0 => libc::O_RDWR,
                    1 => libc::O_RDWR | libc::O_TRUNC,
                    2 => libc::O_WRONLY | libc::O_TRUNC | libc::O_APPEND,
                    _ => libc::O_RDWR | libc::O_EXCL,
                };
                match cl.create(&self.w.subj, 1, SEAL_FILES[f].0.as_bytes(), flags as u32, 0o644, 0o022) {
                    Ok((e, fh, _)) => {
                        self.nodes.insert(f, e.nodeid);
                        self.handles.push(SealH { fh: if zo { 0 } else { fh }, node: e.nodeid, file: f, flags });
                        Some(0)
                    }
                    Err(e) => Some(e),
                }
            }
            SOp::Write(offk, len, rf, wf) => {
                let h = self.handles.last()?;
                let size = SEAL_FILES[h.file].1;
                let off = match offk {
                    0 => 0,
                    1 => size.saturating_sub(1),
                    2 => size,
                    _ => size + 1,
                };
                let flags = match rf {
                    1 => h.flags | libc::O_APPEND,
                    2 => h.flags & !libc::O_APPEND,
                    _ => h.flags,
                };
                let data = &b"##"[..len as usize];
                let (node, fh) = (h.node, h.fh);
                Some(match cl.write(&self.w.subj, node, fh, off, data, flags as u32, wf as u32) {
                    Ok(_) => 0,
                    Err(e) => e,
                })
            }
            SOp::Setattr(f, kind, use_fh) => {
                let node = self.node(cl, f)?;
                let size = SEAL_FILES[f].1;
                let mut fields: Vec<(&str, u64)> = Vec::new();
                let mut valid = 0u64;
                if use_fh {
                    let h = self.handles.iter().rev().find(|h| h.node == node)?;
                    valid |= k::FATTR_FH;
                    fields.push(("fh", h.fh));
                }
                match kind {
                    0 | 1 | 2 => {
                        valid |= k::FATTR_SIZE;
                        fields.push(("size", match kind {
                            0 => 0,
                            1 => size,
                            _ => size + 1,
                        }));
                    }
                    3 => {
                        valid |= k::FATTR_MODE;
                        fields.push(("mode", 0o100600));
                    }
                    _ => {
                        valid |= k::FATTR_MTIME;
                        fields.push(("mtime", 12345));
                    }
                }
                fields.push(("valid", valid));
                Some(match cl.setattr(&self.w.subj, node, &fields) {
                    Ok(_) => 0,
                    Err(e) => e,
                })
            }
            SOp::Fallocate(m, r) => {
                let h = self.handles.last()?;
                let size = SEAL_FILES[h.file].1;
                let (off, len) = match r {
                    0 => (0u64, size.max(1).min(4)),
                    1 => (size.saturating_sub(1), 2),
                    2 => (size + 4096, 4096),
                    _ => (4096, 4096),
                };
                let (node, fh) = (h.node, h.fh);
                Some(cl.fallocate(&self.w.subj, node, fh, SEAL_FALLOC[m as usize] as u32, off, len))
            }
            SOp::Release => {
                let h = self.handles.pop()?;
                if zo {
                    return Some(0);
                }
                Some(cl.release(&self.w.subj, h.node, h.fh, h.flags as u32, false))
            }
        }
    }

    pub fn check_sizes(&mut self, op: &SOp, errno: i32) {
        for (n, sz) in SEAL_FILES {
            match std::fs::symlink_metadata(self.w.exp.join(n)) {
                Ok(m) => {
                    if m.size() != sz {
                        let k = format!("{:?}", op);
                        let kind = k.split('(').next().unwrap_or("").to_string();
                        let detail = match op {
                            SOp::Open(_, _, extra) => format!("flag-{}", ["none", "O_APPEND", "O_TRUNC"][*extra as usize]),
                            SOp::Create(_, c) => format!("flags-{}", ["O_RDWR", "O_TRUNC", "O_TRUNC+O_APPEND", "O_EXCL"][*c as usize]),
                            SOp::Write(_, _, rf, wf) => format!("request-flags-{}-write-flags-{}", ["as-opened", "O_APPEND", "O_APPEND-removed"][*rf as usize], wf),
                            SOp::Fallocate(mm, _) => format!("mode-{:#x}", SEAL_FALLOC[*mm as usize]),
                            SOp::Setattr(_, kd, fh) => format!("kind-{}-fh-{}", kd, fh),
                            SOp::Release => "".into(),
                        };
                        self.problems.push((format!("size-changed/{}/{}", kind, detail), format!("{} had {} bytes, has {} after {:?} (answered errno {})", n, sz, m.size(), op, errno)));
                    }
                }
                Err(_) => self.problems.push(("sealed-file-vanished".into(), format!("{} is gone after {:?}", n, op))),
            }
        }
    }
}

impl<'a> SeqRun<'a> {
    fn c18_seq(&mut self, cfg: &PtCfg, seq: &[SOp]) -> bool {
        let mut sealed = SealWorld::new(cfg, &mut self.cl);
        let plain_cfg = PtCfg { seal_size: false, ..cfg.clone() };
        let mut plain = SealWorld::new(&plain_cfg, &mut self.cl);
        let n0 = self.cl.nreq;
        // The differential clause compares the sealed export with an unsealed twin that has seen the same history.
        // A request the sealed export refuses because it could change a size is therefore NOT executed on the twin
        // (it would legitimately change the twin and every later comparison would be noise: this was a false alarm
        // of the depth-3 tier, see DESIGN.md 8.2); such a refused request must have left the sealed files as they were.
        // If the two exports ever come apart in another way that is not itself a violation, the differential
        // comparison stops for the rest of the sequence (the size invariant is still checked after every request).
        let mut diverged = false;
        for op in seq {
            let zo_open = sealed.w.zero_message_open() && matches!(op, SOp::Open(..));
            let lastfile = sealed.handles.last().map(|h| h.file).unwrap_or(0);
            let last_append = sealed.handles.last().map(|h| h.flags & libc::O_APPEND != 0).unwrap_or(false);
            // requests that cannot change a size whatever the file's state: writes fully inside on a handle not in
            // append mode, non-size setattr, open without O_TRUNC, release, create without O_TRUNC/O_EXCL,
            // allocate / punch / zero ranges inside the file
            let harmless = match op {
                SOp::Write(offk, len, rf, _) => *rf == 0 && ((*len == 0 && *offk <= 2) || (*len > 0 && *offk == 0 && (*len as u64) <= SEAL_FILES[lastfile].1) || (*offk == 1 && *len == 1 && SEAL_FILES[lastfile].1 >= 1)) && !last_append,
                SOp::Setattr(_, kd, _) => *kd >= 3,
                SOp::Open(_, _, extra) => *extra == 0,
                SOp::Release => true,
                SOp::Create(_, c) => *c == 0,
                SOp::Fallocate(mm, r) => *r == 0 && [0usize, 1, 2, 3, 4].contains(&(*mm as usize)) && SEAL_FILES[lastfile].1 >= 4,
            };
            let Some(e1) = sealed.step(&mut self.cl, *op) else { return true };
            sealed.check_sizes(op, e1);
            let k = format!("{:?}", op);
            let kind = k.split('(').next().unwrap_or("").to_string();
            if sealed.problems.is_empty() && !diverged {
                if e1 != 0 && !harmless && !zo_open {
                    // refused: the twin does not see it; the sealed files must be byte for byte what they were
                    for (n, _) in SEAL_FILES {
                        if std::fs::read(sealed.w.exp.join(n)).ok() != std::fs::read(plain.w.exp.join(n)).ok() {
                            sealed.problems.push((format!("refused-request-had-effect/{}", kind), format!("{:?}: answered errno {} but the content of {} changed", op, e1, n)));
                            break;
                        }
                    }
                } else {
                    let e2 = plain.step(&mut self.cl, *op).unwrap_or(-1);
                    // differential clause: if the same request leaves every size unchanged on an unsealed export,
                    // the sealed export must answer it the same way with the same effect
                    let plain_sizes_same = SEAL_FILES.iter().all(|(n, sz)| std::fs::symlink_metadata(plain.w.exp.join(n)).map(|m| m.size() == *sz).unwrap_or(false));
                    if !plain_sizes_same {
                        diverged = true;
                    } else if e1 != e2 {
                        if harmless && e2 == 0 {
                            sealed.problems.push((format!("within-size-request-treated-differently/{}", kind), format!("{:?}: sealed export answers errno {}, unsealed export answers {} and no size changes", op, e1, e2)));
                        } else {
                            diverged = true;
                        }
                    } else {
                        for (n, _) in SEAL_FILES {
                            if std::fs::read(sealed.w.exp.join(n)).ok() != std::fs::read(plain.w.exp.join(n)).ok() {
                                sealed.problems.push((format!("within-size-request-different-effect/{}", kind), format!("{:?}: content of {} differs between the sealed and the unsealed export", op, n)));
                                break;
                            }
                        }
                    }
                }
            }
            if diverged {
                self.rep.add("sum_differential_stopped_after_divergence", 1);
            }
            if !sealed.problems.is_empty() {
                break;
            }
        }
        self.rep.eval();
        self.rep.transitions += self.cl.nreq - n0;
        let lk = format!("{:?}", seq.last().unwrap());
        let last = lk.split('(').next().unwrap_or("").to_string();
        self.rep.outcome(&format!("{}:{}", last, if sealed.problems.is_empty() { "sizes-unchanged" } else { "VIOLATION" }));
        self.rep.state_of(&(cfg.label(), format!("{:?}", seq)));
        self.rep.sample(|| json!({"config": cfg.label(), "sequence": format!("{:?}", seq)}));
        let cut = !sealed.problems.is_empty();
        let mut seen = BTreeSet::new();
        for (class, msg) in &sealed.problems {
            if !seen.insert(class.clone()) {
                continue;
            }
            let seqs = format!("{:?}", seq);
            let cfgl = cfg.label();
            self.rep.violation(&format!("{}/{}", self.prop, class), msg, || json!({"engine": "ptfs-c18", "config": cfgl, "sequence": seqs}));
        }
        cut
    }

    fn c18_rec(&mut self, cfg: &PtCfg, seq: &mut Vec<SOp>, alphabet: &[SOp], depth: usize) {
        let cut = self.c18_seq(cfg, seq);
        if cut || seq.len() >= depth || self.rep.over_budget() {
            return;
        }
        for op in alphabet {
            // sequences are only extended by operations that can use what exists
            seq.push(*op);
            self.c18_rec(cfg, seq, alphabet, depth);
            seq.pop();
        }
    }
}

pub fn c18(args: &Args) -> Report {
    let mut rep = args.report();
    let thorough = args.thorough();
    let b = PtCfg { seal_size: true, ..PtCfg::base() };
    let cfgs = vec![
        b.clone(),
        PtCfg { no_open: true, cache: 1, ..b.clone() },
        PtCfg { behind_vfs: true, ..b.clone() },
        PtCfg { ext4: true, ..b.clone() },
        PtCfg { writeback: true, ..b.clone() },
    ];
    let depth = if thorough { 3 } else { 2 };
    let alphabet = c18_alphabet(if thorough { 4 } else { 2 });
    let mut idx = 0u64;
    let mut run = SeqRun { rep: &mut rep, cl: Client::new(), prop: "C18" };
    run.cl.cap = 1 << 17;
    for cfg in &cfgs {
        // every sequence starts by obtaining a handle (or is a single handle-less request)
        for a in &alphabet {
            if run.rep.mine(idx) {
                let mut seq = vec![*a];
                let d = if cfg.ext4 { 2 } else { depth };
                run.c18_rec(cfg, &mut seq, &alphabet, d);
            }
            idx += 1;
        }
    }
    // family append-only: every sealed file carries the append-only inode attribute, so that the fcntl(F_SETFL) which
    // would take a handle out of append mode fails (EPERM): [open in append mode, write, write] with the request flags
    // as opened, with O_APPEND, and with O_APPEND removed
    {
        let mut writes: Vec<SOp> = Vec::new();
        for off in 0..4u8 {
            for len in 1..3u8 {
                for rf in 0..3u8 {
                    writes.push(SOp::Write(off, len, rf, 0));
                }
            }
        }
        SEAL_APPEND_ONLY.store(true, std::sync::atomic::Ordering::Relaxed);
        let probe = SealWorld::new(&b, &mut run.cl);
        let supported = set_append_only(&probe.w.exp.join(SEAL_FILES[0].0), true);
        drop(probe);
        run.rep.set("append_only_attribute_supported", json!(supported));
        for f in 0..2usize {
            for acc in [1u8, 2] {
                for w1 in &writes {
                    if run.rep.mine(idx) && supported && !run.rep.over_budget() {
                        for w2 in writes.iter().filter(|w| matches!(w, SOp::Write(_, _, rf, _) if *rf != 1)) {
                            run.c18_seq(&b, &[SOp::Open(f, acc, 1), *w1, *w2]);
                        }
                    }
                    idx += 1;
                }
            }
        }
        SEAL_APPEND_ONLY.store(false, std::sync::atomic::Ordering::Relaxed);
    }
    rep.set("units_all_shards", json!(idx));
    rep.set("depth", json!(depth));
    rep.set("configurations", json!(cfgs.iter().map(|c| c.label()).collect::<Vec<_>>()));
    rep
}

// ------------------------------------------------------------------------------------------------
// C16: directory listing returns each entry exactly once across any chunking / resumption

const NAME_LENS: [usize; 6] = [1, 2, 7, 8, 9, 255];

fn dir_names(n: usize, uniform: bool) -> Vec<String> {
    if uniform {
        // names of 5..8 bytes: the host's record and the FUSE record have the same size, so a getdents64
        // batch that fills the buffer is delivered completely and ends in mid-directory
        return (0..n).map(|i| format!("{:05}{}", i, "u".repeat(i % 4))).collect();
    }
    (0..n)
        .map(|i| {
            let l = NAME_LENS[i % NAME_LENS.len()];
            let tag = format!("{}", i);
            let mut s = tag.clone();
            while s.len() < l {
                s.push((b'a' + ((i + s.len()) % 26) as u8) as char);
            }
            if s.len() > l && l >= tag.len() {
                s.truncate(l);
            }
            s
        })
        .collect::<BTreeSet<String>>()
        .into_iter()
        .enumerate()
        // from three entries on, some legal names that look special: hidden files and names that merely begin with dots
        .map(|(i, name)| if n >= 3 && i < 4 { ["..data", "...", ".hidden", "a..b"][i].to_string() } else { name })
        .collect()
}

fn fuse_reclen(namelen: usize, plus: bool) -> usize {
    (if plus { 128 } else { 0 }) + ((24 + namelen + 7) & !7)
}

pub struct DirWorld {
    pub w: PtWorld,
    /// node of the listed directory
    pub node: u64,
    /// host view: name -> d_type
    pub host: BTreeMap<Vec<u8>, u32>,
    pub problems: Vec<(String, String)>,
    /// canonical order: (name, cookie, type)
    pub canon: Vec<(Vec<u8>, u64, u32)>,
    pub pseudo: bool,
    /// offsets read so far on each open handle (in order), for the host-descriptor comparison below
    pub hist: BTreeMap<u64, Vec<u64>>,
    /// empty replies that a host descriptor driven through the same seeks gives as well (not judged)
    pub host_same: u64,
}

impl DirWorld {
    pub fn new(cfg: &PtCfg, cl: &mut Client, n: usize, uniform: bool) -> DirWorld {
        let w = PtWorld::new(cfg, cl, false);
        let big = w.exp.join("big");
        std::fs::create_dir(&big).unwrap();
        let mut host = BTreeMap::new();
        for (i, name) in dir_names(n, uniform).iter().enumerate() {
            let p = big.join(name);
            let t = match i % 7 {
                3 => {
                    std::fs::create_dir(&p).unwrap();
                    libc::DT_DIR
                }
                5 => {
                    std::os::unix::fs::symlink("x", &p).unwrap();
                    libc::DT_LNK
                }
                _ => {
                    std::fs::write(&p, b"").unwrap();
                    libc::DT_REG
                }
            };
            host.insert(name.as_bytes().to_vec(), t as u32);
        }
        let node = cl.lookup(&w.subj, 1, b"big").map(|e| e.nodeid).unwrap_or(0);
        DirWorld { w, node, host, problems: Vec::new(), canon: Vec::new(), pseudo: false, hist: BTreeMap::new(), host_same: 0 }
    }

    /// A Vfs whose root is a pseudo directory with `k` mount points.
    pub fn new_pseudo(cl: &mut Client, k: usize) -> DirWorld {
        use fuse_backend_rs::api::{Vfs, VfsOptions};
        use fuse_backend_rs::passthrough::{Config, PassthroughFs};
        let mut w = PtWorld::new(&PtCfg::base(), cl, false);
        let vfs = Vfs::new(VfsOptions { no_open: false, no_opendir: false, ..VfsOptions::default() });
        let mut host = BTreeMap::new();
        for i in 0..k {
            let d = w.exp.join(format!("src{}", i));
            std::fs::create_dir(&d).unwrap();
            let fs = PassthroughFs::<()>::new(Config { root_dir: d.to_string_lossy().to_string(), do_import: false, ..Config::default() }).unwrap();
            fs.import().unwrap();
            let name = format!("m{}{}", i, "x".repeat(i * 3));
            vfs.mount(Box::new(fs), &format!("/{}", name)).unwrap();
            host.insert(name.as_bytes().to_vec(), libc::DT_DIR as u32);
        }
        let vfs = std::sync::Arc::new(vfs);
        w.subj = crate::ptworld::Subject::Vfs(fuse_backend_rs::api::server::Server::new(vfs.clone()));
        w.vfs = Some(vfs);
        w.fs = None;
        let _ = cl.init(&w.subj, crate::ptworld::CAPABLE_ALL);
        DirWorld { w, node: 1, host, problems: Vec::new(), canon: Vec::new(), pseudo: true, hist: BTreeMap::new(), host_same: 0 }
    }

    fn bad(&mut self, class: &str, msg: String) {
        self.problems.push((class.to_string(), msg));
    }

    pub fn opendir(&mut self, cl: &mut Client) -> Option<u64> {
        if self.w.zero_message_opendir() && !self.pseudo {
            return Some(0);
        }
        match cl.opendir(&self.w.subj, self.node, 0) {
            Ok((fh, _)) => {
                self.hist.remove(&fh);
                Some(fh)
            }
            Err(e) => {
                self.bad("opendir-failed", format!("errno {}", e));
                None
            }
        }
    }

    pub fn releasedir(&mut self, cl: &mut Client, fh: u64) {
        if self.w.zero_message_opendir() && !self.pseudo {
            return;
        }
        let _ = cl.release(&self.w.subj, self.node, fh, 0, true);
    }

    /// The order in which the server lists the directory, taken with one huge buffer.
    pub fn establish_canon(&mut self, cl: &mut Client) -> bool {
        let Some(fh) = self.opendir(cl) else { return false };
        let mut off = 0u64;
        let mut out: Vec<(Vec<u8>, u64, u32)> = Vec::new();
        for _ in 0..(self.host.len() + 3) {
            match cl.readdir(&self.w.subj, self.node, fh, off, 1 << 16, false) {
                Ok(v) => {
                    if v.is_empty() {
                        break;
                    }
                    for d in v {
                        off = d.off;
                        out.push((d.name, d.off, d.typ));
                    }
                }
                Err(e) => {
                    self.bad("readdir-failed", format!("errno {} at offset {}", e, off));
                    break;
                }
            }
        }
        self.releasedir(cl, fh);
        self.canon = out;
        self.check_listing("big-buffer-pass");
        self.problems.is_empty()
    }

    /// canonical listing vs the host's view
    fn check_listing(&mut self, what: &str) {
        let mut seen: BTreeSet<Vec<u8>> = BTreeSet::new();
        let canon = self.canon.clone();
        for (name, off, typ) in &canon {
            if name == b"." || name == b".." {
                self.bad(&format!("{}/dot-entry", what), format!("{:?} listed", String::from_utf8_lossy(name)));
            }
            if !seen.insert(name.clone()) {
                self.bad(&format!("{}/duplicate", what), format!("{:?} listed twice", String::from_utf8_lossy(name)));
            }
            if *off == 0 {
                self.bad(&format!("{}/zero-offset", what), format!("{:?} has continuation offset 0", String::from_utf8_lossy(name)));
            }
            match self.host.get(name) {
                None => self.bad(&format!("{}/phantom", what), format!("{:?} is not in the host directory", String::from_utf8_lossy(name))),
                Some(t) => {
                    if *typ != *t && !(self.pseudo && *typ == libc::DT_UNKNOWN as u32) {
                        self.bad(&format!("{}/type", what), format!("{:?} listed with type {}, host says {}", String::from_utf8_lossy(name), typ, t));
                    }
                }
            }
        }
        if seen.len() != self.host.len() && self.problems.is_empty() {
            let missing: Vec<String> = self.host.keys().filter(|k| !seen.contains(*k)).take(3).map(|k| String::from_utf8_lossy(k).to_string()).collect();
            self.bad(&format!("{}/missing", what), format!("{} of {} entries listed; missing e.g. {:?}", seen.len(), self.host.len(), missing));
        }
    }

    /// One READDIR(PLUS) from `off` with `size`: must return a prefix of what follows `off` in the
    /// canonical order, non-empty when the next entry fits, never more than `size`.
    pub fn read_and_check(&mut self, cl: &mut Client, fh: u64, off: u64, size: u32, plus: bool, what: &str) -> Option<u64> {
        let start = if off == 0 { 0 } else { self.canon.iter().position(|c| c.1 == off).map(|p| p + 1)? };
        let zero = self.w.zero_message_opendir() && !self.pseudo;
        if zero {
            // every READDIR works on a descriptor of its own
            self.hist.remove(&fh);
        }
        self.hist.entry(fh).or_default().push(off);
        let r = cl.readdir(&self.w.subj, self.node, fh, off, size, plus);
        let ents = match r {
            Ok(v) => v,
            Err(e) => {
                let cls = if e == EBADREPLY { "reply-exceeds-size-or-partial" } else { "readdir-failed" };
                self.bad(&format!("{}/{}", what, cls), format!("offset {} size {} plus {}: errno {}", off, size, plus, e));
                return None;
            }
        };
        let canon = self.canon.clone();
        let rest = &canon[start..];
        let mut used = 0usize;
        for (i, d) in ents.iter().enumerate() {
            used += fuse_reclen(d.name.len(), plus);
            match rest.get(i) {
                Some(c) if c.0 == d.name && c.1 == d.off => {
                    if d.typ != c.2 {
                        self.bad(&format!("{}/type-changed", what), format!("{:?}: type {} here, {} in the full listing", String::from_utf8_lossy(&d.name), d.typ, c.2));
                    }
                }
                _ => {
                    let exp = rest.get(i).map(|c| String::from_utf8_lossy(&c.0).to_string());
                    let cls = if canon.iter().any(|c| c.0 == d.name) { "wrong-order-skipped-or-repeated" } else { "phantom" };
                    self.bad(&format!("{}/{}", what, cls), format!("resuming at offset {} (size {}, plus {}): entry {} is {:?}, expected {:?}", off, size, plus, i, String::from_utf8_lossy(&d.name), exp));
                    return None;
                }
            }
        }
        if used > size as usize {
            self.bad(&format!("{}/reply-exceeds-size", what), format!("{} bytes of entries for size {}", used, size));
        }
        if ents.is_empty() {
            if let Some(next) = rest.first() {
                if fuse_reclen(next.0.len(), plus) <= size as usize && self.host_descriptor_is_empty_too(fh) {
                    // The host's own lseek/getdents64 on a descriptor with the same history returns nothing here
                    // (ext4 on this kernel: a never-read descriptor that is first read at the end-of-directory cookie
                    // answers the following read at offset 0 with nothing). The reply is what the host call yields.
                    self.host_same += 1;
                } else if fuse_reclen(next.0.len(), plus) <= size as usize {
                    self.bad(
                        &format!("{}/premature-end", what),
                        format!("empty reply at offset {} with size {} (plus {}), but {} entries remain and the next one ({:?}) needs {} bytes", off, size, plus, rest.len(), String::from_utf8_lossy(&next.0), fuse_reclen(next.0.len(), plus)),
                    );
                }
            }
        }
        Some(ents.last().map(|d| d.off).unwrap_or(off))
    }

    /// Drives a fresh host descriptor of the listed directory through the offsets read so far on `fh` (lseek +
    /// getdents64 each, as the passthrough does); true if the last call yields no entry other than "." and "..".
    fn host_descriptor_is_empty_too(&self, fh: u64) -> bool {
        if self.pseudo {
            return false;
        }
        let Some(h) = self.hist.get(&fh) else { return false };
        let dir = self.w.exp.join("big");
        let Ok(cpath) = std::ffi::CString::new(dir.to_string_lossy().as_bytes()) else { return false };
        let fd = unsafe { libc::open(cpath.as_ptr(), libc::O_RDONLY | libc::O_DIRECTORY | libc::O_CLOEXEC) };
        if fd < 0 {
            return false;
        }
        let mut buf = vec![0u8; 1 << 16];
        let mut last_has_entries = true;
        for off in h {
            let r = unsafe { libc::lseek64(fd, *off as i64, libc::SEEK_SET) };
            if r < 0 {
                unsafe { libc::close(fd) };
                return false;
            }
            let n = unsafe { libc::syscall(libc::SYS_getdents64, fd, buf.as_mut_ptr(), buf.len()) };
            last_has_entries = false;
            let mut p = 0usize;
            while n > 0 && p + 19 <= n as usize {
                let reclen = u16::from_ne_bytes([buf[p + 16], buf[p + 17]]) as usize;
                let name: Vec<u8> = buf[p + 19..p + reclen].iter().cloned().take_while(|b| *b != 0).collect();
                if name != b"." && name != b".." {
                    last_has_entries = true;
                }
                p += reclen.max(19);
            }
        }
        unsafe { libc::close(fd) };
        !last_has_entries
    }

    /// sequential pass with a fixed size on a fresh handle
    pub fn pass(&mut self, cl: &mut Client, size: u32, plus: bool, what: &str) {
        let Some(fh) = self.opendir(cl) else { return };
        let mut off = 0u64;
        let mut delivered = 0usize;
        let maxrec = self.canon.iter().map(|c| fuse_reclen(c.0.len(), plus)).max().unwrap_or(32);
        for _ in 0..(self.canon.len() + 3) {
            match self.read_and_check(cl, fh, off, size, plus, what) {
                None => break,
                Some(noff) => {
                    if noff == off {
                        break;
                    }
                    delivered += self.canon.iter().position(|c| c.1 == noff).unwrap_or(0) + 1 - if off == 0 { 0 } else { self.canon.iter().position(|c| c.1 == off).unwrap_or(0) + 1 };
                    off = noff;
                }
            }
            if !self.problems.is_empty() {
                break;
            }
        }
        if self.problems.is_empty() && size as usize >= maxrec && delivered != self.canon.len() {
            self.bad(&format!("{}/incomplete", what), format!("{} of {} entries delivered with size {}", delivered, self.canon.len(), size));
        }
        self.releasedir(cl, fh);
    }
}

#[derive(Clone, Copy, Debug, PartialEq, Eq, Hash)]
pub enum LOp {
    /// read on handle h (0/1) from the k-th position (0 = start, k = after the k-th canonical entry) with size kind
    Read(u8, u8, u8),
    Reopen(u8),
    /// LSEEK(SEEK_SET) on the directory handle h to the cookie of the k-th position: moves the descriptor under the
    /// server's feet; a later READDIR names its offset explicitly and must not care
    Seek(u8, u8),
}

impl<'a> SeqRun<'a> {
    fn c16_small(&mut self, cfg: &PtCfg, n: usize, plus: bool, seq: &[LOp]) -> bool {
        let uniform = n >= 10;
        let mut dw = DirWorld::new(cfg, &mut self.cl, n, uniform);
        let n0 = self.cl.nreq;
        if !dw.establish_canon(&mut self.cl) {
            // reported below
        }
        let mut hs = [dw.opendir(&mut self.cl).unwrap_or(0), dw.opendir(&mut self.cl).unwrap_or(0)];
        if dw.problems.is_empty() {
            for op in seq {
                match op {
                    LOp::Read(h, k, sk) => {
                        let kk = (*k as usize).min(dw.canon.len());
                        let off = if kk == 0 { 0 } else { dw.canon[kk - 1].1 };
                        let next = dw.canon.get(kk).map(|c| fuse_reclen(c.0.len(), plus)).unwrap_or(32) as u32;
                        let size = match sk {
                            0 => next,
                            // room for the following entry without its padding: it must not be appended
                            1 => next + dw.canon.get(kk + 1).map(|c| (if plus { 128 } else { 0 }) + 24 + c.0.len()).unwrap_or(7) as u32,
                            2 => next + dw.canon.get(kk + 1).map(|c| fuse_reclen(c.0.len(), plus)).unwrap_or(32) as u32,
                            3 => 4096,
                            // larger than the smallest host-side batch, smaller than the directory
                            _ => 352 + if plus { 8 * 128 } else { 0 },
                        };
                        dw.read_and_check(&mut self.cl, hs[*h as usize], off, size, plus, "resume");
                    }
                    LOp::Reopen(h) => {
                        dw.releasedir(&mut self.cl, hs[*h as usize]);
                        hs[*h as usize] = dw.opendir(&mut self.cl).unwrap_or(0);
                    }
                    LOp::Seek(h, k) => {
                        let kk = (*k as usize).min(dw.canon.len());
                        let off = if kk == 0 { 0 } else { dw.canon[kk - 1].1 };
                        let _ = self.cl.lseek(&dw.w.subj, dw.node, hs[*h as usize], off, libc::SEEK_SET as u32);
                    }
                }
                if !dw.problems.is_empty() {
                    break;
                }
            }
        }
        self.rep.eval();
        self.rep.transitions += self.cl.nreq - n0;
        self.rep.add("sum_empty_replies_the_host_descriptor_gives_too", dw.host_same);
        self.rep.outcome(&format!("small:n{}:{}:{}", n, if plus { "plus" } else { "plain" }, if dw.problems.is_empty() { "ok" } else { "VIOLATION" }));
        self.rep.state_of(&(cfg.label(), n, plus, format!("{:?}", seq)));
        self.rep.sample(|| json!({"config": cfg.label(), "entries": n, "plus": plus, "sequence": format!("{:?}", seq)}));
        let cut = !dw.problems.is_empty();
        self.c16_report(cfg, &dw, json!({"entries": n, "plus": plus, "sequence": format!("{:?}", seq)}));
        cut
    }

    fn c16_report(&mut self, cfg: &PtCfg, dw: &DirWorld, case: Value) {
        let mut seen = BTreeSet::new();
        for (class, msg) in &dw.problems {
            if !seen.insert(class.clone()) {
                continue;
            }
            let cfgl = cfg.label();
            let c2 = case.clone();
            let tag = if dw.pseudo { "@pseudo-dir" } else { "" };
            self.rep.violation(&format!("{}/{}{}", self.prop, class, tag), msg, || json!({"engine": "ptfs-c16", "config": cfgl, "case": c2}));
        }
    }

    fn c16_rec(&mut self, cfg: &PtCfg, n: usize, plus: bool, seq: &mut Vec<LOp>, alphabet: &[LOp], depth: usize) {
        let cut = self.c16_small(cfg, n, plus, seq);
        if cut || seq.len() >= depth || self.rep.over_budget() {
            return;
        }
        for op in alphabet {
            seq.push(*op);
            self.c16_rec(cfg, n, plus, seq, alphabet, depth);
            seq.pop();
        }
    }

    fn c16_big(&mut self, cfg: &PtCfg, n: usize, uniform: bool, pseudo_mounts: Option<usize>) {
        let mut dw = match pseudo_mounts {
            Some(k) => DirWorld::new_pseudo(&mut self.cl, k),
            None => DirWorld::new(cfg, &mut self.cl, n, uniform),
        };
        let n0 = self.cl.nreq;
        let base_inodes = dw.w.table_sizes().0;
        if dw.establish_canon(&mut self.cl) {
            for plus in [false, true] {
                let minrec = dw.canon.iter().map(|c| fuse_reclen(c.0.len(), plus)).max().unwrap_or(32) as u32;
                let minfirst = dw.canon.first().map(|c| fuse_reclen(c.0.len(), plus)).unwrap_or(32) as u32;
                let mut sizes = vec![minrec, minrec + 1, minrec + 100, 1024, 4096, 65536];
                if minfirst < minrec {
                    sizes.push(minfirst);
                    sizes.push(32 + if plus { 128 } else { 0 });
                }
                sizes.sort_unstable();
                sizes.dedup();
                for size in sizes {
                    dw.pass(&mut self.cl, size, plus, "sequential");
                    if !dw.problems.is_empty() {
                        break;
                    }
                }
                if !dw.problems.is_empty() {
                    break;
                }
                // rewinds: resume from every tenth (every one for small n) cookie, on one handle, going back and forth
                if let Some(fh) = dw.opendir(&mut self.cl) {
                    let step = if dw.canon.len() > 40 { 10 } else { 1 };
                    let cookies: Vec<u64> = dw.canon.iter().map(|c| c.1).collect();
                    let mut order: Vec<usize> = (0..cookies.len()).step_by(step).collect();
                    let rev: Vec<usize> = order.iter().rev().cloned().collect();
                    order.extend(rev);
                    let last = cookies.last().cloned();
                    for i in order {
                        for size in [minrec, minrec + 3, 352 + if plus { 1024 } else { 0 }, 1024, 4096] {
                            // read from c_i; go to the end (an empty batch); resume where the first read stopped,
                            // then go back to c_i again
                            let c1 = dw.read_and_check(&mut self.cl, fh, cookies[i], size, plus, "rewind");
                            if let Some(last) = last {
                                dw.read_and_check(&mut self.cl, fh, last, 4096, plus, "rewind");
                            }
                            if let Some(c1) = c1 {
                                dw.read_and_check(&mut self.cl, fh, c1, size, plus, "resume-after-eof");
                            }
                            dw.read_and_check(&mut self.cl, fh, cookies[i], minrec, plus, "rewind-after-eof");
                        }
                        if !dw.problems.is_empty() {
                            break;
                        }
                    }
                    dw.releasedir(&mut self.cl, fh);
                }
                if !dw.problems.is_empty() {
                    break;
                }
            }
            // readdirplus took a lookup reference for exactly the entries it delivered: all of them now
            if dw.problems.is_empty() && !dw.pseudo {
                let live = dw.w.table_sizes().0;
                if live != base_inodes + dw.canon.len() {
                    dw.bad("readdirplus-references", format!("{} live inode objects after listing {} entries with readdirplus ({} before)", live, dw.canon.len(), base_inodes));
                }
            }
        }
        self.rep.eval();
        self.rep.transitions += self.cl.nreq - n0;
        self.rep.add("sum_empty_replies_the_host_descriptor_gives_too", dw.host_same);
        self.rep.outcome(&format!("big:n{}:{}", dw.host.len(), if dw.problems.is_empty() { "ok" } else { "VIOLATION" }));
        self.rep.state_of(&(cfg.label(), n, uniform, pseudo_mounts));
        self.rep.sample(|| json!({"config": cfg.label(), "entries": dw.host.len(), "pseudo_mounts": pseudo_mounts, "canonical_first": dw.canon.iter().take(3).map(|c| (String::from_utf8_lossy(&c.0).to_string(), c.1)).collect::<Vec<_>>()}));
        self.c16_report(cfg, &dw, json!({"entries": n, "uniform_names": uniform, "pseudo_mounts": pseudo_mounts}));
    }
}

pub fn c16(args: &Args) -> Report {
    let mut rep = args.report();
    let thorough = args.thorough();
    let b = PtCfg::base();
    let cfgs = vec![
        b.clone(),
        PtCfg { no_opendir: true, ..b.clone() },
        PtCfg { behind_vfs: true, ..b.clone() },
        PtCfg { ext4: true, ..b.clone() },
        PtCfg { ext4: true, no_opendir: true, inode_file_handles: true, ..b.clone() },
    ];
    let mut idx = 0u64;
    let mut run = SeqRun { rep: &mut rep, cl: Client::new(), prop: "C16" };
    run.cl.cap = 1 << 17;
    // small directories: every resume sequence
    let depth = if thorough { 4 } else { 3 };
    for cfg in cfgs.iter().filter(|c| !c.ext4 || thorough) {
        for n in [0usize, 1, 2, 3, 5, 12] {
            if !thorough && n == 5 {
                continue;
            }
            let mut alphabet: Vec<LOp> = Vec::new();
            let positions: Vec<u8> = if n == 12 { vec![0, 4, 8, 9, 12] } else { (0..=(n as u8)).collect() };
            let kinds: Vec<u8> = if n == 12 { vec![0, 4, 3] } else if thorough { vec![0, 1, 2, 3] } else { vec![0, 1, 3] };
            for h in 0..2u8 {
                for k in &positions {
                    for sk in &kinds {
                        alphabet.push(LOp::Read(h, *k, *sk));
                    }
                }
                alphabet.push(LOp::Reopen(h));
            }
            for plus in [false, true] {
                for a in &alphabet {
                    if run.rep.mine(idx) {
                        let mut seq = vec![*a];
                        let d = if n >= 3 { depth - 1 } else { depth };
                        let d = if n == 12 && !cfg.behind_vfs && !cfg.ext4 { depth } else { d };
                        run.c16_rec(cfg, n, plus, &mut seq, &alphabet, d.max(2));
                    }
                    idx += 1;
                }
            }
        }
    }
    // an LSEEK on the directory handle between two reads: [read, seek, read] for every position and size kind
    for cfg in cfgs.iter().filter(|c| !c.ext4 || thorough) {
        for n in [3usize, 12] {
            let positions: Vec<u8> = if n == 12 { vec![0, 4, 8, 9, 12] } else { (0..=(n as u8)).collect() };
            let kinds: Vec<u8> = if n == 12 { vec![0, 4, 3] } else { vec![0, 1, 3] };
            for plus in [false, true] {
                for k1 in &positions {
                    for s1 in &kinds {
                        if run.rep.mine(idx) {
                            for k2 in &positions {
                                for k3 in &positions {
                                    for s3 in &kinds {
                                        let seq = [LOp::Read(0, *k1, *s1), LOp::Seek(0, *k2), LOp::Read(0, *k3, *s3)];
                                        run.c16_small(cfg, n, plus, &seq);
                                    }
                                }
                            }
                        }
                        idx += 1;
                    }
                }
            }
        }
    }
    // larger directories: sequential passes and rewinds
    let ns: Vec<usize> = if thorough { vec![5, 17, 100, 1000, 5000] } else { vec![5, 17, 100, 1000] };
    for cfg in &cfgs {
        for &n in &ns {
            for uniform in [false, true] {
                if run.rep.mine(idx) {
                    run.c16_big(cfg, n, uniform, None);
                }
                idx += 1;
            }
        }
    }
    for k in 0..=5usize {
        if run.rep.mine(idx) {
            run.c16_big(&b, 0, false, Some(k));
        }
        idx += 1;
    }
    rep.set("units_all_shards", json!(idx));
    rep.set("configurations", json!(cfgs.iter().map(|c| c.label()).collect::<Vec<_>>()));
    rep
}

// ------------------------------------------------------------------------------------------------
// C12, layered part: the passthrough (standalone and behind a Vfs) and the overlay switch on no-open,
// no-opendir, writeback, kill-priv and per-file DAX behaviour exactly when the INIT reply says so.

const CAP_NO_OPEN: u64 = 1 << 17;
const CAP_WRITEBACK: u64 = 1 << 16;
const CAP_NO_OPENDIR: u64 = 1 << 24;
const CAP_KILLPRIV_V2: u64 = 1 << 28;
const CAP_INIT_EXT: u64 = 1 << 30;
const CAP_DAX: u64 = 1 << 33;

pub fn c12_layers(rep: &mut Report, idx: &mut u64) {
    use fuse_backend_rs::api::filesystem::Layer;
    use std::os::unix::fs::PermissionsExt;
    use std::sync::Arc;
    use fuse_backend_rs::overlayfs::config::Config as OConfig;
    use fuse_backend_rs::overlayfs::OverlayFs;
    use fuse_backend_rs::passthrough::{Config as PConfig, PassthroughFs};
    type BoxedLayer = Box<dyn Layer<Inode = u64, Handle = u64> + Send + Sync>;
    let varied = [CAP_NO_OPEN, CAP_NO_OPENDIR, CAP_WRITEBACK, CAP_KILLPRIV_V2, CAP_DAX];
    let baseline: u64 = crate::ptworld::CAPABLE_ALL & !(CAP_NO_OPEN | CAP_NO_OPENDIR | CAP_WRITEBACK | CAP_KILLPRIV_V2 | CAP_DAX) | CAP_INIT_EXT;
    let mut cl = Client::new();
    for layer in 0..6usize {
        for sw in 0..32usize {
            for cm in 0..32usize {
              for dax_zero in [false, true] {
                // Config.dax_file_size = Some(8) or Some(0) ("every file"); without per-file DAX configured there is one case
                if dax_zero && sw & 16 == 0 {
                    continue;
                }
                let mine = rep.mine(*idx);
                *idx += 1;
                if !mine {
                    continue;
                }
                let (no_open, no_opendir, writeback, killpriv, dax) = (sw & 1 != 0, sw & 2 != 0, sw & 4 != 0, sw & 8 != 0, sw & 16 != 0);
                let caps = baseline | (0..5).filter(|i| cm & (1 << i) != 0).map(|i| varied[i]).fold(0, |a, b| a | b);
                let cfg = PtCfg { no_open, no_opendir, writeback, killpriv_v2: killpriv, dax, behind_vfs: layer == 1 || layer >= 3, layer_cfg_off: layer == 3 || layer == 5, late_mount: layer >= 4, dax_zero, ..PtCfg::base() };
                let n0 = cl.nreq;
                // the world: exported tree with a 7-byte file `a`, a 9-byte file `d/a` and a set-user-ID file `s`
                let mut w = PtWorld::new_caps(&cfg, &mut cl, true, if layer == 2 { crate::ptworld::CAPABLE_ALL } else { caps });
                std::fs::write(w.exp.join("s"), b"suid\n").unwrap();
                std::fs::set_permissions(w.exp.join("s"), std::fs::Permissions::from_mode(0o4755)).unwrap();
                let layer_name = ["passthrough", "vfs+passthrough", "overlay", "vfs(switches)+passthrough(defaults)", "vfs+passthrough-mounted-after-init", "vfs(switches)+passthrough(defaults)-mounted-after-init"][layer];
                if layer == 2 {
                    // an overlay whose upper layer is the export directory (everything is already "copied up")
                    let mk = |dir: &std::path::Path| -> Arc<BoxedLayer> {
                        let c = PConfig { root_dir: dir.to_string_lossy().to_string(), xattr: true, do_import: true, ..PConfig::default() };
                        let fs = PassthroughFs::<()>::new(c).unwrap();
                        fs.import().unwrap();
                        Arc::new(Box::new(fs) as BoxedLayer)
                    };
                    let low = w.base.join("lower");
                    std::fs::create_dir_all(&low).unwrap();
                    let ocfg = OConfig { do_import: true, no_open, no_opendir, writeback, killpriv_v2: killpriv, perfile_dax: dax, ..OConfig::default() };
                    let ofs = OverlayFs::new(Some(mk(&w.exp)), vec![mk(&low)], ocfg).unwrap();
                    w.subj = crate::ptworld::Subject::Ovl(fuse_backend_rs::api::server::Server::new(Arc::new(ofs)));
                    w.fs = None;
                    w.vfs = None;
                    let r = cl.init(&w.subj, caps);
                    w.enabled = if r.ok() && r.body.len() >= 64 { crate::wire::get(&r.body, &k::FUSE_INIT_OUT, "flags") | (crate::wire::get(&r.body, &k::FUSE_INIT_OUT, "flags2") << 32) } else { 0 };
                }
                let enabled = w.enabled;
                let mut problems: Vec<(String, String)> = Vec::new();
                // The property: a behaviour is switched on ONLY when the feature was negotiated (offered by the client and
                // enabled in the reply). The converse - negotiated but the layer does not behave - is not demanded by the
                // statement; it is counted (`notes`) and shown in the outcome, never reported as a violation.
                let notes = std::cell::RefCell::new(Vec::<String>::new());
                let eq = |class: &str, behaviour: bool, bit: u64, what: &str| -> Option<(String, String)> {
                    let neg = enabled & bit != 0 && caps & bit != 0;
                    if behaviour && !neg {
                        Some((class.to_string(), format!("{}: behaviour ON but the feature was not negotiated (offered: {}, enabled in the reply: {})", what, caps & bit != 0, enabled & bit != 0)))
                    } else {
                        if neg && !behaviour {
                            notes.borrow_mut().push(class.replace("-behaviour", ""));
                        }
                        None
                    }
                };
                if enabled & !caps & (CAP_NO_OPEN | CAP_NO_OPENDIR | CAP_WRITEBACK | CAP_KILLPRIV_V2 | CAP_DAX) != 0 {
                    problems.push(("enabled-not-offered".into(), format!("reply enables {:#x} which the client did not offer", enabled & !caps)));
                }
                let a = cl.lookup(&w.subj, 1, b"a").ok();
                let s = cl.lookup(&w.subj, 1, b"s").ok();
                let d = cl.lookup(&w.subj, 1, b"d").ok();
                let da = d.as_ref().and_then(|d| cl.lookup(&w.subj, d.nodeid, b"a").ok());
                if let (Some(a), Some(s), Some(da)) = (&a, &s, &da) {
                    // no-open / no-opendir
                    let o = cl.open(&w.subj, a.nodeid, libc::O_RDONLY as u32);
                    problems.extend(eq("no-open-behaviour", o == Err(libc::ENOSYS), CAP_NO_OPEN, "OPEN answered ENOSYS"));
                    if let Ok((fh, _)) = o {
                        let _ = cl.release(&w.subj, a.nodeid, fh, 0, false);
                    }
                    let od = cl.opendir(&w.subj, 1, 0);
                    problems.extend(eq("no-opendir-behaviour", od == Err(libc::ENOSYS), CAP_NO_OPENDIR, "OPENDIR answered ENOSYS"));
                    if let Ok((fh, _)) = od {
                        let _ = cl.release(&w.subj, 1, fh, 0, true);
                    }
                    // writeback: a write-only open is turned into read-write, O_APPEND is stripped (only observable with handles)
                    if let Ok((fh, _)) = cl.open(&w.subj, a.nodeid, (libc::O_WRONLY | libc::O_APPEND) as u32) {
                        let rd = cl.read(&w.subj, a.nodeid, fh, 0, 4, (libc::O_WRONLY | libc::O_APPEND) as u32);
                        problems.extend(eq("writeback-behaviour", rd.is_ok(), CAP_WRITEBACK, "a handle opened O_WRONLY|O_APPEND can be read (opened O_RDWR for the writeback cache)"));
                        let _ = cl.write(&w.subj, a.nodeid, fh, 0, b"X", (libc::O_WRONLY | libc::O_APPEND) as u32, 0);
                        let _ = cl.release(&w.subj, a.nodeid, fh, 0, false);
                        let content = std::fs::read(w.exp.join("a")).unwrap_or_default();
                        let overwrote = content.first() == Some(&b'X') && content.len() == 7;
                        let appended = content.len() == 8 && content.last() == Some(&b'X');
                        if overwrote || appended {
                            problems.extend(eq("writeback-append-behaviour", overwrote, CAP_WRITEBACK, "a WRITE at offset 0 on an O_APPEND handle overwrote byte 0 (O_APPEND stripped for the writeback cache)"));
                        } else {
                            problems.push(("writeback-probe".into(), format!("unexpected content after the probe write: {:?}", String::from_utf8_lossy(&content))));
                        }
                    }
                    // kill-priv v2: a WRITE flagged KILL_SUIDGID clears the set-user-ID bit (root keeps it otherwise)
                    if let Ok((fh, _)) = cl.open(&w.subj, s.nodeid, libc::O_WRONLY as u32) {
                        let wr = cl.write(&w.subj, s.nodeid, fh, 0, b"Z", libc::O_WRONLY as u32, k::FUSE_WRITE_KILL_SUIDGID as u32);
                        let _ = cl.release(&w.subj, s.nodeid, fh, 0, false);
                        if wr.is_ok() {
                            let mode = std::fs::metadata(w.exp.join("s")).map(|m| m.permissions().mode()).unwrap_or(0);
                            problems.extend(eq("killpriv-behaviour", mode & 0o4000 == 0, CAP_KILLPRIV_V2, "a WRITE with KILL_SUIDGID cleared the set-user-ID bit"));
                        } else {
                            problems.push(("killpriv-probe".into(), format!("probe WRITE failed: {:?}", wr)));
                        }
                    }
                    // per-file DAX: only files of at least dax_file_size (8) bytes, only when negotiated and configured
                    let big_dax = da.attr.flags as u64 & k::FUSE_ATTR_DAX != 0;
                    let small_dax = a.attr.flags as u64 & k::FUSE_ATTR_DAX != 0;
                    if dax {
                        problems.extend(eq("dax-behaviour", big_dax, CAP_DAX, "LOOKUP of a 9-byte file carries FUSE_ATTR_DAX (dax_file_size = 8)"));
                    } else if big_dax {
                        problems.push(("dax-behaviour".into(), "FUSE_ATTR_DAX on a file although per-file DAX is not configured".into()));
                    }
                    if small_dax && !dax_zero {
                        problems.push(("dax-behaviour".into(), "FUSE_ATTR_DAX on a 7-byte file although dax_file_size is 8".into()));
                    }
                    if dax && dax_zero {
                        problems.extend(eq("dax-all-files-behaviour", small_dax, CAP_DAX, "LOOKUP of a 7-byte file carries FUSE_ATTR_DAX (dax_file_size = 0: every file)"));
                    }
                } else {
                    problems.push(("probe-lookups-failed".into(), format!("a: {:?} s: {:?} d/a: {:?}", a.is_some(), s.is_some(), da.is_some())));
                }
                rep.eval();
                rep.transitions += cl.nreq - n0;
                let mut nn = notes.borrow().clone();
                nn.sort();
                nn.dedup();
                rep.outcome(&format!("layer:{}:enabled{:x}:{}{}", layer_name, (enabled >> 16 & 3) | (enabled >> 22 & 4) | (enabled >> 25 & 8) | (enabled >> 29 & 16), if problems.is_empty() { "ok" } else { "MISMATCH" }, if nn.is_empty() { String::new() } else { format!(":negotiated-but-inert[{}]", nn.join(",")) }));
                rep.state_of(&("layer", layer, sw, cm, dax_zero));
                rep.sample(|| json!({"layer": layer_name, "no_open": no_open, "no_opendir": no_opendir, "writeback": writeback, "killpriv_v2": killpriv, "dax": dax, "offered": format!("{:#x}", caps), "enabled": format!("{:#x}", enabled)}));
                let mut seen = BTreeSet::new();
                for (class, msg) in problems {
                    if !seen.insert(class.clone()) {
                        continue;
                    }
                    rep.violation(&format!("C12/{}/{}", layer_name, class), &msg, || json!({"engine": "c12-layers", "layer": layer_name, "no_open": no_open, "no_opendir": no_opendir, "writeback": writeback, "killpriv_v2": killpriv, "dax": dax, "dax_all_files": dax_zero, "offered": format!("{:#x}", caps), "enabled": format!("{:#x}", enabled)}));
                }
              }
            }
        }
    }
}
