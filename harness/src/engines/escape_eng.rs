//! C06: nothing outside the exported directory is reachable; names are single components.
//!
//! Two families, both exhaustive over their alphabets:
//!  * `tree`  — a real PassthroughFs (standalone and behind a Vfs) exporting `outer/exp`, surrounded by a
//!    sentinel tree (`outer/secret`, `outer/secretdir/x`, `outer` itself, `base/secret`). Every request
//!    sequence up to the depth bound over adversarial names / symlink topologies is run; after every
//!    request the sentinel tree must be bit-identical, no reply may carry attributes, data or names of a
//!    sentinel, and a request with a forbidden name must fail without changing the export either.
//!  * `gate`  — a Vfs in front of a logging backend: every name-taking operation x every forbidden name x
//!    every kind of parent; the backend's call log must stay empty and the reply must be an error.
use crate::args::Args;
use crate::client::*;
use crate::ptworld::*;
use crate::report::Report;
use serde_json::{json, Value};
use std::collections::{BTreeMap, BTreeSet};
use std::ffi::CStr;
use std::io;
use std::os::unix::fs::MetadataExt;
use std::path::{Path, PathBuf};
use std::sync::{Arc, Mutex};
use std::time::Duration;

use fuse_backend_rs::abi::fuse_abi::stat64;
use fuse_backend_rs::api::filesystem::{Context, Entry, FileSystem, FsOptions};
use fuse_backend_rs::api::server::Server;
use fuse_backend_rs::api::{Vfs, VfsOptions};

const SENT_T0: i64 = 946_684_800; // 2000-01-01: the mtime of every sentinel object
const MARKERS: [&[u8]; 2] = [b"TOP-SECRET", b"secret-x"];
const SENT_NAMES: [&[u8]; 3] = [b"secret", b"secretdir", b"exp"];

fn set_mtime(p: &Path, t: i64) {
    let c = cpath(p);
    let ts = [libc::timespec { tv_sec: t, tv_nsec: 0 }, libc::timespec { tv_sec: t, tv_nsec: 0 }];
    unsafe { libc::utimensat(libc::AT_FDCWD, c.as_ptr(), ts.as_ptr(), libc::AT_SYMLINK_NOFOLLOW) };
}

/// Everything under `base` except the export and the shadow: (path -> mode, uid, gid, size, nlink, mtime, ino, content/target/listing)
fn sentinel_state(base: &Path, skip: &[&Path]) -> BTreeMap<String, String> {
    let mut out = BTreeMap::new();
    let mut stack = vec![base.to_path_buf()];
    while let Some(d) = stack.pop() {
        if skip.iter().any(|s| *s == d.as_path()) {
            continue;
        }
        let Ok(md) = std::fs::symlink_metadata(&d) else { continue };
        let mut desc = format!("mode={:o} uid={} gid={} nlink={} mtime={}.{} ino={}", md.mode(), md.uid(), md.gid(), md.nlink(), md.mtime(), md.mtime_nsec(), md.ino());
        if md.file_type().is_dir() {
            let mut names: Vec<String> = std::fs::read_dir(&d).map(|r| r.filter_map(|e| e.ok()).map(|e| e.file_name().to_string_lossy().to_string()).collect()).unwrap_or_default();
            names.sort();
            desc.push_str(&format!(" entries={:?}", names));
            for n in names {
                stack.push(d.join(n));
            }
        } else if md.file_type().is_symlink() {
            desc.push_str(&format!(" target={:?}", std::fs::read_link(&d).ok()));
        } else if md.file_type().is_file() {
            desc.push_str(&format!(" size={} content={:?}", md.size(), std::fs::read(&d).map(|c| String::from_utf8_lossy(&c).to_string()).ok()));
        }
        out.insert(d.strip_prefix(base).unwrap().to_string_lossy().to_string(), desc);
    }
    out
}

fn export_inodes(exp: &Path) -> BTreeSet<u64> {
    let mut out = BTreeSet::new();
    let mut stack = vec![exp.to_path_buf()];
    while let Some(d) = stack.pop() {
        let Ok(md) = std::fs::symlink_metadata(&d) else { continue };
        out.insert(md.ino());
        if md.file_type().is_dir() {
            if let Ok(r) = std::fs::read_dir(&d) {
                for e in r.flatten() {
                    stack.push(e.path());
                }
            }
        }
    }
    out
}

#[derive(Clone, Copy, Debug, PartialEq, Eq, Hash)]
pub enum EOp {
    /// lookup(parent slot, name) — a successful lookup puts the node into the next free slot
    Lookup(u8, u8),
    /// create(parent slot, name, flag kind 0: O_WRONLY, 1: |O_TRUNC, 2: |O_EXCL, 3: O_PATH, 4: O_RDONLY|O_DIRECTORY,
    /// 5: O_WRONLY|O_NOFOLLOW|O_NONBLOCK) - kinds 3..5 are flag words a Linux kernel never puts into FUSE_CREATE but a
    /// virtio-fs guest can
    Create(u8, u8, u8),
    Mkdir(u8, u8),
    Mknod(u8, u8),
    /// symlink(parent, name, target kind)
    Symlink(u8, u8, u8),
    Unlink(u8, u8),
    Rmdir(u8, u8),
    /// link(node slot, parent slot, name)
    Link(u8, u8, u8),
    /// rename(parent, name -> parent2, name2)
    Rename(u8, u8, u8, u8),
    /// probes of a node slot: 0 getattr, 1 read everything (file data / link target / listing+), 2 write one byte,
    /// 3 chmod, 4 truncate, 5 set times, 6 chown, 7 setxattr, 8 open(O_TRUNC), 9 access+statfs
    Probe(u8, u8),
    /// dropping lookup references: kind 0 forget(node of the slot, 1), 1 forget(node, u64::MAX),
    /// 2 batch_forget[(node, 1)], 3 batch_forget[(node, u64::MAX)], 4 batch_forget[(node, 1), (node, u64::MAX), (root, u64::MAX)]
    Forget(u8, u8),
}

pub const N_OK_FILE: u8 = 0;
pub const N_NEW: u8 = 3;

pub struct EWorld {
    pub w: PtWorld,
    pub names: Vec<Vec<u8>>,
    pub bad_lookup: Vec<bool>,
    pub bad_mutate: Vec<bool>,
    pub slots: Vec<u64>,
    pub slot_mode: Vec<u32>,
    pub sentinel: BTreeMap<String, String>,
    pub problems: Vec<(String, String)>,
    pub export_inos: BTreeSet<u64>,
}

impl EWorld {
    pub fn new(cfg: &PtCfg, cl: &mut Client) -> EWorld {
        let w = PtWorld::new(cfg, cl, true);
        // more topology: a deep directory, a symlink to an outside directory, a relative escape from a subdirectory
        std::fs::create_dir(w.exp.join("d/dd")).unwrap();
        std::fs::write(w.exp.join("d/dd/f"), b"deep\n").unwrap();
        std::os::unix::fs::symlink("../secretdir", w.exp.join("escdir")).unwrap();
        std::os::unix::fs::symlink("../../secret", w.exp.join("d/up")).unwrap();
        std::os::unix::fs::symlink("..", w.exp.join("parent")).unwrap();
        for (i, p) in ["outer/secret", "outer/secretdir/x", "outer/secretdir", "outer", "secret", ""].iter().enumerate() {
            set_mtime(&w.base.join(p), SENT_T0 + i as i64);
        }
        let abs = w.outer.join("secret").to_string_lossy().to_string().into_bytes();
        let names: Vec<Vec<u8>> = vec![
            b"a".to_vec(),               // 0 existing file
            b"d".to_vec(),               // 1 existing directory
            b"dd".to_vec(),              // 2 existing directory inside d
            b"new".to_vec(),             // 3 free name
            b".".to_vec(),               // 4
            b"..".to_vec(),              // 5
            b"d/a".to_vec(),             // 6 two components inside
            b"../secret".to_vec(),       // 7 relative escape
            b"d/../../secret".to_vec(),  // 8 escape in disguise
            abs.clone(),                 // 9 absolute path of the sentinel
            b"esc".to_vec(),             // 10 symlink -> ../secret
            b"abs".to_vec(),             // 11 symlink -> absolute sentinel
            b"escdir".to_vec(),          // 12 symlink -> ../secretdir
            b"up".to_vec(),              // 13 symlink (in d) -> ../../secret
            b"parent".to_vec(),          // 14 symlink -> ..
            b"../new".to_vec(),          // 15 creation target outside
            b"x".to_vec(),               // 16 name of the file inside the sentinel directory
            b"/".to_vec(),               // 17
            b"..data".to_vec(),          // 18 a legal single component that merely begins with two dots
            b"...".to_vec(),             // 19 likewise
            b"escdir/".to_vec(),         // 20 a symlink to an outside directory with a trailing separator (resolves the link)
            b"escdir/.".to_vec(),        // 21
            b"d/".to_vec(),              // 22 an inside directory with a trailing separator
            b"new//".to_vec(),           // 23 a free name with trailing separators
        ];
        let bad_lookup: Vec<bool> = names.iter().map(|n| n.contains(&b'/')).collect();
        let bad_mutate: Vec<bool> = names.iter().map(|n| n.contains(&b'/') || n == b"." || n == b"..").collect();
        let mut ew = EWorld { w, names, bad_lookup, bad_mutate, slots: vec![1], slot_mode: vec![libc::S_IFDIR], sentinel: BTreeMap::new(), problems: Vec::new(), export_inos: BTreeSet::new() };
        ew.export_inos = export_inodes(&ew.w.exp);
        ew.sentinel = sentinel_state(&ew.w.base, &[&ew.w.exp, &ew.w.shadow]);
        // slots 1, 2: d and d/dd
        if let Ok(e) = cl.lookup(&ew.w.subj, 1, b"d") {
            ew.note_entry("setup", &e);
            ew.slots.push(e.nodeid);
            ew.slot_mode.push(e.attr.mode);
            if let Ok(e2) = cl.lookup(&ew.w.subj, e.nodeid, b"dd") {
                ew.note_entry("setup", &e2);
                ew.slots.push(e2.nodeid);
                ew.slot_mode.push(e2.attr.mode);
            }
        }
        ew
    }

    fn bad(&mut self, class: &str, msg: String) {
        self.problems.push((class.to_string(), msg));
    }

    fn note_attr(&mut self, what: &str, a: &AttrR) {
        if (a.mtime as i64) >= SENT_T0 && (a.mtime as i64) < SENT_T0 + 16 {
            self.bad(&format!("outside-attributes/{}", what), format!("reply carries the attributes of a sentinel object (mtime {}, mode {:o}, size {})", a.mtime, a.mode, a.size));
        }
        // behind a Vfs the reported inode number is the node id: 8 bits mount slot | 1 bit virtual | 8 bits device index | 47 bits host inode
        let ino = if self.w.cfg.behind_vfs { a.ino & ((1u64 << 47) - 1) } else { a.ino };
        let vfs_root = self.w.cfg.behind_vfs && a.ino & ((1u64 << 56) - 1) == 1;
        if self.w.cfg.use_host_ino && !vfs_root && !self.export_inos.contains(&ino) {
            // the export set is refreshed after every request; objects created by this request are added before
            let now = export_inodes(&self.w.exp);
            if !now.contains(&ino) {
                self.bad(&format!("outside-inode/{}", what), format!("reply carries host inode {} which is not inside the export", ino));
            }
        }
    }

    fn note_entry(&mut self, what: &str, e: &EntryR) {
        if e.nodeid != 0 {
            let a = e.attr.clone();
            self.note_attr(what, &a);
        }
    }

    fn note_data(&mut self, what: &str, d: &[u8]) {
        for m in MARKERS {
            if d.windows(m.len()).any(|w| w == m) {
                self.bad(&format!("outside-data/{}", what), format!("reply contains sentinel content {:?}", String::from_utf8_lossy(m)));
            }
        }
    }

    fn slot(&self, s: u8) -> Option<u64> {
        self.slots.get(s as usize).cloned()
    }

    /// Applies one operation; None if it refers to an empty slot (sequence not meaningful).
    pub fn step(&mut self, cl: &mut Client, op: &EOp) -> Option<String> {
        let opname = format!("{:?}", op).split('(').next().unwrap().to_string();
        // for a request with a forbidden name the export must not change either
        let forbidden = match op {
            EOp::Lookup(_, n) => self.bad_lookup[*n as usize],
            EOp::Create(_, n, _) | EOp::Mkdir(_, n) | EOp::Mknod(_, n) | EOp::Symlink(_, n, _) | EOp::Unlink(_, n) | EOp::Rmdir(_, n) | EOp::Link(_, _, n) => self.bad_mutate[*n as usize],
            EOp::Rename(_, n, _, n2) => self.bad_mutate[*n as usize] || self.bad_mutate[*n2 as usize],
            EOp::Probe(..) | EOp::Forget(..) => false,
        };
        let before = if forbidden { Some(snap(&self.w.exp)) } else { None };
        let subj = &self.w.subj as *const Subject;
        // SAFETY: subj lives as long as self.w; the borrow is split by hand because note_* need &mut self
        let subj: &Subject = unsafe { &*subj };
        let outcome: String = match *op {
            EOp::Lookup(p, n) => {
                let parent = self.slot(p)?;
                let name = self.names[n as usize].clone();
                match cl.lookup(subj, parent, &name) {
                    Ok(e) => {
                        self.note_entry("lookup", &e);
                        if e.nodeid != 0 {
                            // (behind a Vfs the root of the "/" mount is also known as slot-index<<56 | 1: the same object)
                            let root_ino = std::fs::metadata(&self.w.exp).map(|m| m.ino()).unwrap_or(0);
                            let is_root = e.nodeid & ((1u64 << 56) - 1) == 1 || (self.w.cfg.use_host_ino && !self.w.cfg.behind_vfs && e.attr.ino == root_ino);
                            if parent == 1 && name == b".." && !is_root {
                                self.bad("dotdot-at-root", format!("lookup(root, \"..\") returned node {} (inode {}) instead of the root", e.nodeid, e.attr.ino));
                            }
                            if self.slots.len() < 6 && !self.slots.contains(&e.nodeid) {
                                self.slots.push(e.nodeid);
                                self.slot_mode.push(e.attr.mode);
                            }
                        }
                        "ok".into()
                    }
                    Err(e) => format!("errno{}", e),
                }
            }
            EOp::Create(p, n, fk) => {
                let parent = self.slot(p)?;
                let name = self.names[n as usize].clone();
                let flags = match fk {
                    1 => (libc::O_WRONLY | libc::O_TRUNC) as u32,
                    2 => (libc::O_WRONLY | libc::O_EXCL) as u32,
                    3 => libc::O_PATH as u32,
                    4 => (libc::O_RDONLY | libc::O_DIRECTORY) as u32,
                    5 => (libc::O_WRONLY | libc::O_NOFOLLOW | libc::O_NONBLOCK) as u32,
                    _ => libc::O_WRONLY as u32,
                };
                match cl.create(subj, parent, &name, flags, 0o644, 0o022) {
                    Ok((e, fh, _)) => {
                        self.export_inos = export_inodes(&self.w.exp);
                        self.note_entry("create", &e);
                        // what the handle denotes must be inside the export as well
                        if !self.w.zero_message_open() {
                            if let Ok(a) = cl.getattr(subj, e.nodeid, Some(fh)) {
                                self.note_attr("create-handle", &a);
                            }
                            if let Ok(d) = cl.read(subj, e.nodeid, fh, 0, 4096, 0) {
                                self.note_data("create-handle", &d);
                            }
                        }
                        let _ = cl.write(subj, e.nodeid, fh, 0, b"W", 0, 0);
                        let _ = cl.release(subj, e.nodeid, fh, 0, false);
                        "ok".into()
                    }
                    Err(e) => format!("errno{}", e),
                }
            }
            EOp::Mkdir(p, n) => {
                let parent = self.slot(p)?;
                let name = self.names[n as usize].clone();
                match cl.mkdir(subj, parent, &name, 0o755, 0o022) {
                    Ok(e) => {
                        self.export_inos = export_inodes(&self.w.exp);
                        self.note_entry("mkdir", &e);
                        "ok".into()
                    }
                    Err(e) => format!("errno{}", e),
                }
            }
            EOp::Mknod(p, n) => {
                let parent = self.slot(p)?;
                let name = self.names[n as usize].clone();
                match cl.mknod(subj, parent, &name, libc::S_IFREG | 0o600, 0, 0o022) {
                    Ok(e) => {
                        self.export_inos = export_inodes(&self.w.exp);
                        self.note_entry("mknod", &e);
                        "ok".into()
                    }
                    Err(e) => format!("errno{}", e),
                }
            }
            EOp::Symlink(p, n, tk) => {
                let parent = self.slot(p)?;
                let name = self.names[n as usize].clone();
                let target: Vec<u8> = match tk {
                    0 => b"../secretdir".to_vec(),
                    1 => self.names[9].clone(),
                    _ => b"../..".to_vec(),
                };
                match cl.symlink(subj, parent, &name, &target) {
                    Ok(e) => {
                        self.export_inos = export_inodes(&self.w.exp);
                        self.note_entry("symlink", &e);
                        "ok".into()
                    }
                    Err(e) => format!("errno{}", e),
                }
            }
            EOp::Unlink(p, n) => {
                let parent = self.slot(p)?;
                let name = self.names[n as usize].clone();
                format!("errno{}", cl.unlink(subj, parent, &name))
            }
            EOp::Rmdir(p, n) => {
                let parent = self.slot(p)?;
                let name = self.names[n as usize].clone();
                format!("errno{}", cl.rmdir(subj, parent, &name))
            }
            EOp::Link(s, p, n) => {
                let node = self.slot(s)?;
                let parent = self.slot(p)?;
                let name = self.names[n as usize].clone();
                match cl.link(subj, node, parent, &name) {
                    Ok(e) => {
                        self.export_inos = export_inodes(&self.w.exp);
                        self.note_entry("link", &e);
                        "ok".into()
                    }
                    Err(e) => format!("errno{}", e),
                }
            }
            EOp::Rename(p, n, p2, n2) => {
                let a = self.slot(p)?;
                let b = self.slot(p2)?;
                let (x, y) = (self.names[n as usize].clone(), self.names[n2 as usize].clone());
                format!("errno{}", cl.rename(subj, a, &x, b, &y, 0))
            }
            EOp::Forget(s, kind) => {
                let node = self.slot(s)?;
                let r = match kind {
                    0 => cl.forget(subj, node, 1),
                    1 => cl.forget(subj, node, u64::MAX),
                    2 => cl.batch_forget(subj, &[(node, 1)]),
                    3 => cl.batch_forget(subj, &[(node, u64::MAX)]),
                    _ => cl.batch_forget(subj, &[(node, 1), (node, u64::MAX), (1, u64::MAX)]),
                };
                format!("errno{}", r.errno)
            }
            EOp::Probe(s, kind) => {
                let node = self.slot(s)?;
                let mode = self.slot_mode[s as usize] & libc::S_IFMT;
                match kind {
                    0 => match cl.getattr(subj, node, None) {
                        Ok(a) => {
                            self.note_attr("getattr", &a);
                            "ok".into()
                        }
                        Err(e) => format!("errno{}", e),
                    },
                    1 => {
                        if mode == libc::S_IFDIR {
                            let zero = self.w.zero_message_opendir();
                            let fh = if zero { Ok((0, 0)) } else { cl.opendir(subj, node, 0) };
                            match fh {
                                Ok((fh, _)) => {
                                    let mut res = String::from("ok");
                                    for plus in [false, true] {
                                        match cl.readdir(subj, node, fh, 0, 8192, plus) {
                                            Ok(v) => {
                                                for d in v {
                                                    if SENT_NAMES.iter().any(|s| *s == d.name.as_slice()) {
                                                        self.bad("outside-listing", format!("directory listing contains the sentinel name {:?}", String::from_utf8_lossy(&d.name)));
                                                    }
                                                    if let Some(raw) = &d.entry {
                                                        let e = parse_entry(raw);
                                                        self.note_entry("readdirplus", &e);
                                                    }
                                                }
                                            }
                                            Err(e) => res = format!("errno{}", e),
                                        }
                                    }
                                    if !zero {
                                        let _ = cl.release(subj, node, fh, 0, true);
                                    }
                                    res
                                }
                                Err(e) => format!("errno{}", e),
                            }
                        } else if mode == libc::S_IFLNK {
                            // the link's own content is the client's to read; what it points to is not
                            let r1 = cl.readlink(subj, node).map(|_| ()).err();
                            let r2 = match cl.open(subj, node, libc::O_RDONLY as u32) {
                                Ok((fh, _)) => {
                                    if let Ok(d) = cl.read(subj, node, fh, 0, 4096, 0) {
                                        self.note_data("read-through-symlink", &d);
                                    }
                                    let _ = cl.release(subj, node, fh, 0, false);
                                    Some(0)
                                }
                                Err(e) => Some(e),
                            };
                            format!("{:?}/{:?}", r1, r2)
                        } else {
                            let zero = self.w.zero_message_open();
                            let fh = if zero { Ok((0, 0)) } else { cl.open(subj, node, libc::O_RDONLY as u32) };
                            match fh {
                                Ok((fh, _)) => {
                                    if let Ok(d) = cl.read(subj, node, fh, 0, 4096, 0) {
                                        self.note_data("read", &d);
                                    }
                                    if !zero {
                                        let _ = cl.release(subj, node, fh, 0, false);
                                    }
                                    "ok".into()
                                }
                                Err(e) => format!("errno{}", e),
                            }
                        }
                    }
                    2 => {
                        if mode == libc::S_IFDIR {
                            return None;
                        }
                        let zero = self.w.zero_message_open();
                        let fh = if zero { Ok((0, 0)) } else { cl.open(subj, node, libc::O_WRONLY as u32) };
                        match fh {
                            Ok((fh, _)) => {
                                let r = cl.write(subj, node, fh, 0, b"Z", libc::O_WRONLY as u32, 0);
                                if !zero {
                                    let _ = cl.release(subj, node, fh, 0, false);
                                }
                                format!("{:?}", r)
                            }
                            Err(e) => format!("errno{}", e),
                        }
                    }
                    3 => format!("{:?}", cl.setattr(subj, node, &[("valid", 1), ("mode", 0o600)]).map(|a| self.note_attr("setattr", &a))),
                    4 => {
                        if mode == libc::S_IFDIR {
                            return None;
                        }
                        format!("{:?}", cl.setattr(subj, node, &[("valid", 8), ("size", 0)]).map(|a| self.note_attr("setattr", &a)))
                    }
                    5 => format!("{:?}", cl.setattr(subj, node, &[("valid", 16 | 32), ("mtime", 1_000_000), ("atime", 1_000_000)]).map(|a| self.note_attr("setattr", &a))),
                    6 => format!("{:?}", cl.setattr(subj, node, &[("valid", 2 | 4), ("uid", 12), ("gid", 13)]).map(|a| self.note_attr("setattr", &a))),
                    7 => format!("errno{}", cl.setxattr(subj, node, b"user.c06", b"v", 0)),
                    8 => {
                        if mode == libc::S_IFDIR {
                            return None;
                        }
                        match cl.open(subj, node, (libc::O_WRONLY | libc::O_TRUNC) as u32) {
                            Ok((fh, _)) => {
                                let _ = cl.release(subj, node, fh, 0, false);
                                "ok".into()
                            }
                            Err(e) => format!("errno{}", e),
                        }
                    }
                    _ => {
                        let a = cl.access(subj, node, 4);
                        let s = cl.statfs(subj, node);
                        format!("{}/{}", a, s.errno)
                    }
                }
            }
        };
        // ---- oracles after the request
        let now = sentinel_state(&self.w.base, &[&self.w.exp, &self.w.shadow]);
        if now != self.sentinel {
            let mut diff = Vec::new();
            for k in now.keys().chain(self.sentinel.keys()).collect::<BTreeSet<_>>() {
                if now.get(k) != self.sentinel.get(k) {
                    diff.push(format!("{:?}: {:?} -> {:?}", k, self.sentinel.get(k), now.get(k)));
                }
            }
            let kind = if now.len() > self.sentinel.len() { "created" } else if now.len() < self.sentinel.len() { "deleted" } else { "modified" };
            self.bad(&format!("outside-{}/{}", kind, opname), format!("objects outside the export changed: {}", diff.join("; ").chars().take(600).collect::<String>()));
            self.sentinel = now;
        }
        if forbidden {
            let failed = outcome.starts_with("errno") && outcome != "errno0";
            if !failed {
                self.bad(&format!("forbidden-name-accepted/{}", opname), format!("{:?} with a forbidden name answered {:?}", op, outcome));
            }
            if let Some(b) = before {
                let after = snap(&self.w.exp);
                if let Some(d) = snap_diff(&b, &after) {
                    self.bad(&format!("forbidden-name-had-effect/{}", opname), format!("{:?} changed the export: {}", op, d));
                }
            }
        }
        if outcome.contains(&format!("errno{}", EPANIC)) {
            self.bad(&format!("panic/{}", opname), format!("{:?} panicked", op));
        }
        Some(outcome)
    }
}

fn describe(ew: &EWorld, op: &EOp) -> String {
    let nm = |n: u8| String::from_utf8_lossy(&ew.names[n as usize]).to_string();
    match *op {
        EOp::Lookup(p, n) => format!("lookup(slot{}, {:?})", p, nm(n)),
        EOp::Create(p, n, k) => format!("create(slot{}, {:?}, flagkind {})", p, nm(n), k),
        EOp::Mkdir(p, n) => format!("mkdir(slot{}, {:?})", p, nm(n)),
        EOp::Mknod(p, n) => format!("mknod(slot{}, {:?})", p, nm(n)),
        EOp::Symlink(p, n, t) => format!("symlink(slot{}, {:?}, target kind {})", p, nm(n), t),
        EOp::Unlink(p, n) => format!("unlink(slot{}, {:?})", p, nm(n)),
        EOp::Rmdir(p, n) => format!("rmdir(slot{}, {:?})", p, nm(n)),
        EOp::Link(s, p, n) => format!("link(slot{} -> slot{}, {:?})", s, p, nm(n)),
        EOp::Rename(p, n, p2, n2) => format!("rename(slot{}, {:?} -> slot{}, {:?})", p, nm(n), p2, nm(n2)),
        EOp::Probe(s, k) => format!("probe(slot{}, kind {})", s, k),
        EOp::Forget(s, k) => format!("forget(slot{}, kind {})", s, k),
    }
}

pub fn alphabet(nnames: u8) -> (Vec<EOp>, Vec<EOp>) {
    let mut all = Vec::new();
    let parents: [u8; 4] = [0, 1, 2, 3];
    for p in parents {
        for n in 0..nnames {
            all.push(EOp::Lookup(p, n));
            if p <= 2 {
                for fk in 0..6 {
                    all.push(EOp::Create(p, n, fk));
                }
                all.push(EOp::Mkdir(p, n));
                all.push(EOp::Mknod(p, n));
                all.push(EOp::Symlink(p, n, 0));
                if n == N_NEW {
                    all.push(EOp::Symlink(p, n, 1));
                    all.push(EOp::Symlink(p, n, 2));
                }
                all.push(EOp::Unlink(p, n));
                all.push(EOp::Rmdir(p, n));
                all.push(EOp::Link(3, p, n));
                all.push(EOp::Rename(p, n, 0, N_NEW));
                all.push(EOp::Rename(0, N_OK_FILE, p, n));
            }
        }
    }
    // directory moves while in use
    all.push(EOp::Rename(1, 2, 0, N_NEW)); // d/dd -> /new (also produced above; dedup below)
    for s in 0..5u8 {
        for k in 0..10u8 {
            all.push(EOp::Probe(s, k));
        }
    }
    // the client drops references (also ones it does not hold, also the root's): what ".." and names resolve to
    // afterwards must still be inside the export
    for s in 0..3u8 {
        for k in 0..5u8 {
            all.push(EOp::Forget(s, k));
        }
    }
    let mut seen = BTreeSet::new();
    all.retain(|o| seen.insert(format!("{:?}", o)));
    // operations that change what later requests can reach: lookups (fill slots), symlink/dir creation, renames of directories
    let setup: Vec<EOp> = all
        .iter()
        .filter(|o| match o {
            EOp::Lookup(p, n) => *p <= 1 && [0u8, 1, 5, 10, 11, 12, 13, 14, 20, 21].contains(n),
            EOp::Symlink(p, n, _) => *p == 0 && *n == N_NEW,
            EOp::Mkdir(p, n) => *p == 0 && *n == N_NEW,
            EOp::Rename(p, n, p2, n2) => (*p == 1 && *n == 2 && *p2 == 0 && *n2 == N_NEW) || (*p == 0 && *n == 1 && *p2 == 0 && *n2 == N_NEW),
            EOp::Forget(s, k) => (*s == 0 && *k >= 3) || (*s == 1 && *k == 1),
            _ => false,
        })
        .cloned()
        .collect();
    (all, setup)
}

struct ERun<'a> {
    rep: &'a mut Report,
    cl: Client,
}

impl<'a> ERun<'a> {
    fn seq(&mut self, cfg: &PtCfg, seq: &[EOp]) -> bool {
        let mut ew = EWorld::new(cfg, &mut self.cl);
        let n0 = self.cl.nreq;
        let mut applicable = true;
        let mut outcomes = Vec::new();
        for op in seq {
            match ew.step(&mut self.cl, op) {
                None => {
                    applicable = false;
                    break;
                }
                Some(o) => outcomes.push(o),
            }
            if !ew.problems.is_empty() {
                break;
            }
        }
        if !applicable {
            return true;
        }
        self.rep.eval();
        self.rep.transitions += self.cl.nreq - n0;
        let lastop = format!("{:?}", seq.last().unwrap());
        let kind = lastop.split('(').next().unwrap().to_string();
        let res = outcomes.last().cloned().unwrap_or_default();
        let res = if res.len() > 12 { res[..12].to_string() } else { res };
        self.rep.outcome(&format!("{}:{}:{}", kind, res, if ew.problems.is_empty() { "ok" } else { "VIOLATION" }));
        self.rep.state_of(&(cfg.label(), format!("{:?}", seq)));
        self.rep.sample(|| json!({"config": cfg.label(), "sequence": seq.iter().map(|o| describe(&ew, o)).collect::<Vec<_>>(), "outcomes": outcomes}));
        let cut = !ew.problems.is_empty();
        let mut seen = BTreeSet::new();
        for (class, msg) in &ew.problems {
            if !seen.insert(class.clone()) {
                continue;
            }
            let ctx = if cfg.behind_vfs { "@behind-vfs" } else { "" };
            let cfgl = cfg.label();
            let d: Vec<String> = seq.iter().map(|o| describe(&ew, o)).collect();
            let raw: Vec<String> = seq.iter().map(|o| format!("{:?}", o)).collect();
            self.rep.violation(&format!("C06/{}{}", class, ctx), msg, || json!({"engine": "escape-tree", "config": cfgl, "sequence": d, "ops": raw}));
        }
        cut
    }
}

// ------------------------------------------------------------------------------------------------
// gate: Vfs in front of a logging backend

pub struct LogFs {
    pub log: Mutex<Vec<String>>,
}

impl LogFs {
    fn say(&self, s: String) {
        self.log.lock().unwrap().push(s);
    }
    fn entry(ino: u64, dir: bool) -> Entry {
        let mut st: stat64 = unsafe { std::mem::zeroed() };
        st.st_ino = ino;
        st.st_mode = if dir { libc::S_IFDIR | 0o755 } else { libc::S_IFREG | 0o644 };
        st.st_nlink = 1;
        Entry { inode: ino, generation: 0, attr: st, attr_flags: 0, attr_timeout: Duration::from_secs(1), entry_timeout: Duration::from_secs(1) }
    }
}

fn nm(n: &CStr) -> String {
    String::from_utf8_lossy(n.to_bytes()).to_string()
}

impl FileSystem for LogFs {
    type Inode = u64;
    type Handle = u64;
    fn init(&self, _c: FsOptions) -> io::Result<FsOptions> {
        Ok(FsOptions::empty())
    }
    fn lookup(&self, _ctx: &Context, parent: u64, name: &CStr) -> io::Result<Entry> {
        self.say(format!("lookup({}, {:?})", parent, nm(name)));
        match name.to_bytes() {
            b"sub" => Ok(Self::entry(10, true)),
            b"file" => Ok(Self::entry(11, false)),
            _ => Err(io::Error::from_raw_os_error(libc::ENOENT)),
        }
    }
    fn getattr(&self, _ctx: &Context, inode: u64, _h: Option<u64>) -> io::Result<(stat64, Duration)> {
        Ok((Self::entry(inode, inode != 11).attr, Duration::from_secs(1)))
    }
    fn symlink(&self, _ctx: &Context, l: &CStr, parent: u64, n: &CStr) -> io::Result<Entry> {
        self.say(format!("symlink({}, {:?} -> {:?})", parent, nm(n), nm(l)));
        Ok(Self::entry(20, false))
    }
    fn mknod(&self, _ctx: &Context, parent: u64, n: &CStr, _m: u32, _r: u32, _u: u32) -> io::Result<Entry> {
        self.say(format!("mknod({}, {:?})", parent, nm(n)));
        Ok(Self::entry(20, false))
    }
    fn mkdir(&self, _ctx: &Context, parent: u64, n: &CStr, _m: u32, _u: u32) -> io::Result<Entry> {
        self.say(format!("mkdir({}, {:?})", parent, nm(n)));
        Ok(Self::entry(21, true))
    }
    fn unlink(&self, _ctx: &Context, parent: u64, n: &CStr) -> io::Result<()> {
        self.say(format!("unlink({}, {:?})", parent, nm(n)));
        Ok(())
    }
    fn rmdir(&self, _ctx: &Context, parent: u64, n: &CStr) -> io::Result<()> {
        self.say(format!("rmdir({}, {:?})", parent, nm(n)));
        Ok(())
    }
    fn rename(&self, _ctx: &Context, olddir: u64, o: &CStr, newdir: u64, n: &CStr, _f: u32) -> io::Result<()> {
        self.say(format!("rename({}, {:?} -> {}, {:?})", olddir, nm(o), newdir, nm(n)));
        Ok(())
    }
    fn link(&self, _ctx: &Context, inode: u64, newparent: u64, n: &CStr) -> io::Result<Entry> {
        self.say(format!("link({} -> {}, {:?})", inode, newparent, nm(n)));
        Ok(Self::entry(inode, false))
    }
    fn create(&self, _ctx: &Context, parent: u64, n: &CStr, _a: fuse_backend_rs::abi::fuse_abi::CreateIn) -> io::Result<(Entry, Option<u64>, fuse_backend_rs::abi::fuse_abi::OpenOptions, Option<u32>)> {
        self.say(format!("create({}, {:?})", parent, nm(n)));
        Ok((Self::entry(22, false), Some(5), fuse_backend_rs::abi::fuse_abi::OpenOptions::empty(), None))
    }
}

struct ArcLog(Arc<LogFs>);
impl FileSystem for ArcLog {
    type Inode = u64;
    type Handle = u64;
    fn init(&self, c: FsOptions) -> io::Result<FsOptions> {
        self.0.init(c)
    }
    fn lookup(&self, ctx: &Context, parent: u64, name: &CStr) -> io::Result<Entry> {
        self.0.lookup(ctx, parent, name)
    }
    fn getattr(&self, ctx: &Context, inode: u64, h: Option<u64>) -> io::Result<(stat64, Duration)> {
        self.0.getattr(ctx, inode, h)
    }
    fn symlink(&self, ctx: &Context, l: &CStr, parent: u64, n: &CStr) -> io::Result<Entry> {
        self.0.symlink(ctx, l, parent, n)
    }
    fn mknod(&self, ctx: &Context, parent: u64, n: &CStr, m: u32, r: u32, u: u32) -> io::Result<Entry> {
        self.0.mknod(ctx, parent, n, m, r, u)
    }
    fn mkdir(&self, ctx: &Context, parent: u64, n: &CStr, m: u32, u: u32) -> io::Result<Entry> {
        self.0.mkdir(ctx, parent, n, m, u)
    }
    fn unlink(&self, ctx: &Context, parent: u64, n: &CStr) -> io::Result<()> {
        self.0.unlink(ctx, parent, n)
    }
    fn rmdir(&self, ctx: &Context, parent: u64, n: &CStr) -> io::Result<()> {
        self.0.rmdir(ctx, parent, n)
    }
    fn rename(&self, ctx: &Context, olddir: u64, o: &CStr, newdir: u64, n: &CStr, f: u32) -> io::Result<()> {
        self.0.rename(ctx, olddir, o, newdir, n, f)
    }
    fn link(&self, ctx: &Context, inode: u64, newparent: u64, n: &CStr) -> io::Result<Entry> {
        self.0.link(ctx, inode, newparent, n)
    }
    fn create(&self, ctx: &Context, parent: u64, n: &CStr, a: fuse_backend_rs::abi::fuse_abi::CreateIn) -> io::Result<(Entry, Option<u64>, fuse_backend_rs::abi::fuse_abi::OpenOptions, Option<u32>)> {
        self.0.create(ctx, parent, n, a)
    }
}

impl fuse_backend_rs::api::BackendFileSystem for ArcLog {
    fn mount(&self) -> io::Result<(Entry, u64)> {
        Ok((LogFs::entry(1, true), fuse_backend_rs::api::VFS_MAX_INO))
    }
    fn as_any(&self) -> &dyn std::any::Any {
        self
    }
}

const GATE_NAMES: [&[u8]; 12] = [b"/", b"a/b", b"/abs", b"../x", b"x/..", b"a/", b"//", b"./x", b".", b"..", b"sub/../..", b"\xff/\xfe"];
const GATE_OPS: [&str; 10] = ["lookup", "create", "mkdir", "mknod", "symlink", "unlink", "rmdir", "link", "rename-old", "rename-new"];

fn gate(run: &mut ERun, idx: &mut u64) {
    for (oi, opk) in GATE_OPS.iter().enumerate() {
        for (ni, name) in GATE_NAMES.iter().enumerate() {
            // parents: 0 root of a "/" mount, 1 directory inside that backend, 2 root of a "/m" mount, 3 pseudo root (with "/m" only)
            for pk in 0..4u8 {
                let mine = run.rep.mine(*idx);
                *idx += 1;
                if !mine {
                    continue;
                }
                let forbidden = name.contains(&b'/') || (*opk != "lookup" && (*name == b"." || *name == b".."));
                if !forbidden {
                    continue;
                }
                let log = Arc::new(LogFs { log: Mutex::new(Vec::new()) });
                let vfs = Vfs::new(VfsOptions::default());
                if pk <= 1 {
                    vfs.mount(Box::new(ArcLog(log.clone())), "/").unwrap();
                } else {
                    vfs.mount(Box::new(ArcLog(log.clone())), "/m").unwrap();
                }
                let srv = Server::new(Arc::new(vfs));
                let cl = &mut run.cl;
                let _ = cl.init(&srv, CAPABLE_ALL);
                let parent = match pk {
                    0 | 3 => 1,
                    1 => cl.lookup(&srv, 1, b"sub").map(|e| e.nodeid).unwrap_or(0),
                    _ => cl.lookup(&srv, 1, b"m").map(|e| e.nodeid).unwrap_or(0),
                };
                let file = if pk == 3 { 0 } else if pk == 2 { cl.lookup(&srv, parent, b"file").map(|e| e.nodeid).unwrap_or(0) } else { cl.lookup(&srv, 1, b"file").map(|e| e.nodeid).unwrap_or(0) };
                let mark = log.log.lock().unwrap().len();
                let n0 = cl.nreq;
                let errno: i32 = match *opk {
                    "lookup" => cl.lookup(&srv, parent, name).map(|e| if e.nodeid == 0 { libc::ENOENT } else { 0 }).unwrap_or_else(|e| e),
                    "create" => cl.create(&srv, parent, name, libc::O_WRONLY as u32, 0o644, 0).map(|_| 0).unwrap_or_else(|e| e),
                    "mkdir" => cl.mkdir(&srv, parent, name, 0o755, 0).map(|_| 0).unwrap_or_else(|e| e),
                    "mknod" => cl.mknod(&srv, parent, name, libc::S_IFREG | 0o600, 0, 0).map(|_| 0).unwrap_or_else(|e| e),
                    "symlink" => cl.symlink(&srv, parent, name, b"target").map(|_| 0).unwrap_or_else(|e| e),
                    "unlink" => cl.unlink(&srv, parent, name),
                    "rmdir" => cl.rmdir(&srv, parent, name),
                    "link" => cl.link(&srv, file, parent, name).map(|_| 0).unwrap_or_else(|e| e),
                    "rename-old" => cl.rename(&srv, parent, name, parent, b"fine", 0),
                    _ => cl.rename(&srv, parent, b"file", parent, name, 0),
                };
                let calls: Vec<String> = log.log.lock().unwrap()[mark..].to_vec();
                run.rep.eval();
                run.rep.transitions += run.cl.nreq - n0;
                run.rep.outcome(&format!("gate:{}:errno{}:{}", opk, errno, if calls.is_empty() { "backend-untouched" } else { "BACKEND-CALLED" }));
                run.rep.state_of(&("gate", oi, ni, pk));
                run.rep.sample(|| json!({"gate": opk, "name": String::from_utf8_lossy(name), "parent_kind": pk, "errno": errno}));
                let pkn = ["mount-root", "backend-dir", "submount-root", "pseudo-root"][pk as usize];
                if !calls.is_empty() {
                    let what = format!("{} with name {:?} on {} reached the backend: {:?}", opk, String::from_utf8_lossy(name), pkn, calls);
                    run.rep.violation(&format!("C06/vfs-gate/backend-touched/{}", opk), &what, || json!({"engine": "escape-gate", "op": opk, "name": crate::report::hex(name), "parent_kind": pk}));
                }
                if errno == 0 {
                    let what = format!("{} with name {:?} on {} succeeded", opk, String::from_utf8_lossy(name), pkn);
                    run.rep.violation(&format!("C06/vfs-gate/accepted/{}", opk), &what, || json!({"engine": "escape-gate", "op": opk, "name": crate::report::hex(name), "parent_kind": pk}));
                }
                if errno == EPANIC {
                    let what = format!("{} with name {:?} on {} panicked", opk, String::from_utf8_lossy(name), pkn);
                    run.rep.violation(&format!("C06/vfs-gate/panic/{}", opk), &what, || json!({"engine": "escape-gate", "op": opk, "name": crate::report::hex(name), "parent_kind": pk}));
                }
            }
        }
    }
}

pub fn configs(thorough: bool) -> Vec<PtCfg> {
    let b = PtCfg::base();
    let mut v = vec![
        PtCfg { use_host_ino: true, mntid: true, ..b.clone() },
        PtCfg { use_host_ino: true, behind_vfs: true, mntid: true, ..b.clone() },
        PtCfg { inode_file_handles: true, no_open: true, no_opendir: true, ..b.clone() },
    ];
    if thorough {
        v.push(b.clone());
        v.push(PtCfg { behind_vfs: true, inode_file_handles: true, ..b.clone() });
        v.push(PtCfg { use_host_ino: true, ext4: true, ..b.clone() });
    }
    v
}

pub fn c06(args: &Args) -> Report {
    let mut rep = args.report();
    let thorough = args.thorough();
    let cfgs = configs(thorough);
    let (all, setup) = alphabet(24);
    let mut idx = 0u64;
    let mut run = ERun { rep: &mut rep, cl: Client::new() };
    gate(&mut run, &mut idx);
    for cfg in &cfgs {
        // depth 1: everything
        for op in &all {
            if run.rep.mine(idx) {
                run.seq(cfg, &[*op]);
            }
            idx += 1;
        }
        // depth 2: setup x everything (thorough: everything x everything)
        let firsts: &Vec<EOp> = if thorough { &all } else { &setup };
        for a in firsts {
            for b in &all {
                if run.rep.mine(idx) && !run.rep.over_budget() {
                    run.seq(cfg, &[*a, *b]);
                }
                idx += 1;
            }
        }
        // forgotten references, then ".." walks: [forget kind on root / d, lookup(d or d/dd, ".."), anything on the node that
        // lookup returned (slot 3) or a further ".." from it]
        for f in all.iter().filter(|o| matches!(o, EOp::Forget(..))) {
            for p in [1u8, 2] {
                for c in all.iter().filter(|o| matches!(o, EOp::Lookup(3, _) | EOp::Probe(3, _) | EOp::Lookup(1, 5) | EOp::Lookup(2, 5))) {
                    if run.rep.mine(idx) && !run.rep.over_budget() {
                        run.seq(cfg, &[*f, EOp::Lookup(p, 5), *c]);
                    }
                    idx += 1;
                }
            }
        }
        // depth 3: setup x setup x everything
        if thorough {
            for a in &setup {
                for b in &setup {
                    for c in &all {
                        if run.rep.mine(idx) && !run.rep.over_budget() {
                            run.seq(cfg, &[*a, *b, *c]);
                        }
                        idx += 1;
                    }
                }
            }
        }
    }
    rep.set("units_all_shards", json!(idx));
    rep.set("alphabet", json!({"operations": all.len(), "setup_operations": setup.len(), "gate_names": GATE_NAMES.len(), "gate_ops": GATE_OPS.len()}));
    rep.set("configurations", json!(cfgs.iter().map(|c| c.label()).collect::<Vec<_>>()));
    rep
}

