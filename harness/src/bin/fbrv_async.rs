fn main() {
    eprintln!("engine A not built yet");
    std::process::exit(2);
}
