//! Engine A (feature asyncio): C20, async handler == sync handler.
use std::future::Future;
use std::pin::Pin;
use std::sync::Arc;
use std::task::{Context as TaskContext, Poll, Wake, Waker};

use fbrv::args::Args;
use fbrv::engines::wire_eng::{c01_shapes, client_view, virt_layout, Script, Tr};
use fbrv::env::{Exec, FuseDev, Serve, Virtio};
use fbrv::kabi as k;
use fbrv::ops;
use fbrv::report::{hex, Report};
use fbrv::scriptfs::ScriptFs;
use fbrv::wire::Req;
use fuse_backend_rs::api::server::Server;
use fuse_backend_rs::transport::{FsCacheReqHandler, Reader, Writer};
use serde_json::json;
use vm_memory::bitmap::BitmapSlice;

struct Noop;
impl Wake for Noop {
    fn wake(self: Arc<Self>) {}
}

fn block_on<F: Future>(mut f: Pin<&mut F>) -> Result<F::Output, String> {
    let waker = Waker::from(Arc::new(Noop));
    let mut cx = TaskContext::from_waker(&waker);
    for _ in 0..1000 {
        if let Poll::Ready(v) = f.as_mut().poll(&mut cx) {
            return Ok(v);
        }
    }
    Err("future stayed pending although the scripted filesystem never pends".into())
}

struct AsyncSide<'a>(&'a Server<Arc<ScriptFs>>);

impl Serve for AsyncSide<'_> {
    fn serve<S: BitmapSlice>(&self, r: Reader<'_, S>, w: Writer<'_, S>, vu: Option<&mut dyn FsCacheReqHandler>) -> Result<usize, String> {
        let fut = unsafe { self.0.async_handle_message(r, w, vu, None) };
        let mut fut = Box::pin(fut);
        match block_on(fut.as_mut()) {
            Ok(r) => r.map_err(|e| format!("{:?}", e)),
            Err(e) => Err(e),
        }
    }
}

struct AsyncSide2<'a>(&'a Server<Arc<fuse_backend_rs::api::Vfs>>);

impl Serve for AsyncSide2<'_> {
    fn serve<S: BitmapSlice>(&self, r: Reader<'_, S>, w: Writer<'_, S>, vu: Option<&mut dyn FsCacheReqHandler>) -> Result<usize, String> {
        let fut = unsafe { self.0.async_handle_message(r, w, vu, None) };
        let mut fut = Box::pin(fut);
        match block_on(fut.as_mut()) {
            Ok(r) => r.map_err(|e| format!("{:?}", e)),
            Err(e) => Err(e),
        }
    }
}

struct Rig {
    fs: Arc<ScriptFs>,
    server: Server<Arc<ScriptFs>>,
    dev: FuseDev,
    virt: Virtio,
}

impl Rig {
    fn run(&mut self, asynch: bool, req: &[u8], tr: &Tr, sc: Script) -> (Exec, Vec<String>) {
        self.fs.reset(sc.answer());
        let ex = match tr {
            Tr::Virt { cuts, wr, gap, wr_in_b, cache } => {
                let (rd, wrs) = virt_layout(req.len(), cuts, wr, *gap, *wr_in_b);
                if asynch {
                    self.virt.run(&AsyncSide(&self.server), req, &rd, &wrs, *cache)
                } else {
                    self.virt.run(&self.server, req, &rd, &wrs, *cache)
                }
            }
            Tr::Sep(cap) => {
                if asynch {
                    self.dev.via_file(&AsyncSide(&self.server), req, *cap)
                } else {
                    self.dev.via_file(&self.server, req, *cap)
                }
            }
            Tr::Chan => unreachable!(),
        };
        (ex, self.fs.take_log())
    }
}

fn compare(rig: &mut Rig, rep: &mut Report, req: &[u8], tr: &Tr, sc: Script, label: &str) {
    rep.eval();
    rep.transitions += 2;
    let is_init = req.len() >= 8 && fbrv::wire::get(req, &k::FUSE_IN_HEADER, "opcode") == k::FUSE_INIT;
    let (ex_s, log_s) = rig.run(false, req, tr, sc);
    if is_init {
        rig.server = Server::new(rig.fs.clone());
    }
    let (ex_a, log_a) = rig.run(true, req, tr, sc);
    if is_init {
        rig.server = Server::new(rig.fs.clone());
    }
    let opn = if req.len() >= 8 { ops::op_name(fbrv::wire::get(req, &k::FUSE_IN_HEADER, "opcode")) } else { "short".into() };
    let (rs, _) = client_view(tr, &ex_s);
    let (ra, _) = client_view(tr, &ex_a);
    let mut diffs: Vec<(String, String)> = Vec::new();
    if ex_a.panic.is_some() && ex_s.panic.is_none() {
        diffs.push(("async-panics".into(), format!("async handler panicked: {:?}", ex_a.panic)));
    }
    if log_s != log_a {
        let class = if log_a.is_empty() { "call-missing" } else if log_s.is_empty() { "extra-call" } else { "call-differs" };
        diffs.push((class.into(), format!("sync handler called {:?}, async handler called {:?}", log_s, log_a)));
    }
    if rs != ra {
        let class = if ra.is_empty() {
            "reply-missing".to_string()
        } else if rs.is_empty() {
            "extra-reply".to_string()
        } else if ra[0].len() != rs[0].len() {
            "reply-length-differs".to_string()
        } else {
            "reply-bytes-differ".to_string()
        };
        diffs.push((class, format!("sync emitted {:?}, async emitted {:?}", rs.iter().map(|r| hex(&r[..r.len().min(48)])).collect::<Vec<_>>(), ra.iter().map(|r| hex(&r[..r.len().min(48)])).collect::<Vec<_>>())));
    }
    let trk = if tr.is_virtio() { "virtio" } else { "fusedev" };
    rep.outcome(&format!("{}:{}:{}", opn, trk, if diffs.is_empty() { "same" } else { "DIFFERENT" }));
    rep.state_of(&(req, tr, sc.name()));
    rep.sample(|| json!({"case": label, "transport": tr.label(), "script": sc.name(), "sync_calls": log_s, "sync_reply_len": rs.first().map(|r| r.len())}));
    for (class, msg) in diffs {
        rep.violation(&format!("C20/{}/{}/{}", opn, class, trk), &msg, || {
            json!({"engine": "async", "case": label, "request_hex": hex(&req[..req.len().min(4200)]), "request_len": req.len(), "transport": tr.to_replay(), "script": sc.name()})
        });
    }
}

fn c20(args: &Args) -> Report {
    let mut rep = args.report();
    let fs = Arc::new(ScriptFs::new());
    let mut rig = Rig { server: Server::new(fs.clone()), fs, dev: FuseDev::new(), virt: Virtio::new(1, 6 << 20, 3 << 20) };
    let thorough = args.thorough();
    let mut idx = 0u64;
    let trs: Vec<Tr> = vec![
        Tr::Sep(8192 + 16),
        Tr::Sep(16),
        Tr::Sep(0),
        Tr::Sep(120),
        Tr::Virt { cuts: vec![], wr: vec![8208], gap: 0, wr_in_b: false, cache: true },
        Tr::Virt { cuts: vec![40], wr: vec![16, 8192], gap: 8, wr_in_b: true, cache: true },
        Tr::Virt { cuts: vec![40], wr: vec![], gap: 8, wr_in_b: true, cache: true },
        Tr::Virt { cuts: vec![13], wr: vec![15, 1, 100], gap: 8, wr_in_b: true, cache: false },
    ];
    let mut opcodes: Vec<u64> = (0..=52).collect();
    opcodes.extend([4096u64, 1 << 20, u32::MAX as u64]);
    let maxlen = ((1u64 << 20) + 4096) as u32;
    for &op in &opcodes {
        // malformed and well-formed shapes of the C01 generator
        for sh in c01_shapes(op, thorough, 8208) {
            let true_len = (40 + sh.body.len()) as u32;
            let mut lens: Vec<Option<u32>> = vec![None];
            if sh.wellformed || thorough {
                lens.extend([Some(0), Some(39), Some(true_len + 1), Some(maxlen - 1), Some(maxlen), Some(maxlen + 1), Some(u32::MAX)]);
            }
            for len in lens {
                let req = Req { len, ..Req::new(op, 1, sh.body.clone()) }.bytes();
                for tr in &trs {
                    for sc in Script::ALL.iter().chain(Script::KINDS.iter()).copied() {
                        if !thorough && len.is_some() && sc != Script::OkSmall {
                            continue;
                        }
                        if matches!(sc, Script::Kind(_)) && !sh.wellformed {
                            continue;
                        }
                        if rep.mine(idx) {
                            compare(&mut rig, &mut rep, &req, tr, sc, &format!("{}:{}:len={:?}", ops::op_name(op), sh.label, len));
                        }
                        idx += 1;
                    }
                }
            }
        }
        // well-formed DEV(1) of the C02 generator
        if ops::ALL_OPS.contains(&op) && op != k::FUSE_INIT {
            for (label, c) in fbrv::engines::wire_eng::c02_dev1_cases(op, thorough) {
                let req = c.req().bytes();
                for tr in trs.iter().filter(|t| t.capacity() >= 8192) {
                    if rep.mine(idx) {
                        compare(&mut rig, &mut rep, &req, tr, Script::OkSmall, &label);
                    }
                    idx += 1;
                }
            }
        }
    }
    // negotiated versions: an INIT with each minor on a fresh server per side, then one request per opcode; replies
    // that depend on the negotiated version (negative entries, compat layouts) must not differ between the handlers
    let minors: [u32; 10] = [0, 3, 4, 5, 8, 22, 31, 32, 33, 38];
    let vtrs = [Tr::Sep(8192 + 16), Tr::Virt { cuts: vec![40], wr: vec![16, 8192], gap: 8, wr_in_b: true, cache: true }];
    for &minor in &minors {
        for &op in ops::ALL_OPS.iter().filter(|o| **o != k::FUSE_INIT && **o != k::FUSE_DESTROY) {
            for tr in &vtrs {
                for sc in [Script::OkSmall, Script::Negative] {
                    if rep.mine(idx) {
                        let mut init = vec![0u8; k::FUSE_INIT_IN.size];
                        fbrv::wire::put(&mut init, &k::FUSE_INIT_IN, "major", 7);
                        fbrv::wire::put(&mut init, &k::FUSE_INIT_IN, "minor", minor as u64);
                        fbrv::wire::put(&mut init, &k::FUSE_INIT_IN, "max_readahead", 0x20000);
                        fbrv::wire::put(&mut init, &k::FUSE_INIT_IN, "flags", 0x7fff_ffff);
                        fbrv::wire::put(&mut init, &k::FUSE_INIT_IN, "flags2", 0xffff_ffff);
                        let init = Req::new(k::FUSE_INIT, 1, init).bytes();
                        let (label, c) = fbrv::engines::wire_eng::c02_dev1_cases(op, false).into_iter().next().unwrap();
                        let req = c.req().bytes();
                        // sync side
                        rig.server = Server::new(rig.fs.clone());
                        let _ = rig.run(false, &init, tr, Script::OkSmall);
                        let (ex_s, log_s) = rig.run(false, &req, tr, sc);
                        // async side
                        rig.server = Server::new(rig.fs.clone());
                        let _ = rig.run(true, &init, tr, Script::OkSmall);
                        let (ex_a, log_a) = rig.run(true, &req, tr, sc);
                        rig.server = Server::new(rig.fs.clone());
                        rep.eval();
                        rep.transitions += 4;
                        let (rs, _) = client_view(tr, &ex_s);
                        let (ra, _) = client_view(tr, &ex_a);
                        let opn = ops::op_name(op);
                        let trk = if tr.is_virtio() { "virtio" } else { "fusedev" };
                        let mut diffs: Vec<(String, String)> = Vec::new();
                        if log_s != log_a {
                            diffs.push(("call-differs@negotiated-version".into(), format!("after INIT 7.{}: sync handler called {:?}, async handler called {:?}", minor, log_s, log_a)));
                        }
                        if rs != ra {
                            diffs.push(("reply-differs@negotiated-version".into(), format!("after INIT 7.{} ({}): sync emitted {:?}, async emitted {:?}", minor, sc.name(), rs.iter().map(|r| hex(&r[..r.len().min(48)])).collect::<Vec<_>>(), ra.iter().map(|r| hex(&r[..r.len().min(48)])).collect::<Vec<_>>())));
                        }
                        rep.outcome(&format!("{}:{}:v:{}", opn, trk, if diffs.is_empty() { "same" } else { "DIFFERENT" }));
                        rep.state_of(&("versioned", minor, op, tr, sc.name()));
                        for (class, msg) in diffs {
                            rep.violation(&format!("C20/{}/{}/{}", opn, class, trk), &msg, || json!({"engine": "async-versioned", "case": label, "minor": minor, "script": sc.name(), "transport": tr.to_replay()}));
                        }
                    }
                    idx += 1;
                }
            }
        }
    }
    // a filesystem that translates caller ids (FileSystem::id_remap): both handlers must hand the translated
    // context to every operation
    rig.server = Server::new(rig.fs.clone());
    rig.fs.remap.store(true, std::sync::atomic::Ordering::Relaxed);
    for &op in ops::ALL_OPS.iter().filter(|o| **o != k::FUSE_INIT && **o != k::FUSE_DESTROY) {
        for (label, c) in fbrv::engines::wire_eng::c02_dev1_cases(op, false).into_iter().take(4) {
            let req = c.req().bytes();
            for tr in &vtrs {
                if rep.mine(idx) {
                    compare(&mut rig, &mut rep, &req, tr, Script::OkSmall, &format!("{}@id-remap", label));
                }
                idx += 1;
            }
        }
    }
    rig.fs.remap.store(false, std::sync::atomic::Ordering::Relaxed);
    // The Vfs has an asynchronous implementation of its own (lookup, getattr, setattr, open, create, read, write,
    // fsync, fallocate, fsyncdir): a Vfs with the scripted filesystem mounted on "/" (per-mount id mapping) and on
    // "/m" (another mapping), a global mapping, and every opcode's base request plus deviations, addressed to the
    // VFS root (node 1), to an inode of the "/" mount and to the root and an inode of the "/m" mount. The backend's
    // call log and the reply bytes must agree between the two handlers.
    {
        use fuse_backend_rs::api::{Vfs, VfsOptions};
        let vfs = Arc::new(Vfs::new(VfsOptions { id_mapping: (0, 1000, 10), ..VfsOptions::default() }));
        let slot_root = vfs.mount_with_id_mapping(Box::new(ScriptFs::new()), "/m", Some((0, 200_000, 65536))).expect("mount /m") as u64;
        let slot_top = vfs.mount_with_id_mapping(Box::new(ScriptFs::new()), "/", Some((0, 100_000, 65536))).expect("mount /") as u64;
        let server = Server::new(vfs.clone());
        let backends = || -> Vec<Arc<fuse_backend_rs::api::BackFileSystem>> { ["/", "/m"].iter().filter_map(|p| vfs.get_rootfs(p).ok().flatten().map(|(b, _)| b)).collect() };
        let nodes: [u64; 4] = [1, (slot_top << 56) | 0x4242, (slot_root << 56) | 1, (slot_root << 56) | 0x4242];
        let caller_sets: [(u32, u32); 3] = [(0, 0), (100_007, 200_009), (1_005, 7)];
        let dev = FuseDev::new();
        let mut dev = dev;
        for &op in ops::ALL_OPS.iter().filter(|o| **o != k::FUSE_INIT && **o != k::FUSE_DESTROY && **o != k::FUSE_FORGET && **o != k::FUSE_BATCH_FORGET) {
            for (label, c) in fbrv::engines::wire_eng::c02_dev1_cases(op, false).into_iter().take(3) {
                for &node in &nodes {
                    for &(uid, gid) in &caller_sets {
                        if rep.mine(idx) {
                            let mut c = c.clone();
                            c.nodeid = node;
                            c.uid = uid;
                            c.gid = gid;
                            if c.f.contains_key("uid") {
                                c.f.insert("uid", 100_003);
                                c.f.insert("gid", 200_004);
                            }
                            let req = c.req().bytes();
                            let mut side = |asynch: bool| -> (Vec<Vec<u8>>, Vec<String>) {
                                let bs = backends();
                                for b in &bs {
                                    if let Some(s) = b.as_any().downcast_ref::<ScriptFs>() {
                                        s.reset(Script::OkSmall.answer());
                                    }
                                }
                                let ex = if asynch { dev.via_file(&AsyncSide2(&server), &req, 8192 + 16) } else { dev.via_file(&server, &req, 8192 + 16) };
                                let mut log = Vec::new();
                                for (i, b) in bs.iter().enumerate() {
                                    if let Some(s) = b.as_any().downcast_ref::<ScriptFs>() {
                                        log.extend(s.take_log().into_iter().map(|l| format!("backend{}:{}", i, l.replace("async_", ""))));
                                    }
                                }
                                (ex.records, log)
                            };
                            let (rs, ls) = side(false);
                            let (ra, la) = side(true);
                            rep.eval();
                            rep.transitions += 2;
                            let opn = ops::op_name(op);
                            let mut diffs: Vec<(String, String)> = Vec::new();
                            if ls != la {
                                diffs.push(("vfs-backend-call-differs".into(), format!("through the Vfs, node {:#x}, caller ({},{}): sync handler made the backends see {:?}, async handler {:?}", node, uid, gid, ls, la)));
                            }
                            if rs != ra {
                                diffs.push(("vfs-reply-differs".into(), format!("through the Vfs, node {:#x}: sync emitted {:?}, async emitted {:?}", node, rs.iter().map(|r| hex(&r[..r.len().min(64)])).collect::<Vec<_>>(), ra.iter().map(|r| hex(&r[..r.len().min(64)])).collect::<Vec<_>>())));
                            }
                            rep.outcome(&format!("{}:vfs:{}", opn, if diffs.is_empty() { "same" } else { "DIFFERENT" }));
                            rep.state_of(&("vfs", op, &label, node, uid));
                            for (class, msg) in diffs {
                                rep.violation(&format!("C20/{}/{}", opn, class), &msg, || json!({"engine": "async-vfs", "case": label, "node": format!("{:#x}", node), "caller": [uid, gid]}));
                            }
                        }
                        idx += 1;
                    }
                }
            }
        }
    }
    rep.set("total_cases_all_shards", json!(idx));
    rep
}

fn main() {
    let args = Args::parse();
    fbrv::env::quiet_panics();
    let rep = match args.prop.as_str() {
        "C20" => c20(&args),
        p => {
            eprintln!("unknown property {} for the async engine", p);
            std::process::exit(2);
        }
    };
    if args.replay.is_some() {
        let code = args.replay_verdict(&rep);
        fbrv::env::cleanup_scratch();
        std::process::exit(code);
    }
    rep.finish();
    fbrv::env::cleanup_scratch();
}
