use fbrv::args::Args;
use fbrv::engines::{ptfs_eng, transport_eng, vfs_eng, wire_eng};

#[path = "../interpose.rs"]
mod interpose;

fn main() {
    interpose::mark();
    let args = Args::parse();
    fbrv::env::quiet_panics();
    if args.prop == "P-debug" {
        ptfs_eng::debug_timing();
        return;
    }
    if args.prop == "T-debug" {
        transport_eng::debug();
        return;
    }
    let rep = match args.prop.as_str() {
        "C01" => wire_eng::c01(&args),
        "C02" => wire_eng::c02(&args),
        "C03" => wire_eng::c03(&args),
        "C09" => fbrv::engines::conc_eng::c09(&args),
        "O-debug" => { fbrv::engines::overlay_eng::debug(); std::process::exit(0) }
        "C10" => fbrv::engines::overlay_eng::run(&args, "C10"),
        "C11" => fbrv::engines::overlay_eng::run(&args, "C11"),
        "C12" => wire_eng::c12(&args),
        "C04" => transport_eng::run(&args, "C04"),
        "C05" => ptfs_eng::c05(&args),
        "C08" => ptfs_eng::c08(&args),
        "C15" => ptfs_eng::c15(&args),
        "C16" => ptfs_eng::c16(&args),
        "C18" => ptfs_eng::c18(&args),
        "C06" => fbrv::engines::escape_eng::c06(&args),
        "C07" => vfs_eng::run(&args, "C07"),
        "C14" => vfs_eng::run(&args, "C14"),
        "C19" => vfs_eng::c19(&args),
        "C17" => transport_eng::run(&args, "C17"),
        p => {
            eprintln!("unknown property {}", p);
            std::process::exit(2);
        }
    };
    if args.replay.is_some() {
        let code = args.replay_verdict(&rep);
        fbrv::env::cleanup_scratch();
        std::process::exit(code);
    }
    rep.finish();
    fbrv::env::cleanup_scratch();
}
