//! Passthrough world: a scratch export directory with a sentinel tree around it, a shadow
//! directory driven by plain system calls, a PassthroughFs (optionally behind a Vfs) behind Server,
//! and the client model (inode numbers, lookup counts, handles).

use std::collections::BTreeMap;
use std::ffi::CString;
use std::os::unix::ffi::OsStrExt;
use std::os::unix::fs::{MetadataExt, PermissionsExt};
use std::path::{Path, PathBuf};
use std::sync::Arc;

use fuse_backend_rs::api::server::Server;
use fuse_backend_rs::api::{Vfs, VfsOptions};
use fuse_backend_rs::passthrough::{CachePolicy, Config, PassthroughFs};
use fuse_backend_rs::transport::{FsCacheReqHandler, Reader, Writer};
use vm_memory::bitmap::BitmapSlice;

use crate::client::Client;
use crate::env::Serve;
use crate::kabi as k;

#[derive(Clone, Debug, PartialEq, Eq, Hash)]
pub struct PtCfg {
    pub no_open: bool,
    pub no_opendir: bool,
    pub inode_file_handles: bool,
    pub use_host_ino: bool,
    pub writeback: bool,
    pub cache: u8, // 0 auto, 1 always, 2 never
    pub xattr: bool,
    pub ext4: bool,
    pub behind_vfs: bool,
    pub seal_size: bool,
    pub killpriv_v2: bool,
    /// per-file DAX: Config.dax_file_size = Some(8)
    pub dax: bool,
    /// behind a Vfs: the switches are set in VfsOptions only, the passthrough Config keeps its defaults (the layer
    /// has to honour what the Vfs negotiated)
    pub layer_cfg_off: bool,
    /// behind a Vfs: the backend is mounted AFTER the client's INIT (Vfs::mount then initialises it from the options
    /// the Vfs stored at INIT time)
    pub late_mount: bool,
    /// Config::enable_mntid (inode identity includes the mount id)
    pub mntid: bool,
    /// with `dax`: Config.dax_file_size = Some(0) ("every file") instead of Some(8)
    pub dax_zero: bool,
}

impl PtCfg {
    pub fn base() -> PtCfg {
        PtCfg {
            no_open: false,
            no_opendir: false,
            inode_file_handles: false,
            use_host_ino: false,
            writeback: false,
            cache: 0,
            xattr: true,
            ext4: false,
            behind_vfs: false,
            seal_size: false,
            killpriv_v2: false,
            dax: false,
            layer_cfg_off: false,
            late_mount: false,
            mntid: false,
            dax_zero: false,
        }
    }
    pub fn label(&self) -> String {
        format!(
            "{}{}{}{}{}cache{}{}{}{}{}{}{}{}{}{}",
            if self.no_open { "noopen," } else { "" },
            if self.no_opendir { "noopendir," } else { "" },
            if self.inode_file_handles { "filehandles," } else { "" },
            if self.use_host_ino { "hostino," } else { "" },
            if self.writeback { "writeback," } else { "" },
            self.cache,
            if self.xattr { ",xattr" } else { "" },
            if self.ext4 { ",ext4" } else { ",tmpfs" },
            if self.behind_vfs { ",vfs" } else { "" },
            if self.seal_size { ",seal" } else { "" },
            if self.killpriv_v2 { ",killpriv" } else { "" },
            if self.dax { ",dax" } else { "" },
            if self.layer_cfg_off { ",switches-in-vfs-only" } else { "" },
            if self.late_mount { ",mounted-after-init" } else { "" },
            if self.mntid { ",mntid" } else { "" },
        ) + if self.dax_zero { ",dax-all-files" } else { "" }
    }
    /// A list in which every pair of switch values occurs (quick tier).
    pub fn pairwise() -> Vec<PtCfg> {
        let b = PtCfg::base();
        vec![
            b.clone(),
            PtCfg { no_open: true, no_opendir: true, cache: 1, inode_file_handles: true, mntid: true, ..b.clone() },
            PtCfg { use_host_ino: true, writeback: true, xattr: false, mntid: true, ..b.clone() },
            PtCfg { ext4: true, inode_file_handles: true, use_host_ino: true, cache: 2, ..b.clone() },
            PtCfg { behind_vfs: true, no_opendir: true, writeback: true, cache: 1, ..b.clone() },
            PtCfg { behind_vfs: true, ext4: true, no_open: true, cache: 1, xattr: false, mntid: true, ..b.clone() },
            PtCfg { no_open: true, cache: 1, use_host_ino: true, inode_file_handles: true, behind_vfs: true, ..b.clone() },
            PtCfg { ext4: true, no_opendir: true, writeback: true, inode_file_handles: true, ..b.clone() },
        ]
    }
    pub fn all() -> Vec<PtCfg> {
        let mut v = Vec::new();
        for bits in 0..(1u32 << 9) {
            for cache in 0..3u8 {
                let c = PtCfg {
                    no_open: bits & 1 != 0,
                    no_opendir: bits & 2 != 0,
                    inode_file_handles: bits & 4 != 0,
                    use_host_ino: bits & 8 != 0,
                    writeback: bits & 16 != 0,
                    xattr: bits & 32 != 0,
                    ext4: bits & 64 != 0,
                    behind_vfs: bits & 128 != 0,
                    killpriv_v2: bits & 256 != 0,
                    dax: false,
                    layer_cfg_off: false,
                    late_mount: false,
                    mntid: bits & 4 != 0 && bits & 16 != 0,
                    dax_zero: false,
                    cache,
                    seal_size: false,
                };
                if c.no_open && c.cache != 1 {
                    continue;
                }
                if c.writeback && c.cache == 2 {
                    continue;
                }
                v.push(c);
            }
        }
        v
    }
}

pub enum Subject {
    Pt(Server<Arc<PassthroughFs>>),
    Vfs(Server<Arc<Vfs>>),
    Ovl(Server<Arc<fuse_backend_rs::overlayfs::OverlayFs>>),
}

impl Serve for Subject {
    fn serve<S: BitmapSlice>(&self, r: Reader<'_, S>, w: Writer<'_, S>, vu: Option<&mut dyn FsCacheReqHandler>) -> Result<usize, String> {
        match self {
            Subject::Pt(s) => s.serve(r, w, vu),
            Subject::Vfs(s) => s.serve(r, w, vu),
            Subject::Ovl(s) => s.serve(r, w, vu),
        }
    }
}

#[derive(Clone, Debug, PartialEq, Eq)]
pub struct NodeSnap {
    pub mode: u32,
    pub uid: u32,
    pub gid: u32,
    pub size: u64,
    pub nlink: u64,
    pub rdev: u64,
    pub content: Option<Vec<u8>>,
    pub target: Option<Vec<u8>>,
    pub xattrs: Vec<(Vec<u8>, Vec<u8>)>,
    pub dev_ino: (u64, u64),
}

pub fn cpath(p: &Path) -> CString {
    CString::new(p.as_os_str().as_bytes()).unwrap()
}

pub fn list_xattrs(p: &Path) -> Vec<(Vec<u8>, Vec<u8>)> {
    let c = cpath(p);
    let mut buf = vec![0u8; 4096];
    let n = unsafe { libc::llistxattr(c.as_ptr(), buf.as_mut_ptr() as *mut libc::c_char, buf.len()) };
    let mut out = Vec::new();
    if n <= 0 {
        return out;
    }
    for name in buf[..n as usize].split(|b| *b == 0).filter(|s| !s.is_empty()) {
        if !name.starts_with(b"user.") {
            continue;
        }
        let cn = CString::new(name).unwrap();
        let mut v = vec![0u8; 4096];
        let m = unsafe { libc::lgetxattr(c.as_ptr(), cn.as_ptr(), v.as_mut_ptr() as *mut libc::c_void, v.len()) };
        if m >= 0 {
            v.truncate(m as usize);
            out.push((name.to_vec(), v));
        }
    }
    out.sort();
    out
}

/// Snapshot of a directory tree, keyed by relative path. Times, st_blocks and inode numbers are
/// deliberately not part of the comparison (dev_ino is kept for identity checks only).
pub fn snap(root: &Path) -> BTreeMap<String, NodeSnap> {
    let mut out = BTreeMap::new();
    fn walk(root: &Path, rel: &str, out: &mut BTreeMap<String, NodeSnap>) {
        let p = if rel.is_empty() { root.to_path_buf() } else { root.join(rel) };
        let md = match std::fs::symlink_metadata(&p) {
            Ok(m) => m,
            Err(_) => return,
        };
        let ft = md.file_type();
        let mut s = NodeSnap {
            mode: md.mode(),
            uid: md.uid(),
            gid: md.gid(),
            size: if ft.is_file() { md.size() } else { 0 },
            nlink: if ft.is_dir() { 0 } else { md.nlink() },
            rdev: md.rdev(),
            content: None,
            target: None,
            xattrs: if ft.is_symlink() { vec![] } else { list_xattrs(&p) },
            dev_ino: (md.dev(), md.ino()),
        };
        if ft.is_file() {
            s.content = std::fs::read(&p).ok();
        }
        if ft.is_symlink() {
            s.target = std::fs::read_link(&p).ok().map(|t| t.as_os_str().as_bytes().to_vec());
        }
        out.insert(if rel.is_empty() { ".".to_string() } else { rel.to_string() }, s);
        if ft.is_dir() {
            if let Ok(rd) = std::fs::read_dir(&p) {
                let mut names: Vec<String> = rd.filter_map(|e| e.ok()).map(|e| e.file_name().to_string_lossy().to_string()).collect();
                names.sort();
                for n in names {
                    let child = if rel.is_empty() { n } else { format!("{}/{}", rel, n) };
                    walk(root, &child, out);
                }
            }
        }
    }
    walk(root, "", &mut out);
    out
}

/// First difference between two snapshots (ignoring dev/ino), as text.
pub fn snap_diff(a: &BTreeMap<String, NodeSnap>, b: &BTreeMap<String, NodeSnap>) -> Option<String> {
    for (k, va) in a {
        match b.get(k) {
            None => return Some(format!("{} exists only on the left", k)),
            Some(vb) => {
                let mut x = va.clone();
                let mut y = vb.clone();
                x.dev_ino = (0, 0);
                y.dev_ino = (0, 0);
                if x != y {
                    let what = if x.mode != y.mode {
                        format!("mode {:o} vs {:o}", x.mode, y.mode)
                    } else if x.uid != y.uid || x.gid != y.gid {
                        format!("owner {}:{} vs {}:{}", x.uid, x.gid, y.uid, y.gid)
                    } else if x.size != y.size {
                        format!("size {} vs {}", x.size, y.size)
                    } else if x.nlink != y.nlink {
                        format!("nlink {} vs {}", x.nlink, y.nlink)
                    } else if x.content != y.content {
                        "content differs".to_string()
                    } else if x.target != y.target {
                        "link target differs".to_string()
                    } else if x.xattrs != y.xattrs {
                        format!("xattrs {:?} vs {:?}", x.xattrs.len(), y.xattrs.len())
                    } else {
                        format!("rdev {} vs {}", x.rdev, y.rdev)
                    };
                    return Some(format!("{}: {}", k, what));
                }
            }
        }
    }
    for k in b.keys() {
        if !a.contains_key(k) {
            return Some(format!("{} exists only on the right", k));
        }
    }
    None
}

pub fn set_xattr(p: &Path, name: &str, val: &[u8]) -> i32 {
    let c = cpath(p);
    let n = CString::new(name).unwrap();
    unsafe { libc::lsetxattr(c.as_ptr(), n.as_ptr(), val.as_ptr() as *const libc::c_void, val.len(), 0) }
}

/// The seed tree (created identically in the export and in the shadow directory).
pub fn seed_tree(dir: &Path, outer_secret: &Path) {
    std::fs::create_dir_all(dir).unwrap();
    std::fs::set_permissions(dir, std::fs::Permissions::from_mode(0o755)).unwrap();
    std::fs::write(dir.join("a"), b"seed-a\n").unwrap();
    std::fs::set_permissions(dir.join("a"), std::fs::Permissions::from_mode(0o644)).unwrap();
    std::fs::create_dir(dir.join("d")).unwrap();
    std::fs::set_permissions(dir.join("d"), std::fs::Permissions::from_mode(0o755)).unwrap();
    std::fs::write(dir.join("d/a"), b"seed-d-a\n").unwrap();
    std::fs::set_permissions(dir.join("d/a"), std::fs::Permissions::from_mode(0o640)).unwrap();
    std::os::unix::fs::symlink("a", dir.join("l")).unwrap();
    std::os::unix::fs::symlink("../secret", dir.join("esc")).unwrap();
    std::os::unix::fs::symlink(outer_secret, dir.join("abs")).unwrap();
    let f = cpath(&dir.join("fifo"));
    unsafe { libc::mkfifo(f.as_ptr(), 0o600) };
    std::fs::hard_link(dir.join("d/a"), dir.join("h")).unwrap();
    // two names of one file in ONE directory: a single READDIR / READDIRPLUS batch lists the same inode twice
    std::fs::hard_link(dir.join("h"), dir.join("h2")).unwrap();
    // a legal name that merely begins with two dots
    std::fs::write(dir.join("..data"), b"dotdot-data\n").unwrap();
    std::fs::set_permissions(dir.join("..data"), std::fs::Permissions::from_mode(0o644)).unwrap();
}

pub struct PtWorld {
    pub base: PathBuf,
    pub outer: PathBuf,
    pub exp: PathBuf,
    pub shadow: PathBuf,
    pub cfg: PtCfg,
    pub fs: Option<Arc<PassthroughFs>>,
    pub vfs: Option<Arc<Vfs>>,
    pub subj: Subject,
    pub enabled: u64,
    _fifo_keep: Vec<std::fs::File>,
}

pub const CAPABLE_ALL: u64 = 0x0000_0002_ffff_ffff & !(1 << 31);

static WORLD_SEQ: std::sync::atomic::AtomicU64 = std::sync::atomic::AtomicU64::new(0);

impl PtWorld {
    /// Builds the directories, the filesystem and performs INIT. `seed`: populate with the seed tree.
    pub fn new(cfg: &PtCfg, cl: &mut Client, seed: bool) -> PtWorld {
        Self::new_caps(cfg, cl, seed, CAPABLE_ALL)
    }

    /// As `new`, with a chosen capability word in INIT.
    pub fn new_caps(cfg: &PtCfg, cl: &mut Client, seed: bool, caps: u64) -> PtWorld {
        let n = WORLD_SEQ.fetch_add(1, std::sync::atomic::Ordering::Relaxed);
        let base = crate::env::scratch_root(if cfg.ext4 { "ext4" } else { "tmpfs" }).join(format!("w{}", n));
        let _ = std::fs::remove_dir_all(&base);
        let outer = base.join("outer");
        let exp = outer.join("exp");
        let shadow = base.join("shadow");
        std::fs::create_dir_all(outer.join("secretdir")).unwrap();
        std::fs::write(outer.join("secret"), b"TOP-SECRET\n").unwrap();
        std::fs::write(outer.join("secretdir/x"), b"secret-x\n").unwrap();
        std::fs::create_dir_all(&exp).unwrap();
        std::fs::create_dir_all(&shadow).unwrap();
        // the shadow lives in a directory of the same depth with the same sentinel next to it
        std::fs::write(base.join("secret"), b"TOP-SECRET\n").unwrap();
        let mut keep = Vec::new();
        if seed {
            seed_tree(&exp, &outer.join("secret"));
            seed_tree(&shadow, &outer.join("secret"));
            for d in [&exp, &shadow] {
                // keep both ends of the fifo open so that an (illegal) open by the server cannot block
                if let Ok(f) = std::fs::OpenOptions::new().read(true).write(true).open(d.join("fifo")) {
                    keep.push(f);
                }
            }
        }
        let pcfg = Config {
            root_dir: exp.to_string_lossy().to_string(),
            do_import: !cfg.behind_vfs,
            no_open: cfg.no_open && !(cfg.behind_vfs && cfg.layer_cfg_off),
            no_opendir: cfg.no_opendir && !(cfg.behind_vfs && cfg.layer_cfg_off),
            inode_file_handles: cfg.inode_file_handles,
            use_host_ino: cfg.use_host_ino,
            writeback: cfg.writeback && !(cfg.behind_vfs && cfg.layer_cfg_off),
            cache_policy: match cfg.cache {
                1 => CachePolicy::Always,
                2 => CachePolicy::Never,
                _ => CachePolicy::Auto,
            },
            xattr: cfg.xattr,
            seal_size: cfg.seal_size,
            killpriv_v2: cfg.killpriv_v2 && !(cfg.behind_vfs && cfg.layer_cfg_off),
            dax_file_size: if cfg.dax { Some(if cfg.dax_zero { 0 } else { 8 }) } else { None },
            enable_mntid: cfg.mntid,
            ..Config::default()
        };
        let fs = PassthroughFs::<()>::new(pcfg).expect("PassthroughFs::new");
        let mut late: Option<PassthroughFs<()>> = None;
        let (fsarc, vfsarc, subj) = if cfg.behind_vfs {
            fs.import().expect("import");
            let vfs = Vfs::new(VfsOptions {
                no_open: cfg.no_open,
                no_opendir: cfg.no_opendir,
                no_writeback: !cfg.writeback,
                killpriv_v2: cfg.killpriv_v2,
                ..VfsOptions::default()
            });
            if cfg.late_mount {
                late = Some(fs);
            } else {
                vfs.mount(Box::new(fs), "/").expect("vfs mount");
            }
            let vfs = Arc::new(vfs);
            (None, Some(vfs.clone()), Subject::Vfs(Server::new(vfs)))
        } else {
            let fs = Arc::new(fs);
            (Some(fs.clone()), None, Subject::Pt(Server::new(fs)))
        };
        let mut w = PtWorld { base, outer, exp, shadow, cfg: cfg.clone(), fs: fsarc, vfs: vfsarc, subj, enabled: 0, _fifo_keep: keep };
        cl.creds(0, 0);
        let r = cl.init(&w.subj, caps);
        if r.ok() && r.body.len() >= 24 {
            w.enabled = crate::wire::get(&r.body, &k::FUSE_INIT_OUT, "flags") | if r.body.len() >= 64 { crate::wire::get(&r.body, &k::FUSE_INIT_OUT, "flags2") << 32 } else { 0 };
        }
        if let Some(fs) = late {
            w.vfs.as_ref().unwrap().mount(Box::new(fs), "/").expect("vfs mount after INIT");
        }
        w
    }

    /// (live inodes, handles, cookies) through hook H2
    pub fn table_sizes(&self) -> (usize, usize, usize) {
        if let Some(fs) = &self.fs {
            return fs.verif_table_sizes();
        }
        if let Some(vfs) = &self.vfs {
            if let Ok(Some((b, _))) = vfs.get_rootfs("/") {
                if let Some(p) = b.as_any().downcast_ref::<PassthroughFs<()>>() {
                    return p.verif_table_sizes();
                }
            }
        }
        (0, 0, 0)
    }

    pub fn refcount(&self, nodeid: u64) -> Option<u64> {
        let ino = if self.cfg.behind_vfs && nodeid != 1 { nodeid & 0x00ff_ffff_ffff_ffff } else { nodeid };
        if let Some(fs) = &self.fs {
            return fs.verif_refcount(ino);
        }
        if let Some(vfs) = &self.vfs {
            if let Ok(Some((b, _))) = vfs.get_rootfs("/") {
                if let Some(p) = b.as_any().downcast_ref::<PassthroughFs<()>>() {
                    return p.verif_refcount(ino);
                }
            }
        }
        None
    }

    pub fn zero_message_open(&self) -> bool {
        self.enabled & k::FUSE_NO_OPEN_SUPPORT != 0
    }
    pub fn zero_message_opendir(&self) -> bool {
        self.enabled & k::FUSE_NO_OPENDIR_SUPPORT != 0
    }

    pub fn cleanup(&self) {
        let _ = std::fs::remove_dir_all(&self.base);
    }
}

impl Drop for PtWorld {
    fn drop(&mut self) {
        self.cleanup();
    }
}

/// Number of open descriptors of this process.
pub fn fd_count() -> usize {
    std::fs::read_dir("/proc/self/fd").map(|d| d.count()).unwrap_or(0)
}

/// effective uid, gid of the calling thread and whether CAP_FSETID is effective
pub fn thread_creds() -> (u32, u32, bool) {
    let uid = unsafe { libc::syscall(libc::SYS_geteuid) } as u32;
    let gid = unsafe { libc::syscall(libc::SYS_getegid) } as u32;
    #[repr(C)]
    struct Hdr {
        version: u32,
        pid: i32,
    }
    #[repr(C)]
    #[derive(Default, Clone, Copy)]
    struct Data {
        effective: u32,
        permitted: u32,
        inheritable: u32,
    }
    let mut h = Hdr { version: 0x2008_0522, pid: 0 };
    let mut d = [Data::default(); 2];
    let rc = unsafe { libc::syscall(libc::SYS_capget, &mut h as *mut Hdr, d.as_mut_ptr()) };
    let fsetid = rc == 0 && d[0].effective & (1 << 4) != 0;
    (uid, gid, fsetid)
}

/// Runs `f` with the calling thread's effective ids switched, the way the library does for creating operations.
pub fn as_caller<R>(uid: u32, gid: u32, f: impl FnOnce() -> R) -> R {
    unsafe {
        if gid != 0 {
            libc::syscall(libc::SYS_setresgid, -1i32, gid, -1i32);
        }
        if uid != 0 {
            libc::syscall(libc::SYS_setresuid, -1i32, uid, -1i32);
        }
    }
    let r = f();
    unsafe {
        if uid != 0 {
            libc::syscall(libc::SYS_setresuid, -1i32, 0u32, -1i32);
        }
        if gid != 0 {
            libc::syscall(libc::SYS_setresgid, -1i32, 0u32, -1i32);
        }
    }
    r
}

pub fn errno() -> i32 {
    std::io::Error::last_os_error().raw_os_error().unwrap_or(0)
}
