//! Per-opcode knowledge of the FUSE protocol, written from the kernel's point of view:
//! how a request is laid out (kabi layouts), which filesystem operation it denotes and with which
//! arguments, and what the reply must look like. Independent of `fuse_backend_rs::abi`.

use crate::kabi::{self as k, Lay};
use crate::wire::{self, cstr, Req};
use std::collections::BTreeMap;

#[derive(Clone, Copy, Debug, PartialEq, Eq)]
pub enum FK {
    U64,
    U32,
    /// flag word; the listed bits are the ones with defined meaning
    Flags(&'static [u64]),
    /// padding / unused
    Pad,
    /// derived: length of the payload (IOCTL in_size, SETXATTR size)
    Len,
    /// derived: number of list elements
    Count,
    /// a reply size request bounded by the reply buffer (READ/READDIR size, GETXATTR size)
    Size,
}

#[derive(Clone, Debug)]
pub struct Case {
    pub op: u64,
    pub unique: u64,
    pub nodeid: u64,
    pub uid: u32,
    pub gid: u32,
    pub pid: u32,
    pub f: BTreeMap<&'static str, u64>,
    pub name1: Vec<u8>,
    pub name2: Vec<u8>,
    pub payload: Vec<u8>,
    pub list: Vec<(u64, u64)>,
}

pub const ALL_OPS: &[u64] = &[
    k::FUSE_LOOKUP, k::FUSE_FORGET, k::FUSE_GETATTR, k::FUSE_SETATTR, k::FUSE_READLINK, k::FUSE_SYMLINK, k::FUSE_MKNOD,
    k::FUSE_MKDIR, k::FUSE_UNLINK, k::FUSE_RMDIR, k::FUSE_RENAME, k::FUSE_LINK, k::FUSE_OPEN, k::FUSE_READ,
    k::FUSE_WRITE, k::FUSE_STATFS, k::FUSE_RELEASE, k::FUSE_FSYNC, k::FUSE_SETXATTR, k::FUSE_GETXATTR,
    k::FUSE_LISTXATTR, k::FUSE_REMOVEXATTR, k::FUSE_FLUSH, k::FUSE_INIT, k::FUSE_OPENDIR, k::FUSE_READDIR,
    k::FUSE_RELEASEDIR, k::FUSE_FSYNCDIR, k::FUSE_GETLK, k::FUSE_SETLK, k::FUSE_SETLKW, k::FUSE_ACCESS,
    k::FUSE_CREATE, k::FUSE_INTERRUPT, k::FUSE_BMAP, k::FUSE_DESTROY, k::FUSE_IOCTL, k::FUSE_POLL,
    k::FUSE_NOTIFY_REPLY, k::FUSE_BATCH_FORGET, k::FUSE_FALLOCATE, k::FUSE_READDIRPLUS, k::FUSE_RENAME2,
    k::FUSE_LSEEK, k::FUSE_COPY_FILE_RANGE, k::FUSE_SETUPMAPPING, k::FUSE_REMOVEMAPPING,
];

pub fn op_name(op: u64) -> String {
    for (n, v) in wire::kernel_opcodes() {
        if v == op {
            return n.to_string();
        }
    }
    format!("OP_{}", op)
}

/// Request structure of an opcode (None: no fixed structure).
pub fn layout(op: u64) -> Option<&'static Lay> {
    Some(match op {
        k::FUSE_FORGET => &k::FUSE_FORGET_IN,
        k::FUSE_GETATTR => &k::FUSE_GETATTR_IN,
        k::FUSE_SETATTR => &k::FUSE_SETATTR_IN,
        k::FUSE_MKNOD => &k::FUSE_MKNOD_IN,
        k::FUSE_MKDIR => &k::FUSE_MKDIR_IN,
        k::FUSE_RENAME => &k::FUSE_RENAME_IN,
        k::FUSE_LINK => &k::FUSE_LINK_IN,
        k::FUSE_OPEN | k::FUSE_OPENDIR => &k::FUSE_OPEN_IN,
        k::FUSE_READ | k::FUSE_READDIR | k::FUSE_READDIRPLUS => &k::FUSE_READ_IN,
        k::FUSE_WRITE => &k::FUSE_WRITE_IN,
        k::FUSE_RELEASE | k::FUSE_RELEASEDIR => &k::FUSE_RELEASE_IN,
        k::FUSE_FSYNC | k::FUSE_FSYNCDIR => &k::FUSE_FSYNC_IN,
        k::FUSE_SETXATTR => &k::FUSE_SETXATTR_IN,
        k::FUSE_GETXATTR | k::FUSE_LISTXATTR => &k::FUSE_GETXATTR_IN,
        k::FUSE_FLUSH => &k::FUSE_FLUSH_IN,
        k::FUSE_INIT => &k::FUSE_INIT_IN,
        k::FUSE_GETLK | k::FUSE_SETLK | k::FUSE_SETLKW => &k::FUSE_LK_IN,
        k::FUSE_ACCESS => &k::FUSE_ACCESS_IN,
        k::FUSE_CREATE => &k::FUSE_CREATE_IN,
        k::FUSE_INTERRUPT => &k::FUSE_INTERRUPT_IN,
        k::FUSE_BMAP => &k::FUSE_BMAP_IN,
        k::FUSE_IOCTL => &k::FUSE_IOCTL_IN,
        k::FUSE_POLL => &k::FUSE_POLL_IN,
        k::FUSE_BATCH_FORGET => &k::FUSE_BATCH_FORGET_IN,
        k::FUSE_FALLOCATE => &k::FUSE_FALLOCATE_IN,
        k::FUSE_RENAME2 => &k::FUSE_RENAME2_IN,
        k::FUSE_LSEEK => &k::FUSE_LSEEK_IN,
        k::FUSE_COPY_FILE_RANGE => &k::FUSE_COPY_FILE_RANGE_IN,
        k::FUSE_SETUPMAPPING => &k::FUSE_SETUPMAPPING_IN,
        k::FUSE_REMOVEMAPPING => &k::FUSE_REMOVEMAPPING_IN,
        _ => return None,
    })
}

/// Size of the request structure as this protocol revision (7.33, no SETXATTR_EXT, legacy INIT
/// payload handled by C12) sends it.
pub fn struct_size(op: u64) -> usize {
    match op {
        k::FUSE_SETXATTR => k::FUSE_COMPAT_SETXATTR_IN_SIZE as usize,
        k::FUSE_INIT => 16,
        _ => layout(op).map(|l| l.size).unwrap_or(0),
    }
}

const SETATTR_BITS: &[u64] = &[
    k::FATTR_MODE, k::FATTR_UID, k::FATTR_GID, k::FATTR_SIZE, k::FATTR_ATIME, k::FATTR_MTIME, k::FATTR_FH,
    k::FATTR_ATIME_NOW, k::FATTR_MTIME_NOW, k::FATTR_LOCKOWNER, k::FATTR_CTIME, k::FATTR_KILL_SUIDGID,
];

/// Fields of the request structure (kernel names) with their kinds, in layout order.
pub fn fields(op: u64) -> Vec<(&'static str, FK)> {
    use FK::*;
    match op {
        k::FUSE_FORGET => vec![("nlookup", U64)],
        k::FUSE_GETATTR => vec![("getattr_flags", Flags(&[k::FUSE_GETATTR_FH])), ("dummy", Pad), ("fh", U64)],
        k::FUSE_SETATTR => vec![
            ("valid", Flags(SETATTR_BITS)), ("padding", Pad), ("fh", U64), ("size", U64), ("lock_owner", U64),
            ("atime", U64), ("mtime", U64), ("ctime", U64), ("atimensec", U32), ("mtimensec", U32), ("ctimensec", U32),
            ("mode", U32), ("unused4", Pad), ("uid", U32), ("gid", U32), ("unused5", Pad),
        ],
        k::FUSE_MKNOD => vec![("mode", U32), ("rdev", U32), ("umask", U32), ("padding", Pad)],
        k::FUSE_MKDIR => vec![("mode", U32), ("umask", U32)],
        k::FUSE_RENAME => vec![("newdir", U64)],
        k::FUSE_LINK => vec![("oldnodeid", U64)],
        k::FUSE_OPEN => vec![("flags", U32), ("open_flags", Flags(&[k::FUSE_OPEN_KILL_SUIDGID]))],
        k::FUSE_OPENDIR => vec![("flags", U32), ("open_flags", Pad)],
        k::FUSE_READ => vec![
            ("fh", U64), ("offset", U64), ("size", Size), ("read_flags", Flags(&[k::FUSE_READ_LOCKOWNER])),
            ("lock_owner", U64), ("flags", U32), ("padding", Pad),
        ],
        k::FUSE_READDIR | k::FUSE_READDIRPLUS => vec![
            ("fh", U64), ("offset", U64), ("size", Size), ("read_flags", Pad), ("lock_owner", Pad), ("flags", Pad),
            ("padding", Pad),
        ],
        k::FUSE_WRITE => vec![
            ("fh", U64), ("offset", U64), ("size", U32),
            ("write_flags", Flags(&[k::FUSE_WRITE_CACHE, k::FUSE_WRITE_LOCKOWNER, k::FUSE_WRITE_KILL_SUIDGID])),
            ("lock_owner", U64), ("flags", U32), ("padding", Pad),
        ],
        k::FUSE_RELEASE => vec![
            ("fh", U64), ("flags", U32),
            ("release_flags", Flags(&[k::FUSE_RELEASE_FLUSH, k::FUSE_RELEASE_FLOCK_UNLOCK])), ("lock_owner", U64),
        ],
        k::FUSE_RELEASEDIR => vec![("fh", U64), ("flags", U32), ("release_flags", Pad), ("lock_owner", Pad)],
        k::FUSE_FSYNC | k::FUSE_FSYNCDIR => vec![("fh", U64), ("fsync_flags", Flags(&[k::FUSE_FSYNC_FDATASYNC])), ("padding", Pad)],
        k::FUSE_SETXATTR => vec![("size", Len), ("flags", U32)],
        k::FUSE_GETXATTR | k::FUSE_LISTXATTR => vec![("size", U32), ("padding", Pad)],
        k::FUSE_FLUSH => vec![("fh", U64), ("unused", Pad), ("padding", Pad), ("lock_owner", U64)],
        k::FUSE_GETLK | k::FUSE_SETLK | k::FUSE_SETLKW => vec![
            ("fh", U64), ("owner", U64), ("lk.start", U64), ("lk.end", U64), ("lk.type", U32), ("lk.pid", U32),
            ("lk_flags", Flags(&[k::FUSE_LK_FLOCK])), ("padding", Pad),
        ],
        k::FUSE_ACCESS => vec![("mask", U32), ("padding", Pad)],
        k::FUSE_CREATE => vec![("flags", U32), ("mode", U32), ("umask", U32), ("open_flags", Flags(&[k::FUSE_OPEN_KILL_SUIDGID]))],
        k::FUSE_INTERRUPT => vec![("unique", U64)],
        k::FUSE_BMAP => vec![("block", U64), ("blocksize", U32), ("padding", Pad)],
        k::FUSE_IOCTL => vec![("fh", U64), ("flags", U32), ("cmd", U32), ("arg", U64), ("in_size", Len), ("out_size", U32)],
        k::FUSE_POLL => vec![("fh", U64), ("kh", U64), ("flags", Flags(&[k::FUSE_POLL_SCHEDULE_NOTIFY])), ("events", U32)],
        k::FUSE_BATCH_FORGET => vec![("count", Count), ("dummy", Pad)],
        k::FUSE_FALLOCATE => vec![("fh", U64), ("offset", U64), ("length", U64), ("mode", U32), ("padding", Pad)],
        k::FUSE_RENAME2 => vec![("newdir", U64), ("flags", Flags(&[1, 2, 4])), ("padding", Pad)],
        k::FUSE_LSEEK => vec![("fh", U64), ("offset", U64), ("whence", U32), ("padding", Pad)],
        k::FUSE_COPY_FILE_RANGE => vec![
            ("fh_in", U64), ("off_in", U64), ("nodeid_out", U64), ("fh_out", U64), ("off_out", U64), ("len", U64), ("flags", U64),
        ],
        k::FUSE_SETUPMAPPING => vec![("fh", U64), ("foffset", U64), ("len", U64), ("flags", U64), ("moffset", U64)],
        k::FUSE_REMOVEMAPPING => vec![("count", Count)],
        _ => vec![],
    }
}

/// number of NUL-terminated names following the structure
pub fn n_names(op: u64) -> usize {
    match op {
        k::FUSE_LOOKUP | k::FUSE_MKNOD | k::FUSE_MKDIR | k::FUSE_UNLINK | k::FUSE_RMDIR | k::FUSE_LINK | k::FUSE_GETXATTR
        | k::FUSE_REMOVEXATTR | k::FUSE_CREATE | k::FUSE_SETXATTR => 1,
        k::FUSE_SYMLINK | k::FUSE_RENAME | k::FUSE_RENAME2 => 2,
        _ => 0,
    }
}

pub fn has_payload(op: u64) -> bool {
    matches!(op, k::FUSE_WRITE | k::FUSE_SETXATTR | k::FUSE_IOCTL)
}

pub fn has_list(op: u64) -> bool {
    matches!(op, k::FUSE_BATCH_FORGET | k::FUSE_REMOVEMAPPING)
}

/// Does the kernel wait for an answer to this opcode?
pub fn wants_reply(op: u64) -> bool {
    !matches!(op, k::FUSE_FORGET | k::FUSE_BATCH_FORGET | k::FUSE_INTERRUPT | k::FUSE_NOTIFY_REPLY)
}

/// Base valuation: every field, header field and name gets a distinct marker.
pub fn base_case(op: u64) -> Case {
    let mut f = BTreeMap::new();
    let mut i = 1u64;
    for (name, kind) in fields(op) {
        let v = match kind {
            FK::U64 => 0x0101_0101_0101_0101u64.wrapping_mul(i) | 0x1000_0000_0000_0000,
            FK::U32 => (0x0101_0101u64.wrapping_mul(i) & 0x7fff_ffff) | 0x1000_0000,
            FK::Flags(_) => 0,
            FK::Pad => 0,
            FK::Len | FK::Count => 0,
            FK::Size => 64,
        };
        f.insert(name, v);
        i += 1;
    }
    let (name1, name2) = match n_names(op) {
        0 => (vec![], vec![]),
        1 => (b"first".to_vec(), vec![]),
        _ => (b"first".to_vec(), b"second-name".to_vec()),
    };
    Case {
        op,
        unique: 0xA1A2_A3A4_A5A6_A7A8,
        nodeid: 0xB1B2_B3B4_B5B6_B7B8,
        uid: 0xC1C2_C3C4,
        gid: 0xD1D2_D3D4,
        pid: 0x61E2_E3E4,
        f,
        name1,
        name2,
        payload: if has_payload(op) { b"PAYLOAD-0123456789".to_vec() } else { vec![] },
        list: if has_list(op) { vec![(0x7101, 0x7102), (0x7201, 0x7202), (0x7301, 0x7302)] } else { vec![] },
    }
}

impl Case {
    pub fn g(&self, n: &str) -> u64 {
        *self.f.get(n).unwrap_or_else(|| panic!("case: no field {} for op {}", n, self.op))
    }

    /// value a derived field takes
    pub fn derived(&self, kind: FK) -> u64 {
        match kind {
            FK::Len => self.payload.len() as u64,
            FK::Count => self.list.len() as u64,
            _ => unreachable!(),
        }
    }

    /// effective value of a field, with derived fields filled in unless overridden (stored non-zero)
    pub fn v(&self, n: &str) -> u64 {
        for (name, kind) in fields(self.op) {
            if name == n {
                return match kind {
                    FK::Len | FK::Count => {
                        let s = self.g(n);
                        if s == 0 {
                            self.derived(kind)
                        } else {
                            s
                        }
                    }
                    _ => self.g(n),
                };
            }
        }
        panic!("no field {}", n)
    }

    pub fn body(&self) -> Vec<u8> {
        let mut b = Vec::new();
        if let Some(lay) = layout(self.op) {
            let mut s = vec![0u8; lay.size];
            for (name, _) in fields(self.op) {
                wire::put(&mut s, lay, name, self.v(name));
            }
            s.truncate(struct_size(self.op));
            b.extend_from_slice(&s);
        }
        match self.op {
            k::FUSE_SETXATTR => {
                b.extend_from_slice(&cstr(&self.name1));
                b.extend_from_slice(&self.payload);
            }
            _ => {
                let n = n_names(self.op);
                if n >= 1 {
                    b.extend_from_slice(&cstr(&self.name1));
                }
                if n >= 2 {
                    b.extend_from_slice(&cstr(&self.name2));
                }
                if has_payload(self.op) {
                    b.extend_from_slice(&self.payload);
                }
            }
        }
        if has_list(self.op) {
            for (a, c) in &self.list {
                b.extend_from_slice(&a.to_le_bytes());
                b.extend_from_slice(&c.to_le_bytes());
            }
        }
        b
    }

    pub fn req(&self) -> Req {
        Req {
            opcode: self.op as u32,
            unique: self.unique,
            nodeid: self.nodeid,
            uid: self.uid,
            gid: self.gid,
            pid: self.pid,
            body: self.body(),
            len: None,
        }
    }

    fn ctx(&self) -> String {
        format!("ctx=({},{},{})", self.uid, self.gid, self.pid as i32)
    }

    /// The filesystem calls this request denotes, in the log format of `ScriptFs`.
    /// `cache`: a DAX window handler is attached (virtio-fs with cache).
    pub fn expected_calls(&self, cache: bool) -> Vec<String> {
        use crate::scriptfs::esc;
        let c = self.ctx();
        let n = self.nodeid;
        let opt = |flag: bool, v: u64| if flag { format!("Some({})", v) } else { "None".to_string() };
        let one = |s: String| vec![s];
        match self.op {
            k::FUSE_LOOKUP => one(format!("lookup {} parent={} name={}", c, n, esc(&self.name1))),
            k::FUSE_FORGET => one(format!("forget {} inode={} count={}", c, n, self.v("nlookup"))),
            k::FUSE_GETATTR => one(format!(
                "getattr {} inode={} handle={}",
                c,
                n,
                opt(self.v("getattr_flags") & k::FUSE_GETATTR_FH != 0, self.v("fh"))
            )),
            k::FUSE_SETATTR => {
                let valid = self.v("valid");
                let passed = valid
                    & (k::FATTR_MODE | k::FATTR_UID | k::FATTR_GID | k::FATTR_SIZE | k::FATTR_ATIME | k::FATTR_MTIME
                        | k::FATTR_ATIME_NOW | k::FATTR_MTIME_NOW | k::FATTR_CTIME | k::FATTR_KILL_SUIDGID);
                one(format!(
                    "setattr {} inode={} st(mode={},uid={},gid={},size={},atime={}.{},mtime={}.{},ctime={}.{}) handle={} valid={:#x}",
                    c,
                    n,
                    self.v("mode") as u32,
                    self.v("uid") as u32,
                    self.v("gid") as u32,
                    self.v("size") as i64,
                    self.v("atime") as i64,
                    self.v("atimensec") as i64,
                    self.v("mtime") as i64,
                    self.v("mtimensec") as i64,
                    self.v("ctime") as i64,
                    self.v("ctimensec") as i64,
                    opt(valid & k::FATTR_FH != 0, self.v("fh")),
                    passed
                ))
            }
            k::FUSE_READLINK => one(format!("readlink {} inode={}", c, n)),
            k::FUSE_SYMLINK => one(format!(
                "symlink {} linkname={} parent={} name={}",
                c,
                esc(&self.name2),
                n,
                esc(&self.name1)
            )),
            k::FUSE_MKNOD => one(format!(
                "mknod {} parent={} name={} mode={} rdev={} umask={}",
                c,
                n,
                esc(&self.name1),
                self.v("mode"),
                self.v("rdev"),
                self.v("umask")
            )),
            k::FUSE_MKDIR => one(format!(
                "mkdir {} parent={} name={} mode={} umask={}",
                c,
                n,
                esc(&self.name1),
                self.v("mode"),
                self.v("umask")
            )),
            k::FUSE_UNLINK => one(format!("unlink {} parent={} name={}", c, n, esc(&self.name1))),
            k::FUSE_RMDIR => one(format!("rmdir {} parent={} name={}", c, n, esc(&self.name1))),
            k::FUSE_RENAME => one(format!(
                "rename {} olddir={} oldname={} newdir={} newname={} flags=0",
                c,
                n,
                esc(&self.name1),
                self.v("newdir"),
                esc(&self.name2)
            )),
            k::FUSE_RENAME2 => one(format!(
                "rename {} olddir={} oldname={} newdir={} newname={} flags={}",
                c,
                n,
                esc(&self.name1),
                self.v("newdir"),
                esc(&self.name2),
                self.v("flags") & 7
            )),
            k::FUSE_LINK => one(format!(
                "link {} inode={} newparent={} newname={}",
                c,
                self.v("oldnodeid"),
                n,
                esc(&self.name1)
            )),
            k::FUSE_OPEN => one(format!("open {} inode={} flags={} fuse_flags={}", c, n, self.v("flags"), self.v("open_flags"))),
            k::FUSE_READ => one(format!(
                "read {} inode={} handle={} size={} offset={} lock_owner={} flags={}",
                c,
                n,
                self.v("fh"),
                self.v("size"),
                self.v("offset"),
                opt(self.v("read_flags") & k::FUSE_READ_LOCKOWNER != 0, self.v("lock_owner")),
                self.v("flags")
            )),
            k::FUSE_WRITE => {
                let wf = self.v("write_flags");
                one(format!(
                    "write {} inode={} handle={} size={} offset={} lock_owner={} delayed={} flags={} fuse_flags={} payload={}",
                    c,
                    n,
                    self.v("fh"),
                    self.v("size"),
                    self.v("offset"),
                    opt(wf & k::FUSE_WRITE_LOCKOWNER != 0, self.v("lock_owner")),
                    wf & k::FUSE_WRITE_CACHE != 0,
                    self.v("flags"),
                    wf,
                    esc(&self.payload)
                ))
            }
            k::FUSE_STATFS => one(format!("statfs {} inode={}", c, n)),
            k::FUSE_RELEASE => {
                let rf = self.v("release_flags");
                let flush = rf & k::FUSE_RELEASE_FLUSH != 0;
                let unlock = rf & k::FUSE_RELEASE_FLOCK_UNLOCK != 0;
                one(format!(
                    "release {} inode={} flags={} handle={} flush={} flock_release={} lock_owner={}",
                    c,
                    n,
                    self.v("flags"),
                    self.v("fh"),
                    flush,
                    unlock,
                    opt(flush || unlock, self.v("lock_owner"))
                ))
            }
            k::FUSE_FSYNC => one(format!(
                "fsync {} inode={} datasync={} handle={}",
                c,
                n,
                self.v("fsync_flags") & k::FUSE_FSYNC_FDATASYNC != 0,
                self.v("fh")
            )),
            k::FUSE_FSYNCDIR => one(format!(
                "fsyncdir {} inode={} datasync={} handle={}",
                c,
                n,
                self.v("fsync_flags") & k::FUSE_FSYNC_FDATASYNC != 0,
                self.v("fh")
            )),
            k::FUSE_SETXATTR => one(format!(
                "setxattr {} inode={} name={} value={} flags={}",
                c,
                n,
                esc(&self.name1),
                esc(&self.payload),
                self.v("flags")
            )),
            k::FUSE_GETXATTR => one(format!("getxattr {} inode={} name={} size={}", c, n, esc(&self.name1), self.v("size"))),
            k::FUSE_LISTXATTR => one(format!("listxattr {} inode={} size={}", c, n, self.v("size"))),
            k::FUSE_REMOVEXATTR => one(format!("removexattr {} inode={} name={}", c, n, esc(&self.name1))),
            k::FUSE_FLUSH => one(format!("flush {} inode={} handle={} lock_owner={}", c, n, self.v("fh"), self.v("lock_owner"))),
            k::FUSE_OPENDIR => one(format!("opendir {} inode={} flags={}", c, n, self.v("flags"))),
            k::FUSE_READDIR => one(format!(
                "readdir {} inode={} handle={} size={} offset={}",
                c,
                n,
                self.v("fh"),
                self.v("size"),
                self.v("offset")
            )),
            k::FUSE_READDIRPLUS => one(format!(
                "readdirplus {} inode={} handle={} size={} offset={}",
                c,
                n,
                self.v("fh"),
                self.v("size"),
                self.v("offset")
            )),
            k::FUSE_RELEASEDIR => one(format!("releasedir {} inode={} flags={} handle={}", c, n, self.v("flags"), self.v("fh"))),
            k::FUSE_GETLK | k::FUSE_SETLK | k::FUSE_SETLKW => {
                let nm = match self.op {
                    k::FUSE_GETLK => "getlk",
                    k::FUSE_SETLK => "setlk",
                    _ => "setlkw",
                };
                one(format!(
                    "{} {} inode={} handle={} owner={} lock=({},{},{},{}) flags={}",
                    nm,
                    c,
                    n,
                    self.v("fh"),
                    self.v("owner"),
                    self.v("lk.start"),
                    self.v("lk.end"),
                    self.v("lk.type"),
                    self.v("lk.pid"),
                    self.v("lk_flags")
                ))
            }
            k::FUSE_ACCESS => one(format!("access {} inode={} mask={}", c, n, self.v("mask"))),
            k::FUSE_CREATE => one(format!(
                "create {} parent={} name={} flags={} mode={} umask={} fuse_flags={}",
                c,
                n,
                esc(&self.name1),
                self.v("flags"),
                self.v("mode"),
                self.v("umask"),
                self.v("open_flags")
            )),
            k::FUSE_INTERRUPT => vec![],
            k::FUSE_BMAP => one(format!("bmap {} inode={} block={} blocksize={}", c, n, self.v("block"), self.v("blocksize"))),
            k::FUSE_DESTROY => one("destroy".to_string()),
            k::FUSE_IOCTL => one(format!(
                "ioctl {} inode={} handle={} flags={} cmd={} data={} out_size={}",
                c,
                n,
                self.v("fh"),
                self.v("flags"),
                self.v("cmd"),
                if self.payload.is_empty() { "None".to_string() } else { format!("Some({})", esc(&self.payload)) },
                self.v("out_size")
            )),
            k::FUSE_POLL => one(format!(
                "poll {} inode={} handle={} khandle={} flags={} events={}",
                c,
                n,
                self.v("fh"),
                self.v("kh"),
                self.v("flags"),
                self.v("events")
            )),
            k::FUSE_NOTIFY_REPLY => one("notify_reply".to_string()),
            k::FUSE_BATCH_FORGET => one(format!("batch_forget {} {:?}", c, self.list)),
            k::FUSE_FALLOCATE => one(format!(
                "fallocate {} inode={} handle={} mode={} offset={} length={}",
                c,
                n,
                self.v("fh"),
                self.v("mode"),
                self.v("offset"),
                self.v("length")
            )),
            k::FUSE_LSEEK => one(format!(
                "lseek {} inode={} handle={} offset={} whence={}",
                c,
                n,
                self.v("fh"),
                self.v("offset"),
                self.v("whence")
            )),
            k::FUSE_COPY_FILE_RANGE => vec![],
            k::FUSE_SETUPMAPPING => {
                if cache {
                    one(format!(
                        "setupmapping {} inode={} handle={} foffset={} len={} flags={} moffset={}",
                        c,
                        n,
                        self.v("fh"),
                        self.v("foffset"),
                        self.v("len"),
                        self.v("flags"),
                        self.v("moffset")
                    ))
                } else {
                    vec![]
                }
            }
            k::FUSE_REMOVEMAPPING => {
                if cache {
                    one(format!("removemapping {} inode={} {:?}", c, n, self.list))
                } else {
                    vec![]
                }
            }
            _ => vec![],
        }
    }

    pub fn describe(&self) -> serde_json::Value {
        serde_json::json!({
            "op": op_name(self.op), "unique": self.unique, "nodeid": self.nodeid,
            "uid": self.uid, "gid": self.gid, "pid": self.pid,
            "fields": self.f.iter().map(|(k, v)| (k.to_string(), serde_json::json!(v))).collect::<serde_json::Map<_, _>>(),
            "name1": String::from_utf8_lossy(&self.name1[..self.name1.len().min(40)]), "name1_len": self.name1.len(),
            "name2": String::from_utf8_lossy(&self.name2[..self.name2.len().min(40)]), "name2_len": self.name2.len(),
            "payload_len": self.payload.len(), "list": self.list,
        })
    }
}

/// Size of the reply structure the kernel expects for a successful request (without variable data).
pub fn reply_struct(op: u64) -> Option<&'static Lay> {
    Some(match op {
        k::FUSE_LOOKUP | k::FUSE_SYMLINK | k::FUSE_MKNOD | k::FUSE_MKDIR | k::FUSE_LINK => &k::FUSE_ENTRY_OUT,
        k::FUSE_GETATTR | k::FUSE_SETATTR => &k::FUSE_ATTR_OUT,
        k::FUSE_OPEN | k::FUSE_OPENDIR => &k::FUSE_OPEN_OUT,
        k::FUSE_WRITE => &k::FUSE_WRITE_OUT,
        k::FUSE_STATFS => &k::FUSE_STATFS_OUT,
        k::FUSE_GETLK => &k::FUSE_LK_OUT,
        k::FUSE_BMAP => &k::FUSE_BMAP_OUT,
        k::FUSE_IOCTL => &k::FUSE_IOCTL_OUT,
        k::FUSE_POLL => &k::FUSE_POLL_OUT,
        k::FUSE_LSEEK => &k::FUSE_LSEEK_OUT,
        _ => return None,
    })
}
