//! A small FUSE client over the socketpair fusedev seam: encodes requests with kernel layouts,
//! sends them through a `Serve` subject, decodes replies. Used by the VFS, passthrough and overlay
//! engines.

use crate::env::{Exec, FuseDev, Serve};
use crate::kabi as k;
use crate::wire::{self, cstr, Dirent, Req, St};

pub const EPANIC: i32 = 100_001;
pub const ENOREPLY: i32 = 100_002;
pub const EBADREPLY: i32 = 100_003;

#[derive(Clone, Debug, Default, PartialEq, Eq)]
pub struct AttrR {
    pub ino: u64,
    pub size: u64,
    pub blocks: u64,
    pub atime: u64,
    pub mtime: u64,
    pub ctime: u64,
    pub atimensec: u32,
    pub mtimensec: u32,
    pub ctimensec: u32,
    pub mode: u32,
    pub nlink: u32,
    pub uid: u32,
    pub gid: u32,
    pub rdev: u32,
    pub blksize: u32,
    pub flags: u32,
}

pub fn parse_attr(b: &[u8], lay: &'static k::Lay, prefix: &str) -> AttrR {
    let g = |n: &str| wire::get(b, lay, &format!("{}{}", prefix, n));
    AttrR {
        ino: g("ino"),
        size: g("size"),
        blocks: g("blocks"),
        atime: g("atime"),
        mtime: g("mtime"),
        ctime: g("ctime"),
        atimensec: g("atimensec") as u32,
        mtimensec: g("mtimensec") as u32,
        ctimensec: g("ctimensec") as u32,
        mode: g("mode") as u32,
        nlink: g("nlink") as u32,
        uid: g("uid") as u32,
        gid: g("gid") as u32,
        rdev: g("rdev") as u32,
        blksize: g("blksize") as u32,
        flags: g("flags") as u32,
    }
}

#[derive(Clone, Debug, Default, PartialEq, Eq)]
pub struct EntryR {
    pub nodeid: u64,
    pub generation: u64,
    pub attr: AttrR,
}

pub fn parse_entry(b: &[u8]) -> EntryR {
    EntryR {
        nodeid: wire::get(b, &k::FUSE_ENTRY_OUT, "nodeid"),
        generation: wire::get(b, &k::FUSE_ENTRY_OUT, "generation"),
        attr: parse_attr(b, &k::FUSE_ENTRY_OUT, "attr."),
    }
}

#[derive(Clone, Debug)]
pub struct Rep {
    /// 0, a positive errno, or one of EPANIC / ENOREPLY / EBADREPLY
    pub errno: i32,
    pub body: Vec<u8>,
}

impl Rep {
    pub fn ok(&self) -> bool {
        self.errno == 0
    }
}

pub struct Client {
    pub dev: FuseDev,
    pub uid: u32,
    pub gid: u32,
    pub pid: u32,
    pub unique: u64,
    pub nreq: u64,
    pub cap: usize,
    pub last: Option<Exec>,
    /// fault injection for the next request only: fail the n-th descriptor allocation inside the server
    pub inject: Option<u64>,
    /// descriptor allocations the server made for the last request
    pub last_allocs: u64,
}

impl Client {
    pub fn new() -> Client {
        Client { dev: FuseDev::new(), uid: 0, gid: 0, pid: 4242, unique: 100, nreq: 0, cap: (1 << 20) + 4096, last: None, inject: None, last_allocs: 0 }
    }

    pub fn creds(&mut self, uid: u32, gid: u32) {
        self.uid = uid;
        self.gid = gid;
    }

    pub fn call<H: Serve>(&mut self, h: &H, op: u64, nodeid: u64, body: Vec<u8>) -> Rep {
        self.unique += 1;
        self.nreq += 1;
        let req = Req { opcode: op as u32, unique: self.unique, nodeid, uid: self.uid, gid: self.gid, pid: self.pid, body, len: None }.bytes();
        crate::fault::arm(self.inject.take().unwrap_or(0));
        let ex = self.dev.via_sep(h, &req, self.cap);
        self.last_allocs = crate::fault::disarm();
        let rep = if ex.panic.is_some() {
            Rep { errno: EPANIC, body: vec![] }
        } else if ex.records.is_empty() {
            Rep { errno: ENOREPLY, body: vec![] }
        } else {
            match wire::parse_reply(&ex.records[0]) {
                Ok(r) if r.unique == self.unique && r.len as usize == ex.records[0].len() && ex.records.len() == 1 => {
                    Rep { errno: -r.error, body: r.body }
                }
                _ => Rep { errno: EBADREPLY, body: vec![] },
            }
        };
        self.last = Some(ex);
        rep
    }

    pub fn init<H: Serve>(&mut self, h: &H, flags64: u64) -> Rep {
        let b = St::new(&k::FUSE_INIT_IN)
            .set("major", 7)
            .set("minor", 38)
            .set("max_readahead", 1 << 17)
            .set("flags", (flags64 & 0xffff_ffff) | k::FUSE_INIT_EXT)
            .set("flags2", flags64 >> 32)
            .bytes();
        self.call(h, k::FUSE_INIT, 0, b)
    }

    pub fn lookup<H: Serve>(&mut self, h: &H, parent: u64, name: &[u8]) -> Result<EntryR, i32> {
        let r = self.call(h, k::FUSE_LOOKUP, parent, cstr(name));
        if r.ok() && r.body.len() == k::FUSE_ENTRY_OUT.size {
            Ok(parse_entry(&r.body))
        } else if r.ok() {
            Err(EBADREPLY)
        } else {
            Err(r.errno)
        }
    }

    pub fn forget<H: Serve>(&mut self, h: &H, nodeid: u64, n: u64) -> Rep {
        self.call(h, k::FUSE_FORGET, nodeid, St::new(&k::FUSE_FORGET_IN).set("nlookup", n).bytes())
    }

    pub fn batch_forget<H: Serve>(&mut self, h: &H, items: &[(u64, u64)]) -> Rep {
        let mut b = St::new(&k::FUSE_BATCH_FORGET_IN).set("count", items.len() as u64).bytes();
        for (n, c) in items {
            b.extend_from_slice(&n.to_le_bytes());
            b.extend_from_slice(&c.to_le_bytes());
        }
        self.call(h, k::FUSE_BATCH_FORGET, 0, b)
    }

    pub fn getattr<H: Serve>(&mut self, h: &H, nodeid: u64, fh: Option<u64>) -> Result<AttrR, i32> {
        let b = St::new(&k::FUSE_GETATTR_IN).set("getattr_flags", if fh.is_some() { k::FUSE_GETATTR_FH } else { 0 }).set("fh", fh.unwrap_or(0)).bytes();
        let r = self.call(h, k::FUSE_GETATTR, nodeid, b);
        if r.ok() && r.body.len() == k::FUSE_ATTR_OUT.size {
            Ok(parse_attr(&r.body, &k::FUSE_ATTR_OUT, "attr."))
        } else if r.ok() {
            Err(EBADREPLY)
        } else {
            Err(r.errno)
        }
    }

    /// fields: (kernel field name, value) of fuse_setattr_in, `valid` included
    pub fn setattr<H: Serve>(&mut self, h: &H, nodeid: u64, fields: &[(&str, u64)]) -> Result<AttrR, i32> {
        let mut s = St::new(&k::FUSE_SETATTR_IN);
        for (n, v) in fields {
            s = s.set(n, *v);
        }
        let r = self.call(h, k::FUSE_SETATTR, nodeid, s.bytes());
        if r.ok() && r.body.len() == k::FUSE_ATTR_OUT.size {
            Ok(parse_attr(&r.body, &k::FUSE_ATTR_OUT, "attr."))
        } else if r.ok() {
            Err(EBADREPLY)
        } else {
            Err(r.errno)
        }
    }

    fn entry_reply(r: Rep) -> Result<EntryR, i32> {
        if r.ok() && r.body.len() >= k::FUSE_ENTRY_OUT.size {
            Ok(parse_entry(&r.body))
        } else if r.ok() {
            Err(EBADREPLY)
        } else {
            Err(r.errno)
        }
    }

    pub fn mkdir<H: Serve>(&mut self, h: &H, parent: u64, name: &[u8], mode: u32, umask: u32) -> Result<EntryR, i32> {
        let b = wire::cat(&[&St::new(&k::FUSE_MKDIR_IN).set("mode", mode as u64).set("umask", umask as u64).bytes(), &cstr(name)]);
        Self::entry_reply(self.call(h, k::FUSE_MKDIR, parent, b))
    }

    pub fn mknod<H: Serve>(&mut self, h: &H, parent: u64, name: &[u8], mode: u32, rdev: u32, umask: u32) -> Result<EntryR, i32> {
        let b = wire::cat(&[&St::new(&k::FUSE_MKNOD_IN).set("mode", mode as u64).set("rdev", rdev as u64).set("umask", umask as u64).bytes(), &cstr(name)]);
        Self::entry_reply(self.call(h, k::FUSE_MKNOD, parent, b))
    }

    pub fn symlink<H: Serve>(&mut self, h: &H, parent: u64, name: &[u8], target: &[u8]) -> Result<EntryR, i32> {
        Self::entry_reply(self.call(h, k::FUSE_SYMLINK, parent, wire::cat(&[&cstr(name), &cstr(target)])))
    }

    pub fn link<H: Serve>(&mut self, h: &H, nodeid: u64, newparent: u64, name: &[u8]) -> Result<EntryR, i32> {
        let b = wire::cat(&[&St::new(&k::FUSE_LINK_IN).set("oldnodeid", nodeid).bytes(), &cstr(name)]);
        Self::entry_reply(self.call(h, k::FUSE_LINK, newparent, b))
    }

    pub fn unlink<H: Serve>(&mut self, h: &H, parent: u64, name: &[u8]) -> i32 {
        self.call(h, k::FUSE_UNLINK, parent, cstr(name)).errno
    }

    pub fn rmdir<H: Serve>(&mut self, h: &H, parent: u64, name: &[u8]) -> i32 {
        self.call(h, k::FUSE_RMDIR, parent, cstr(name)).errno
    }

    pub fn rename<H: Serve>(&mut self, h: &H, olddir: u64, oldname: &[u8], newdir: u64, newname: &[u8], flags: u32) -> i32 {
        let (op, hd) = if flags == 0 {
            (k::FUSE_RENAME, St::new(&k::FUSE_RENAME_IN).set("newdir", newdir).bytes())
        } else {
            (k::FUSE_RENAME2, St::new(&k::FUSE_RENAME2_IN).set("newdir", newdir).set("flags", flags as u64).bytes())
        };
        self.call(h, op, olddir, wire::cat(&[&hd, &cstr(oldname), &cstr(newname)])).errno
    }

    /// returns (fh, open_flags)
    pub fn open<H: Serve>(&mut self, h: &H, nodeid: u64, flags: u32) -> Result<(u64, u32), i32> {
        let r = self.call(h, k::FUSE_OPEN, nodeid, St::new(&k::FUSE_OPEN_IN).set("flags", flags as u64).bytes());
        if r.ok() && r.body.len() == k::FUSE_OPEN_OUT.size {
            Ok((wire::get(&r.body, &k::FUSE_OPEN_OUT, "fh"), wire::get(&r.body, &k::FUSE_OPEN_OUT, "open_flags") as u32))
        } else if r.ok() {
            Err(EBADREPLY)
        } else {
            Err(r.errno)
        }
    }

    pub fn opendir<H: Serve>(&mut self, h: &H, nodeid: u64, flags: u32) -> Result<(u64, u32), i32> {
        let r = self.call(h, k::FUSE_OPENDIR, nodeid, St::new(&k::FUSE_OPEN_IN).set("flags", flags as u64).bytes());
        if r.ok() && r.body.len() == k::FUSE_OPEN_OUT.size {
            Ok((wire::get(&r.body, &k::FUSE_OPEN_OUT, "fh"), wire::get(&r.body, &k::FUSE_OPEN_OUT, "open_flags") as u32))
        } else if r.ok() {
            Err(EBADREPLY)
        } else {
            Err(r.errno)
        }
    }

    /// returns (entry, fh, open_flags)
    pub fn create<H: Serve>(&mut self, h: &H, parent: u64, name: &[u8], flags: u32, mode: u32, umask: u32) -> Result<(EntryR, u64, u32), i32> {
        let b = wire::cat(&[&St::new(&k::FUSE_CREATE_IN).set("flags", flags as u64).set("mode", mode as u64).set("umask", umask as u64).bytes(), &cstr(name)]);
        let r = self.call(h, k::FUSE_CREATE, parent, b);
        if r.ok() && r.body.len() == k::FUSE_ENTRY_OUT.size + k::FUSE_OPEN_OUT.size {
            let o = &r.body[k::FUSE_ENTRY_OUT.size..];
            Ok((parse_entry(&r.body), wire::get(o, &k::FUSE_OPEN_OUT, "fh"), wire::get(o, &k::FUSE_OPEN_OUT, "open_flags") as u32))
        } else if r.ok() {
            Err(EBADREPLY)
        } else {
            Err(r.errno)
        }
    }

    pub fn read<H: Serve>(&mut self, h: &H, nodeid: u64, fh: u64, offset: u64, size: u32, flags: u32) -> Result<Vec<u8>, i32> {
        let b = St::new(&k::FUSE_READ_IN).set("fh", fh).set("offset", offset).set("size", size as u64).set("flags", flags as u64).bytes();
        let r = self.call(h, k::FUSE_READ, nodeid, b);
        if r.ok() {
            Ok(r.body)
        } else {
            Err(r.errno)
        }
    }

    pub fn write<H: Serve>(&mut self, h: &H, nodeid: u64, fh: u64, offset: u64, data: &[u8], flags: u32, write_flags: u32) -> Result<u32, i32> {
        let hd = St::new(&k::FUSE_WRITE_IN)
            .set("fh", fh)
            .set("offset", offset)
            .set("size", data.len() as u64)
            .set("flags", flags as u64)
            .set("write_flags", write_flags as u64)
            .bytes();
        let r = self.call(h, k::FUSE_WRITE, nodeid, wire::cat(&[&hd, data]));
        if r.ok() && r.body.len() == k::FUSE_WRITE_OUT.size {
            Ok(wire::get(&r.body, &k::FUSE_WRITE_OUT, "size") as u32)
        } else if r.ok() {
            Err(EBADREPLY)
        } else {
            Err(r.errno)
        }
    }

    pub fn release<H: Serve>(&mut self, h: &H, nodeid: u64, fh: u64, flags: u32, dir: bool) -> i32 {
        let b = St::new(&k::FUSE_RELEASE_IN).set("fh", fh).set("flags", flags as u64).bytes();
        self.call(h, if dir { k::FUSE_RELEASEDIR } else { k::FUSE_RELEASE }, nodeid, b).errno
    }

    pub fn readdir<H: Serve>(&mut self, h: &H, nodeid: u64, fh: u64, offset: u64, size: u32, plus: bool) -> Result<Vec<Dirent>, i32> {
        let b = St::new(&k::FUSE_READ_IN).set("fh", fh).set("offset", offset).set("size", size as u64).bytes();
        let r = self.call(h, if plus { k::FUSE_READDIRPLUS } else { k::FUSE_READDIR }, nodeid, b);
        if !r.ok() {
            return Err(r.errno);
        }
        if r.body.len() > size as usize {
            return Err(EBADREPLY);
        }
        wire::parse_dirents(&r.body, plus).map_err(|_| EBADREPLY)
    }

    pub fn readlink<H: Serve>(&mut self, h: &H, nodeid: u64) -> Result<Vec<u8>, i32> {
        let r = self.call(h, k::FUSE_READLINK, nodeid, vec![]);
        if r.ok() {
            Ok(r.body)
        } else {
            Err(r.errno)
        }
    }

    pub fn statfs<H: Serve>(&mut self, h: &H, nodeid: u64) -> Rep {
        self.call(h, k::FUSE_STATFS, nodeid, vec![])
    }

    pub fn fsync<H: Serve>(&mut self, h: &H, nodeid: u64, fh: u64, datasync: bool, dir: bool) -> i32 {
        let b = St::new(&k::FUSE_FSYNC_IN).set("fh", fh).set("fsync_flags", datasync as u64).bytes();
        self.call(h, if dir { k::FUSE_FSYNCDIR } else { k::FUSE_FSYNC }, nodeid, b).errno
    }

    pub fn flush<H: Serve>(&mut self, h: &H, nodeid: u64, fh: u64) -> i32 {
        self.call(h, k::FUSE_FLUSH, nodeid, St::new(&k::FUSE_FLUSH_IN).set("fh", fh).bytes()).errno
    }

    pub fn fallocate<H: Serve>(&mut self, h: &H, nodeid: u64, fh: u64, mode: u32, offset: u64, length: u64) -> i32 {
        let b = St::new(&k::FUSE_FALLOCATE_IN).set("fh", fh).set("offset", offset).set("length", length).set("mode", mode as u64).bytes();
        self.call(h, k::FUSE_FALLOCATE, nodeid, b).errno
    }

    pub fn lseek<H: Serve>(&mut self, h: &H, nodeid: u64, fh: u64, offset: u64, whence: u32) -> Result<u64, i32> {
        let b = St::new(&k::FUSE_LSEEK_IN).set("fh", fh).set("offset", offset).set("whence", whence as u64).bytes();
        let r = self.call(h, k::FUSE_LSEEK, nodeid, b);
        if r.ok() && r.body.len() == k::FUSE_LSEEK_OUT.size {
            Ok(wire::get(&r.body, &k::FUSE_LSEEK_OUT, "offset"))
        } else if r.ok() {
            Err(EBADREPLY)
        } else {
            Err(r.errno)
        }
    }

    pub fn setxattr<H: Serve>(&mut self, h: &H, nodeid: u64, name: &[u8], value: &[u8], flags: u32) -> i32 {
        let mut hd = vec![0u8; 8];
        wire::put_at(&mut hd, 0, 4, value.len() as u64);
        wire::put_at(&mut hd, 4, 4, flags as u64);
        self.call(h, k::FUSE_SETXATTR, nodeid, wire::cat(&[&hd, &cstr(name), value])).errno
    }

    /// size 0: returns Err(..) or Ok(size as le bytes); else the value
    pub fn getxattr<H: Serve>(&mut self, h: &H, nodeid: u64, name: &[u8], size: u32) -> Result<Vec<u8>, i32> {
        let b = wire::cat(&[&St::new(&k::FUSE_GETXATTR_IN).set("size", size as u64).bytes(), &cstr(name)]);
        let r = self.call(h, k::FUSE_GETXATTR, nodeid, b);
        if r.ok() {
            Ok(r.body)
        } else {
            Err(r.errno)
        }
    }

    pub fn listxattr<H: Serve>(&mut self, h: &H, nodeid: u64, size: u32) -> Result<Vec<u8>, i32> {
        let r = self.call(h, k::FUSE_LISTXATTR, nodeid, St::new(&k::FUSE_GETXATTR_IN).set("size", size as u64).bytes());
        if r.ok() {
            Ok(r.body)
        } else {
            Err(r.errno)
        }
    }

    pub fn removexattr<H: Serve>(&mut self, h: &H, nodeid: u64, name: &[u8]) -> i32 {
        self.call(h, k::FUSE_REMOVEXATTR, nodeid, cstr(name)).errno
    }

    pub fn access<H: Serve>(&mut self, h: &H, nodeid: u64, mask: u32) -> i32 {
        self.call(h, k::FUSE_ACCESS, nodeid, St::new(&k::FUSE_ACCESS_IN).set("mask", mask as u64).bytes()).errno
    }

    pub fn destroy<H: Serve>(&mut self, h: &H) -> i32 {
        self.call(h, k::FUSE_DESTROY, 0, vec![]).errno
    }
}
