//! Control variables of the libc interposers (defined in the binary, see src/interpose.rs):
//! descriptor allocations made while a server call is armed are counted; the FAIL_AT-th fails
//! with EMFILE.
use std::sync::atomic::{AtomicBool, AtomicU64, Ordering};

pub static ARMED: AtomicBool = AtomicBool::new(false);
pub static COUNT: AtomicU64 = AtomicU64::new(0);
pub static FAIL_AT: AtomicU64 = AtomicU64::new(0);
pub static INJECTED: AtomicU64 = AtomicU64::new(0);
/// set by the binary once its interposers are linked in
pub static INTERPOSED: AtomicBool = AtomicBool::new(false);

pub fn arm(fail_at: u64) {
    COUNT.store(0, Ordering::SeqCst);
    FAIL_AT.store(fail_at, Ordering::SeqCst);
    ARMED.store(true, Ordering::SeqCst);
}

/// returns the number of descriptor allocations seen while armed
pub fn disarm() -> u64 {
    ARMED.store(false, Ordering::SeqCst);
    COUNT.load(Ordering::SeqCst)
}

/// true if the allocation about to happen must fail
pub fn gate() -> bool {
    if !ARMED.load(Ordering::Relaxed) {
        return false;
    }
    let n = COUNT.fetch_add(1, Ordering::SeqCst) + 1;
    if n == FAIL_AT.load(Ordering::SeqCst) {
        INJECTED.fetch_add(1, Ordering::SeqCst);
        true
    } else {
        false
    }
}
