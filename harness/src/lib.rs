//! fbrv: model-checking harness for fuse-backend-rs (see /verif/DESIGN.md).
pub mod args;
pub mod client;
pub mod env;
pub mod fault;
pub mod kabi;
pub mod ops;
#[cfg(not(feature = "asyncio"))]
pub mod ptworld;
pub mod report;
pub mod scriptfs;
#[cfg(not(feature = "asyncio"))]
pub mod sched;
pub mod wire;
pub mod engines;
