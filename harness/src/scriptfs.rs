//! An in-memory FileSystem that logs every call with all arguments and answers from a script.

use std::ffi::CStr;
use std::io;
use std::sync::Mutex;
use std::time::Duration;

use fuse_backend_rs::abi::fuse_abi::{stat64, statvfs64, CreateIn, FsOptions, OpenOptions, SetattrValid};
use fuse_backend_rs::abi::virtio_fs::RemovemappingOne;
use fuse_backend_rs::api::filesystem::{
    Context, DirEntry, Entry, FileLock, FileSystem, GetxattrReply, IoctlData, ListxattrReply, ZeroCopyReader,
    ZeroCopyWriter,
};
use fuse_backend_rs::transport::FsCacheReqHandler;

#[derive(Clone, Debug, PartialEq, Eq)]
pub enum Fail {
    Errno(i32),
    Kind(io::ErrorKind),
}

#[derive(Clone, Debug)]
pub struct DirAns {
    pub ino: u64,
    pub off: u64,
    pub typ: u32,
    pub name: Vec<u8>,
    pub entry: Entry,
}

#[derive(Clone)]
pub struct Answer {
    pub fail: Option<Fail>,
    pub entry: Entry,
    pub handle: Option<u64>,
    pub opts: u32,
    pub passthrough: Option<u32>,
    pub attr: stat64,
    pub timeout: Duration,
    pub data: Vec<u8>,
    pub count: usize,
    pub xattr_count: Option<u32>,
    pub lock: (u64, u64, u32, u32),
    pub statvfs: statvfs64,
    pub u64val: u64,
    pub u32val: u32,
    pub ioctl_result: i32,
    pub dirents: Vec<DirAns>,
    pub want: u64,
    /// readdir: what to do when add_entry reports an error: stop and propagate (true) or ignore
    pub dir_propagate_err: bool,
    /// readdir: fail with this errno after that many entries were accepted (a fault in the middle of the walk)
    pub dir_fail_after: Option<(usize, i32)>,
    /// how much of a WRITE payload to drain
    pub drain: bool,
    /// READ: serve the data through ZeroCopyWriter::write_from out of this memfd (fd number)
    pub read_from_fd: Option<i32>,
}

pub fn zero_stat() -> stat64 {
    unsafe { std::mem::zeroed() }
}
pub fn zero_statvfs() -> statvfs64 {
    unsafe { std::mem::zeroed() }
}

impl Default for Answer {
    fn default() -> Self {
        Answer {
            fail: None,
            entry: Entry::default(),
            handle: None,
            opts: 0,
            passthrough: None,
            attr: zero_stat(),
            timeout: Duration::default(),
            data: Vec::new(),
            count: 0,
            xattr_count: None,
            lock: (0, 0, 0, 0),
            statvfs: zero_statvfs(),
            u64val: 0,
            u32val: 0,
            ioctl_result: 0,
            dirents: Vec::new(),
            want: 0,
            dir_propagate_err: true,
            dir_fail_after: None,
            drain: true,
            read_from_fd: None,
        }
    }
}

#[derive(Default)]
pub struct State {
    pub log: Vec<String>,
    pub ans: Answer,
    /// readdir bookkeeping for the oracle: (entry index, add_entry result)
    pub dir_results: Vec<(usize, Result<usize, i32>)>,
    pub ioctl_buf: Vec<u8>,
}

#[derive(Default)]
pub struct ScriptFs {
    pub st: Mutex<State>,
    /// when set, id_remap translates every caller (uid + 100000, gid + 200000) like an id-mapping filesystem does
    pub remap: std::sync::atomic::AtomicBool,
}

fn ctxs(c: &Context) -> String {
    format!("ctx=({},{},{})", c.uid, c.gid, c.pid)
}

pub fn esc(b: &[u8]) -> String {
    // compact, unambiguous rendering of a byte string
    if b.len() <= 48 {
        format!("{:?}", String::from_utf8_lossy(b))
    } else {
        let mut h = 0xcbf29ce484222325u64;
        for x in b {
            h ^= *x as u64;
            h = h.wrapping_mul(0x100000001b3);
        }
        format!("[{} bytes fnv={:016x} head={:?}]", b.len(), h, String::from_utf8_lossy(&b[..16]))
    }
}

impl ScriptFs {
    pub fn new() -> Self {
        Self::default()
    }
    pub fn reset(&self, ans: Answer) {
        let mut s = self.st.lock().unwrap();
        s.log.clear();
        s.dir_results.clear();
        s.ans = ans;
    }
    pub fn take_log(&self) -> Vec<String> {
        std::mem::take(&mut self.st.lock().unwrap().log)
    }
    pub fn dir_results(&self) -> Vec<(usize, Result<usize, i32>)> {
        self.st.lock().unwrap().dir_results.clone()
    }
    fn log(&self, s: String) -> Answer {
        let mut st = self.st.lock().unwrap();
        st.log.push(s);
        let mut a = st.ans.clone();
        // a server that keeps asking (e.g. retries after EINTR) must not hang the exploration: after 64 calls for one
        // request the answer becomes a plain EIO, and the 64 logged calls are what the oracle sees
        if st.log.len() >= 64 {
            a.fail = Some(Fail::Errno(libc::EIO));
        }
        a
    }
    fn failed(a: &Answer) -> Option<io::Error> {
        match &a.fail {
            None => None,
            Some(Fail::Errno(e)) => Some(io::Error::from_raw_os_error(*e)),
            Some(Fail::Kind(k)) => Some(io::Error::new(*k, "scripted")),
        }
    }
    fn unit(a: Answer) -> io::Result<()> {
        match Self::failed(&a) {
            Some(e) => Err(e),
            None => Ok(()),
        }
    }
    fn entry(a: Answer) -> io::Result<Entry> {
        match Self::failed(&a) {
            Some(e) => Err(e),
            None => Ok(a.entry),
        }
    }
}

fn lk(l: &FileLock) -> String {
    format!("lock=({},{},{},{})", l.start, l.end, l.lock_type, l.pid)
}

pub fn stat_str(st: &stat64) -> String {
    format!(
        "st(mode={},uid={},gid={},size={},atime={}.{},mtime={}.{},ctime={}.{})",
        st.st_mode, st.st_uid, st.st_gid, st.st_size, st.st_atime, st.st_atime_nsec, st.st_mtime, st.st_mtime_nsec,
        st.st_ctime, st.st_ctime_nsec
    )
}

impl FileSystem for ScriptFs {
    type Inode = u64;
    type Handle = u64;

    fn init(&self, capable: FsOptions) -> io::Result<FsOptions> {
        let a = self.log(format!("init capable={:#x}", capable.bits()));
        match Self::failed(&a) {
            Some(e) => Err(e),
            None => Ok(unsafe { FsOptions::from_bits_unchecked(a.want) }),
        }
    }
    fn destroy(&self) {
        self.log("destroy".to_string());
    }
    fn lookup(&self, ctx: &Context, parent: u64, name: &CStr) -> io::Result<Entry> {
        Self::entry(self.log(format!("lookup {} parent={} name={}", ctxs(ctx), parent, esc(name.to_bytes()))))
    }
    fn forget(&self, ctx: &Context, inode: u64, count: u64) {
        self.log(format!("forget {} inode={} count={}", ctxs(ctx), inode, count));
    }
    fn batch_forget(&self, ctx: &Context, requests: Vec<(u64, u64)>) {
        self.log(format!("batch_forget {} {:?}", ctxs(ctx), requests));
    }
    fn getattr(&self, ctx: &Context, inode: u64, handle: Option<u64>) -> io::Result<(stat64, Duration)> {
        let a = self.log(format!("getattr {} inode={} handle={:?}", ctxs(ctx), inode, handle));
        match Self::failed(&a) {
            Some(e) => Err(e),
            None => Ok((a.attr, a.timeout)),
        }
    }
    fn setattr(
        &self,
        ctx: &Context,
        inode: u64,
        attr: stat64,
        handle: Option<u64>,
        valid: SetattrValid,
    ) -> io::Result<(stat64, Duration)> {
        let a = self.log(format!(
            "setattr {} inode={} {} handle={:?} valid={:#x}",
            ctxs(ctx),
            inode,
            stat_str(&attr),
            handle,
            valid.bits()
        ));
        match Self::failed(&a) {
            Some(e) => Err(e),
            None => Ok((a.attr, a.timeout)),
        }
    }
    fn readlink(&self, ctx: &Context, inode: u64) -> io::Result<Vec<u8>> {
        let a = self.log(format!("readlink {} inode={}", ctxs(ctx), inode));
        match Self::failed(&a) {
            Some(e) => Err(e),
            None => Ok(a.data),
        }
    }
    fn symlink(&self, ctx: &Context, linkname: &CStr, parent: u64, name: &CStr) -> io::Result<Entry> {
        Self::entry(self.log(format!(
            "symlink {} linkname={} parent={} name={}",
            ctxs(ctx),
            esc(linkname.to_bytes()),
            parent,
            esc(name.to_bytes())
        )))
    }
    fn mknod(&self, ctx: &Context, inode: u64, name: &CStr, mode: u32, rdev: u32, umask: u32) -> io::Result<Entry> {
        Self::entry(self.log(format!(
            "mknod {} parent={} name={} mode={} rdev={} umask={}",
            ctxs(ctx),
            inode,
            esc(name.to_bytes()),
            mode,
            rdev,
            umask
        )))
    }
    fn mkdir(&self, ctx: &Context, parent: u64, name: &CStr, mode: u32, umask: u32) -> io::Result<Entry> {
        Self::entry(self.log(format!(
            "mkdir {} parent={} name={} mode={} umask={}",
            ctxs(ctx),
            parent,
            esc(name.to_bytes()),
            mode,
            umask
        )))
    }
    fn unlink(&self, ctx: &Context, parent: u64, name: &CStr) -> io::Result<()> {
        Self::unit(self.log(format!("unlink {} parent={} name={}", ctxs(ctx), parent, esc(name.to_bytes()))))
    }
    fn rmdir(&self, ctx: &Context, parent: u64, name: &CStr) -> io::Result<()> {
        Self::unit(self.log(format!("rmdir {} parent={} name={}", ctxs(ctx), parent, esc(name.to_bytes()))))
    }
    fn rename(&self, ctx: &Context, olddir: u64, oldname: &CStr, newdir: u64, newname: &CStr, flags: u32) -> io::Result<()> {
        Self::unit(self.log(format!(
            "rename {} olddir={} oldname={} newdir={} newname={} flags={}",
            ctxs(ctx),
            olddir,
            esc(oldname.to_bytes()),
            newdir,
            esc(newname.to_bytes()),
            flags
        )))
    }
    fn link(&self, ctx: &Context, inode: u64, newparent: u64, newname: &CStr) -> io::Result<Entry> {
        Self::entry(self.log(format!(
            "link {} inode={} newparent={} newname={}",
            ctxs(ctx),
            inode,
            newparent,
            esc(newname.to_bytes())
        )))
    }
    fn open(&self, ctx: &Context, inode: u64, flags: u32, fuse_flags: u32) -> io::Result<(Option<u64>, OpenOptions, Option<u32>)> {
        let a = self.log(format!("open {} inode={} flags={} fuse_flags={}", ctxs(ctx), inode, flags, fuse_flags));
        match Self::failed(&a) {
            Some(e) => Err(e),
            None => Ok((a.handle, unsafe { OpenOptions::from_bits_unchecked(a.opts) }, a.passthrough)),
        }
    }
    fn create(
        &self,
        ctx: &Context,
        parent: u64,
        name: &CStr,
        args: CreateIn,
    ) -> io::Result<(Entry, Option<u64>, OpenOptions, Option<u32>)> {
        let a = self.log(format!(
            "create {} parent={} name={} flags={} mode={} umask={} fuse_flags={}",
            ctxs(ctx),
            parent,
            esc(name.to_bytes()),
            args.flags,
            args.mode,
            args.umask,
            args.fuse_flags
        ));
        match Self::failed(&a) {
            Some(e) => Err(e),
            None => Ok((a.entry, a.handle, unsafe { OpenOptions::from_bits_unchecked(a.opts) }, a.passthrough)),
        }
    }
    fn read(
        &self,
        ctx: &Context,
        inode: u64,
        handle: u64,
        w: &mut dyn ZeroCopyWriter,
        size: u32,
        offset: u64,
        lock_owner: Option<u64>,
        flags: u32,
    ) -> io::Result<usize> {
        let a = self.log(format!(
            "read {} inode={} handle={} size={} offset={} lock_owner={:?} flags={}",
            ctxs(ctx),
            inode,
            handle,
            size,
            offset,
            lock_owner,
            flags
        ));
        match Self::failed(&a) {
            Some(e) => Err(e),
            None => {
                let n = a.data.len().min(size as usize);
                if let Some(fd) = a.read_from_fd {
                    use std::os::unix::io::FromRawFd;
                    let mut f = std::mem::ManuallyDrop::new(unsafe { std::fs::File::from_raw_fd(fd) });
                    return w.write_from(&mut *f, size as usize, offset);
                }
                w.write_all(&a.data[..n])?;
                Ok(n)
            }
        }
    }
    fn write(
        &self,
        ctx: &Context,
        inode: u64,
        handle: u64,
        r: &mut dyn ZeroCopyReader,
        size: u32,
        offset: u64,
        lock_owner: Option<u64>,
        delayed_write: bool,
        flags: u32,
        fuse_flags: u32,
    ) -> io::Result<usize> {
        let mut payload = Vec::new();
        let drain = self.st.lock().unwrap().ans.drain;
        if drain {
            let _ = r.read_to_end(&mut payload);
        }
        let a = self.log(format!(
            "write {} inode={} handle={} size={} offset={} lock_owner={:?} delayed={} flags={} fuse_flags={} payload={}",
            ctxs(ctx),
            inode,
            handle,
            size,
            offset,
            lock_owner,
            delayed_write,
            flags,
            fuse_flags,
            esc(&payload)
        ));
        match Self::failed(&a) {
            Some(e) => Err(e),
            None => Ok(a.count),
        }
    }
    fn flush(&self, ctx: &Context, inode: u64, handle: u64, lock_owner: u64) -> io::Result<()> {
        Self::unit(self.log(format!("flush {} inode={} handle={} lock_owner={}", ctxs(ctx), inode, handle, lock_owner)))
    }
    fn fsync(&self, ctx: &Context, inode: u64, datasync: bool, handle: u64) -> io::Result<()> {
        Self::unit(self.log(format!("fsync {} inode={} datasync={} handle={}", ctxs(ctx), inode, datasync, handle)))
    }
    fn fallocate(&self, ctx: &Context, inode: u64, handle: u64, mode: u32, offset: u64, length: u64) -> io::Result<()> {
        Self::unit(self.log(format!(
            "fallocate {} inode={} handle={} mode={} offset={} length={}",
            ctxs(ctx),
            inode,
            handle,
            mode,
            offset,
            length
        )))
    }
    fn release(
        &self,
        ctx: &Context,
        inode: u64,
        flags: u32,
        handle: u64,
        flush: bool,
        flock_release: bool,
        lock_owner: Option<u64>,
    ) -> io::Result<()> {
        Self::unit(self.log(format!(
            "release {} inode={} flags={} handle={} flush={} flock_release={} lock_owner={:?}",
            ctxs(ctx),
            inode,
            flags,
            handle,
            flush,
            flock_release,
            lock_owner
        )))
    }
    fn statfs(&self, ctx: &Context, inode: u64) -> io::Result<statvfs64> {
        let a = self.log(format!("statfs {} inode={}", ctxs(ctx), inode));
        match Self::failed(&a) {
            Some(e) => Err(e),
            None => Ok(a.statvfs),
        }
    }
    fn setxattr(&self, ctx: &Context, inode: u64, name: &CStr, value: &[u8], flags: u32) -> io::Result<()> {
        Self::unit(self.log(format!(
            "setxattr {} inode={} name={} value={} flags={}",
            ctxs(ctx),
            inode,
            esc(name.to_bytes()),
            esc(value),
            flags
        )))
    }
    fn getxattr(&self, ctx: &Context, inode: u64, name: &CStr, size: u32) -> io::Result<GetxattrReply> {
        let a = self.log(format!("getxattr {} inode={} name={} size={}", ctxs(ctx), inode, esc(name.to_bytes()), size));
        match Self::failed(&a) {
            Some(e) => Err(e),
            None => Ok(match a.xattr_count {
                Some(c) => GetxattrReply::Count(c),
                None => GetxattrReply::Value(a.data),
            }),
        }
    }
    fn listxattr(&self, ctx: &Context, inode: u64, size: u32) -> io::Result<ListxattrReply> {
        let a = self.log(format!("listxattr {} inode={} size={}", ctxs(ctx), inode, size));
        match Self::failed(&a) {
            Some(e) => Err(e),
            None => Ok(match a.xattr_count {
                Some(c) => ListxattrReply::Count(c),
                None => ListxattrReply::Names(a.data),
            }),
        }
    }
    fn removexattr(&self, ctx: &Context, inode: u64, name: &CStr) -> io::Result<()> {
        Self::unit(self.log(format!("removexattr {} inode={} name={}", ctxs(ctx), inode, esc(name.to_bytes()))))
    }
    fn opendir(&self, ctx: &Context, inode: u64, flags: u32) -> io::Result<(Option<u64>, OpenOptions)> {
        let a = self.log(format!("opendir {} inode={} flags={}", ctxs(ctx), inode, flags));
        match Self::failed(&a) {
            Some(e) => Err(e),
            None => Ok((a.handle, unsafe { OpenOptions::from_bits_unchecked(a.opts) })),
        }
    }
    fn readdir(
        &self,
        ctx: &Context,
        inode: u64,
        handle: u64,
        size: u32,
        offset: u64,
        add_entry: &mut dyn FnMut(DirEntry) -> io::Result<usize>,
    ) -> io::Result<()> {
        let a = self.log(format!("readdir {} inode={} handle={} size={} offset={}", ctxs(ctx), inode, handle, size, offset));
        if let Some(e) = Self::failed(&a) {
            return Err(e);
        }
        for (i, d) in a.dirents.iter().enumerate() {
            if let Some((n, e)) = a.dir_fail_after {
                if i == n {
                    return Err(io::Error::from_raw_os_error(e));
                }
            }
            let r = add_entry(DirEntry { ino: d.ino, offset: d.off, type_: d.typ, name: &d.name });
            let rec = match &r {
                Ok(n) => Ok(*n),
                Err(e) => Err(e.raw_os_error().unwrap_or(-1)),
            };
            self.st.lock().unwrap().dir_results.push((i, rec));
            match r {
                Ok(0) => break,
                Ok(_) => {}
                Err(e) => {
                    if a.dir_propagate_err {
                        return Err(e);
                    } else {
                        break;
                    }
                }
            }
        }
        Ok(())
    }
    fn readdirplus(
        &self,
        ctx: &Context,
        inode: u64,
        handle: u64,
        size: u32,
        offset: u64,
        add_entry: &mut dyn FnMut(DirEntry, Entry) -> io::Result<usize>,
    ) -> io::Result<()> {
        let a =
            self.log(format!("readdirplus {} inode={} handle={} size={} offset={}", ctxs(ctx), inode, handle, size, offset));
        if let Some(e) = Self::failed(&a) {
            return Err(e);
        }
        for (i, d) in a.dirents.iter().enumerate() {
            if let Some((n, e)) = a.dir_fail_after {
                if i == n {
                    return Err(io::Error::from_raw_os_error(e));
                }
            }
            let r = add_entry(DirEntry { ino: d.ino, offset: d.off, type_: d.typ, name: &d.name }, d.entry);
            let rec = match &r {
                Ok(n) => Ok(*n),
                Err(e) => Err(e.raw_os_error().unwrap_or(-1)),
            };
            self.st.lock().unwrap().dir_results.push((i, rec));
            match r {
                Ok(0) => break,
                Ok(_) => {}
                Err(e) => {
                    if a.dir_propagate_err {
                        return Err(e);
                    } else {
                        break;
                    }
                }
            }
        }
        Ok(())
    }
    fn fsyncdir(&self, ctx: &Context, inode: u64, datasync: bool, handle: u64) -> io::Result<()> {
        Self::unit(self.log(format!("fsyncdir {} inode={} datasync={} handle={}", ctxs(ctx), inode, datasync, handle)))
    }
    fn releasedir(&self, ctx: &Context, inode: u64, flags: u32, handle: u64) -> io::Result<()> {
        Self::unit(self.log(format!("releasedir {} inode={} flags={} handle={}", ctxs(ctx), inode, flags, handle)))
    }
    fn setupmapping(
        &self,
        ctx: &Context,
        inode: u64,
        handle: u64,
        foffset: u64,
        len: u64,
        flags: u64,
        moffset: u64,
        _vu_req: &mut dyn FsCacheReqHandler,
    ) -> io::Result<()> {
        Self::unit(self.log(format!(
            "setupmapping {} inode={} handle={} foffset={} len={} flags={} moffset={}",
            ctxs(ctx),
            inode,
            handle,
            foffset,
            len,
            flags,
            moffset
        )))
    }
    fn removemapping(
        &self,
        ctx: &Context,
        inode: u64,
        requests: Vec<RemovemappingOne>,
        _vu_req: &mut dyn FsCacheReqHandler,
    ) -> io::Result<()> {
        let v: Vec<(u64, u64)> = requests.iter().map(|r| (r.moffset, r.len)).collect();
        Self::unit(self.log(format!("removemapping {} inode={} {:?}", ctxs(ctx), inode, v)))
    }
    fn access(&self, ctx: &Context, inode: u64, mask: u32) -> io::Result<()> {
        Self::unit(self.log(format!("access {} inode={} mask={}", ctxs(ctx), inode, mask)))
    }
    fn lseek(&self, ctx: &Context, inode: u64, handle: u64, offset: u64, whence: u32) -> io::Result<u64> {
        let a = self.log(format!("lseek {} inode={} handle={} offset={} whence={}", ctxs(ctx), inode, handle, offset, whence));
        match Self::failed(&a) {
            Some(e) => Err(e),
            None => Ok(a.u64val),
        }
    }
    fn getlk(&self, ctx: &Context, inode: u64, handle: u64, owner: u64, lock: FileLock, flags: u32) -> io::Result<FileLock> {
        let a = self.log(format!(
            "getlk {} inode={} handle={} owner={} {} flags={}",
            ctxs(ctx),
            inode,
            handle,
            owner,
            lk(&lock),
            flags
        ));
        match Self::failed(&a) {
            Some(e) => Err(e),
            None => Ok(FileLock { start: a.lock.0, end: a.lock.1, lock_type: a.lock.2, pid: a.lock.3 }),
        }
    }
    fn setlk(&self, ctx: &Context, inode: u64, handle: u64, owner: u64, lock: FileLock, flags: u32) -> io::Result<()> {
        Self::unit(self.log(format!(
            "setlk {} inode={} handle={} owner={} {} flags={}",
            ctxs(ctx),
            inode,
            handle,
            owner,
            lk(&lock),
            flags
        )))
    }
    fn setlkw(&self, ctx: &Context, inode: u64, handle: u64, owner: u64, lock: FileLock, flags: u32) -> io::Result<()> {
        Self::unit(self.log(format!(
            "setlkw {} inode={} handle={} owner={} {} flags={}",
            ctxs(ctx),
            inode,
            handle,
            owner,
            lk(&lock),
            flags
        )))
    }
    fn ioctl(
        &self,
        ctx: &Context,
        inode: u64,
        handle: u64,
        flags: u32,
        cmd: u32,
        data: IoctlData,
        out_size: u32,
    ) -> io::Result<IoctlData<'_>> {
        let a = self.log(format!(
            "ioctl {} inode={} handle={} flags={} cmd={} data={} out_size={}",
            ctxs(ctx),
            inode,
            handle,
            flags,
            cmd,
            match data.data {
                Some(d) => format!("Some({})", esc(d)),
                None => "None".to_string(),
            },
            out_size
        ));
        match Self::failed(&a) {
            Some(e) => Err(e),
            None => {
                // the reply borrows from self: leak a copy (a few bytes per case; bounded by the run)
                let leaked: &'static [u8] = Box::leak(a.data.clone().into_boxed_slice());
                Ok(IoctlData { result: a.ioctl_result, data: if leaked.is_empty() { None } else { Some(leaked) } })
            }
        }
    }
    fn bmap(&self, ctx: &Context, inode: u64, block: u64, blocksize: u32) -> io::Result<u64> {
        let a = self.log(format!("bmap {} inode={} block={} blocksize={}", ctxs(ctx), inode, block, blocksize));
        match Self::failed(&a) {
            Some(e) => Err(e),
            None => Ok(a.u64val),
        }
    }
    fn poll(&self, ctx: &Context, inode: u64, handle: u64, khandle: u64, flags: u32, events: u32) -> io::Result<u32> {
        let a = self.log(format!(
            "poll {} inode={} handle={} khandle={} flags={} events={}",
            ctxs(ctx),
            inode,
            handle,
            khandle,
            flags,
            events
        ));
        match Self::failed(&a) {
            Some(e) => Err(e),
            None => Ok(a.u32val),
        }
    }
    fn notify_reply(&self) -> io::Result<()> {
        Self::unit(self.log("notify_reply".to_string()))
    }
    // id_remap: a no-op, as for any plain filesystem, unless the engine switches the translation on
    fn id_remap(&self, ctx: &mut Context) -> io::Result<()> {
        if self.remap.load(std::sync::atomic::Ordering::Relaxed) {
            ctx.uid = ctx.uid.wrapping_add(100_000);
            ctx.gid = ctx.gid.wrapping_add(200_000);
        }
        Ok(())
    }
}

// ------------------------------------------------------------------------------------------------
// The same scripted filesystem through the asynchronous trait: same log lines, same answers.

#[cfg(feature = "asyncio")]
mod asyncfs {
    use super::*;
    use async_trait::async_trait;
    use fuse_backend_rs::api::filesystem::{AsyncFileSystem, AsyncZeroCopyReader, AsyncZeroCopyWriter};

    #[async_trait]
    impl AsyncFileSystem for ScriptFs {
        async fn async_lookup(&self, ctx: &Context, parent: u64, name: &CStr) -> io::Result<Entry> {
            FileSystem::lookup(self, ctx, parent, name)
        }
        async fn async_getattr(&self, ctx: &Context, inode: u64, handle: Option<u64>) -> io::Result<(stat64, Duration)> {
            FileSystem::getattr(self, ctx, inode, handle)
        }
        async fn async_setattr(&self, ctx: &Context, inode: u64, attr: stat64, handle: Option<u64>, valid: SetattrValid) -> io::Result<(stat64, Duration)> {
            FileSystem::setattr(self, ctx, inode, attr, handle, valid)
        }
        async fn async_open(&self, ctx: &Context, inode: u64, flags: u32, fuse_flags: u32) -> io::Result<(Option<u64>, OpenOptions)> {
            FileSystem::open(self, ctx, inode, flags, fuse_flags).map(|(h, o, _)| (h, o))
        }
        async fn async_create(&self, ctx: &Context, parent: u64, name: &CStr, args: CreateIn) -> io::Result<(Entry, Option<u64>, OpenOptions)> {
            FileSystem::create(self, ctx, parent, name, args).map(|(e, h, o, _)| (e, h, o))
        }
        async fn async_read(
            &self,
            ctx: &Context,
            inode: u64,
            handle: u64,
            w: &mut (dyn AsyncZeroCopyWriter + Send),
            size: u32,
            offset: u64,
            lock_owner: Option<u64>,
            flags: u32,
        ) -> io::Result<usize> {
            struct Adapter<'a>(&'a mut (dyn AsyncZeroCopyWriter + Send));
            impl io::Write for Adapter<'_> {
                fn write(&mut self, b: &[u8]) -> io::Result<usize> {
                    self.0.write(b)
                }
                fn flush(&mut self) -> io::Result<()> {
                    Ok(())
                }
            }
            impl ZeroCopyWriter for Adapter<'_> {
                fn write_from(&mut self, f: &mut dyn fuse_backend_rs::file_traits::FileReadWriteVolatile, count: usize, off: u64) -> io::Result<usize> {
                    self.0.write_from(f, count, off)
                }
                fn available_bytes(&self) -> usize {
                    self.0.available_bytes()
                }
            }
            FileSystem::read(self, ctx, inode, handle, &mut Adapter(w), size, offset, lock_owner, flags)
        }
        async fn async_write(
            &self,
            ctx: &Context,
            inode: u64,
            handle: u64,
            r: &mut (dyn AsyncZeroCopyReader + Send),
            size: u32,
            offset: u64,
            lock_owner: Option<u64>,
            delayed_write: bool,
            flags: u32,
            fuse_flags: u32,
        ) -> io::Result<usize> {
            struct Adapter<'a>(&'a mut (dyn AsyncZeroCopyReader + Send));
            impl io::Read for Adapter<'_> {
                fn read(&mut self, b: &mut [u8]) -> io::Result<usize> {
                    self.0.read(b)
                }
            }
            impl ZeroCopyReader for Adapter<'_> {
                fn read_to(&mut self, f: &mut dyn fuse_backend_rs::file_traits::FileReadWriteVolatile, count: usize, off: u64) -> io::Result<usize> {
                    self.0.read_to(f, count, off)
                }
            }
            FileSystem::write(self, ctx, inode, handle, &mut Adapter(r), size, offset, lock_owner, delayed_write, flags, fuse_flags)
        }
        async fn async_fsync(&self, ctx: &Context, inode: u64, datasync: bool, handle: u64) -> io::Result<()> {
            FileSystem::fsync(self, ctx, inode, datasync, handle)
        }
        async fn async_fallocate(&self, ctx: &Context, inode: u64, handle: u64, mode: u32, offset: u64, length: u64) -> io::Result<()> {
            FileSystem::fallocate(self, ctx, inode, handle, mode, offset, length)
        }
        async fn async_fsyncdir(&self, ctx: &Context, inode: u64, datasync: bool, handle: u64) -> io::Result<()> {
            FileSystem::fsyncdir(self, ctx, inode, datasync, handle)
        }
    }
}


// ------------------------------------------------------------------------------------------------
// The scripted filesystem as a Vfs backend (C20: the Vfs's own asynchronous implementation)

impl fuse_backend_rs::api::BackendFileSystem for ScriptFs {
    fn mount(&self) -> io::Result<(Entry, u64)> {
        let mut st = zero_stat();
        st.st_ino = 1;
        st.st_mode = libc::S_IFDIR | 0o755;
        st.st_nlink = 2;
        st.st_uid = 3;
        st.st_gid = 4;
        Ok((Entry { inode: 1, generation: 0, attr: st, attr_flags: 0, attr_timeout: Duration::from_secs(1), entry_timeout: Duration::from_secs(1) }, 1 << 40))
    }
    fn as_any(&self) -> &dyn std::any::Any {
        self
    }
}
