//! Per-shard result collection. A shard writes one JSON file; the `check` driver merges them.

use serde_json::{json, Map, Value};
use std::collections::{BTreeMap, HashSet};
use std::time::Instant;

pub struct Viol {
    pub count: u64,
    pub what: String,
    pub case: Value,
}

pub struct Report {
    pub prop: String,
    pub tier: String,
    pub shard: usize,
    pub nshards: usize,
    pub evaluations: u64,
    pub transitions: u64,
    states: HashSet<u64>,
    pub outcomes: BTreeMap<String, u64>,
    pub samples: Vec<Value>,
    pub violations: BTreeMap<String, Viol>,
    pub capped: bool,
    pub extra: Map<String, Value>,
    pub start: Instant,
    pub budget_s: f64,
    pub out: Option<String>,
    pub max_samples: usize,
    /// the PROD unit being evaluated (recorded with every violation so that it can be re-executed alone)
    pub cur_unit: std::cell::Cell<u64>,
    /// replay mode: only this unit is evaluated
    pub only_unit: Option<u64>,
}

impl Report {
    pub fn new(prop: &str, tier: &str, shard: usize, nshards: usize, out: Option<String>, budget_s: f64) -> Self {
        Report {
            prop: prop.to_string(),
            tier: tier.to_string(),
            shard,
            nshards,
            evaluations: 0,
            transitions: 0,
            states: HashSet::new(),
            outcomes: BTreeMap::new(),
            samples: Vec::new(),
            violations: BTreeMap::new(),
            capped: false,
            extra: Map::new(),
            start: Instant::now(),
            budget_s,
            out,
            max_samples: 6,
            cur_unit: std::cell::Cell::new(u64::MAX),
            only_unit: None,
        }
    }

    /// true if index `i` of a PROD enumeration belongs to this shard (replay mode: if it is the recorded unit)
    #[inline]
    pub fn mine(&self, i: u64) -> bool {
        let m = match self.only_unit {
            Some(u) => i == u,
            None => (i % self.nshards as u64) as usize == self.shard,
        };
        if m {
            self.cur_unit.set(i);
        }
        m
    }

    /// Units that are not part of an indexed enumeration (evaluated once, by shard 0); `tag` >= 1 << 62.
    pub fn mine0(&self, tag: u64) -> bool {
        let m = match self.only_unit {
            Some(u) => u == tag,
            None => self.shard == 0,
        };
        if m {
            self.cur_unit.set(tag);
        }
        m
    }

    #[inline]
    pub fn eval(&mut self) {
        self.evaluations += 1;
    }

    #[inline]
    pub fn state(&mut self, h: u64) {
        self.states.insert(h);
    }

    pub fn state_of<T: std::hash::Hash>(&mut self, t: &T) {
        use std::hash::Hasher;
        let mut h = std::collections::hash_map::DefaultHasher::new();
        t.hash(&mut h);
        self.states.insert(h.finish());
    }

    pub fn outcome(&mut self, o: &str) {
        if let Some(c) = self.outcomes.get_mut(o) {
            *c += 1;
        } else {
            self.outcomes.insert(o.to_string(), 1);
        }
    }

    pub fn outcome_n(&mut self, o: &str, n: u64) {
        *self.outcomes.entry(o.to_string()).or_insert(0) += n;
    }

    pub fn sample(&mut self, v: impl FnOnce() -> Value) {
        if self.samples.len() < self.max_samples {
            self.samples.push(v());
        }
    }

    /// Record a violation. `sig` names the failing input class (see DESIGN 2.6); the first case per
    /// signature is kept as the replay.
    pub fn violation(&mut self, sig: &str, what: &str, case: impl FnOnce() -> Value) {
        if let Some(v) = self.violations.get_mut(sig) {
            v.count += 1;
        } else {
            self.violations.insert(
                sig.to_string(),
                Viol {
                    count: 1,
                    what: what.to_string(),
                    case: {
                        let mut c = case();
                        if let Some(o) = c.as_object_mut() {
                            o.insert("unit".into(), json!(self.cur_unit.get()));
                        }
                        c
                    },
                },
            );
        }
    }

    pub fn over_budget(&mut self) -> bool {
        if self.budget_s > 0.0 && self.start.elapsed().as_secs_f64() > self.budget_s {
            self.capped = true;
            true
        } else {
            false
        }
    }

    pub fn set(&mut self, k: &str, v: Value) {
        self.extra.insert(k.to_string(), v);
    }

    pub fn add(&mut self, k: &str, n: u64) {
        let cur = self.extra.get(k).and_then(|v| v.as_u64()).unwrap_or(0);
        self.extra.insert(k.to_string(), json!(cur + n));
    }

    pub fn to_json(&self) -> Value {
        let viols: Vec<Value> = self
            .violations
            .iter()
            .map(|(sig, v)| json!({"signature": sig, "count": v.count, "what": v.what, "case": v.case}))
            .collect();
        let mut states: Vec<u64> = self.states.iter().copied().collect();
        states.sort_unstable();
        json!({
            "prop": self.prop, "tier": self.tier, "shard": self.shard, "nshards": self.nshards,
            "evaluations": self.evaluations, "transitions": self.transitions,
            "states": states.len(), "state_hashes": if states.len() <= 200_000 { json!(states) } else { json!(null) },
            "outcomes": self.outcomes, "samples": self.samples, "violations": viols,
            "capped": self.capped, "extra": self.extra,
            "wall_s": self.start.elapsed().as_secs_f64(),
        })
    }

    pub fn finish(&self) {
        let s = serde_json::to_string(&self.to_json()).unwrap();
        match &self.out {
            Some(p) => std::fs::write(p, s).expect("write shard report"),
            None => println!("{}", s),
        }
    }
}

pub fn hex(b: &[u8]) -> String {
    let mut s = String::with_capacity(b.len() * 2);
    for x in b {
        s.push_str(&format!("{:02x}", x));
    }
    s
}

pub fn unhex(s: &str) -> Vec<u8> {
    (0..s.len() / 2).map(|i| u8::from_str_radix(&s[2 * i..2 * i + 2], 16).unwrap()).collect()
}
