//! FUSE wire client. Layouts and constants come only from `kabi` (generated from the kernel
//! header by the C compiler), never from the library under check.

use crate::kabi::{self, Lay};

pub const IN_HDR: usize = 40;
pub const OUT_HDR: usize = 16;

pub fn put(buf: &mut [u8], lay: &Lay, field: &str, v: u64) {
    let f = lay.f(field);
    put_at(buf, f.off, f.size, v);
}

pub fn put_at(buf: &mut [u8], off: usize, size: usize, v: u64) {
    match size {
        1 => buf[off] = v as u8,
        2 => buf[off..off + 2].copy_from_slice(&(v as u16).to_le_bytes()),
        4 => buf[off..off + 4].copy_from_slice(&(v as u32).to_le_bytes()),
        8 => buf[off..off + 8].copy_from_slice(&v.to_le_bytes()),
        _ => panic!("put: field size {}", size),
    }
}

pub fn get(buf: &[u8], lay: &Lay, field: &str) -> u64 {
    let f = lay.f(field);
    get_at(buf, f.off, f.size)
}

pub fn get_at(buf: &[u8], off: usize, size: usize) -> u64 {
    match size {
        1 => buf[off] as u64,
        2 => u16::from_le_bytes(buf[off..off + 2].try_into().unwrap()) as u64,
        4 => u32::from_le_bytes(buf[off..off + 4].try_into().unwrap()) as u64,
        8 => u64::from_le_bytes(buf[off..off + 8].try_into().unwrap()),
        _ => panic!("get: field size {}", size),
    }
}

/// A structure under construction, addressed by kernel field names.
pub struct St {
    pub lay: &'static Lay,
    pub b: Vec<u8>,
}

impl St {
    pub fn new(lay: &'static Lay) -> Self {
        St { lay, b: vec![0u8; lay.size] }
    }
    /// like `new`, but the structure is cut to its first `n` bytes (compat layouts)
    pub fn set(mut self, field: &str, v: u64) -> Self {
        put(&mut self.b, self.lay, field, v);
        self
    }
    pub fn bytes(self) -> Vec<u8> {
        self.b
    }
}

#[derive(Clone, Debug)]
pub struct Req {
    pub opcode: u32,
    pub unique: u64,
    pub nodeid: u64,
    pub uid: u32,
    pub gid: u32,
    pub pid: u32,
    pub body: Vec<u8>,
    /// value of the header `len` field; None = true length
    pub len: Option<u32>,
}

impl Req {
    pub fn new(opcode: u64, nodeid: u64, body: Vec<u8>) -> Self {
        Req {
            opcode: opcode as u32,
            unique: 0x1122_3344_5566_7788,
            nodeid,
            uid: 0,
            gid: 0,
            pid: 0,
            body,
            len: None,
        }
    }
    pub fn creds(mut self, uid: u32, gid: u32, pid: u32) -> Self {
        self.uid = uid;
        self.gid = gid;
        self.pid = pid;
        self
    }
    pub fn unique(mut self, u: u64) -> Self {
        self.unique = u;
        self
    }
    pub fn bytes(&self) -> Vec<u8> {
        let mut h = vec![0u8; IN_HDR];
        let l = &kabi::FUSE_IN_HEADER;
        assert_eq!(l.size, IN_HDR);
        put(&mut h, l, "len", self.len.unwrap_or((IN_HDR + self.body.len()) as u32) as u64);
        put(&mut h, l, "opcode", self.opcode as u64);
        put(&mut h, l, "unique", self.unique);
        put(&mut h, l, "nodeid", self.nodeid);
        put(&mut h, l, "uid", self.uid as u64);
        put(&mut h, l, "gid", self.gid as u64);
        put(&mut h, l, "pid", self.pid as u64);
        h.extend_from_slice(&self.body);
        h
    }
}

pub fn cat(parts: &[&[u8]]) -> Vec<u8> {
    let mut v = Vec::new();
    for p in parts {
        v.extend_from_slice(p);
    }
    v
}

pub fn cstr(name: &[u8]) -> Vec<u8> {
    let mut v = name.to_vec();
    v.push(0);
    v
}

#[derive(Clone, Debug, PartialEq)]
pub struct Reply {
    pub len: u32,
    pub error: i32,
    pub unique: u64,
    pub body: Vec<u8>,
}

/// Decode one reply message. `raw` must be exactly the emitted bytes.
pub fn parse_reply(raw: &[u8]) -> Result<Reply, String> {
    if raw.len() < OUT_HDR {
        return Err(format!("reply shorter than fuse_out_header: {} bytes", raw.len()));
    }
    let l = &kabi::FUSE_OUT_HEADER;
    Ok(Reply {
        len: get(raw, l, "len") as u32,
        error: get(raw, l, "error") as u32 as i32,
        unique: get(raw, l, "unique"),
        body: raw[OUT_HDR..].to_vec(),
    })
}

/// Decoded fuse_attr as (name, value) pairs in kernel field order.
pub fn attr_fields(buf: &[u8], lay: &'static Lay, prefix: &str) -> Vec<(String, u64)> {
    kabi::FUSE_ATTR
        .fields
        .iter()
        .map(|f| (f.name.to_string(), get(buf, lay, &format!("{}{}", prefix, f.name))))
        .collect()
}

#[derive(Clone, Debug, PartialEq, Eq)]
pub struct Dirent {
    pub ino: u64,
    pub off: u64,
    pub typ: u32,
    pub name: Vec<u8>,
    /// raw fuse_entry_out for readdirplus
    pub entry: Option<Vec<u8>>,
}

/// Parse a READDIR / READDIRPLUS reply body by the kernel's rules (fs/fuse/readdir.c):
/// entries are fuse_dirent [+ preceding fuse_entry_out], each padded to 8 bytes; a trailing
/// fragment that does not hold a whole entry is reported as an error here.
pub fn parse_dirents(body: &[u8], plus: bool) -> Result<Vec<Dirent>, String> {
    let dl = &kabi::FUSE_DIRENT;
    let name_off = dl.f("name").off;
    let eo = if plus { kabi::FUSE_ENTRY_OUT.size } else { 0 };
    let mut out = Vec::new();
    let mut pos = 0usize;
    while pos < body.len() {
        if pos % 8 != 0 {
            return Err(format!("entry at unaligned offset {}", pos));
        }
        if body.len() - pos < eo + name_off {
            return Err(format!("truncated entry header at {} (body {})", pos, body.len()));
        }
        let d = &body[pos + eo..];
        let namelen = get(d, dl, "namelen") as usize;
        let reclen = (eo + name_off + namelen + 7) & !7;
        if namelen == 0 || namelen > 4096 {
            return Err(format!("bad namelen {} at {}", namelen, pos));
        }
        if body.len() - pos < reclen {
            return Err(format!("truncated entry at {}: need {} have {}", pos, reclen, body.len() - pos));
        }
        out.push(Dirent {
            ino: get(d, dl, "ino"),
            off: get(d, dl, "off"),
            typ: get(d, dl, "type") as u32,
            name: d[name_off..name_off + namelen].to_vec(),
            entry: if plus { Some(body[pos..pos + eo].to_vec()) } else { None },
        });
        pos += reclen;
    }
    Ok(out)
}

/// Opcodes of the kernel enum (name, number) in the 7.38 header.
pub fn kernel_opcodes() -> Vec<(&'static str, u64)> {
    kabi::ALL_CONSTS
        .iter()
        .filter(|(n, _)| {
            n.starts_with("FUSE_")
                && kabi_is_opcode(n)
        })
        .map(|(n, v)| (*n, *v))
        .collect()
}

fn kabi_is_opcode(n: &str) -> bool {
    const OPS: &[&str] = &[
        "FUSE_LOOKUP", "FUSE_FORGET", "FUSE_GETATTR", "FUSE_SETATTR", "FUSE_READLINK", "FUSE_SYMLINK", "FUSE_MKNOD",
        "FUSE_MKDIR", "FUSE_UNLINK", "FUSE_RMDIR", "FUSE_RENAME", "FUSE_LINK", "FUSE_OPEN", "FUSE_READ", "FUSE_WRITE",
        "FUSE_STATFS", "FUSE_RELEASE", "FUSE_FSYNC", "FUSE_SETXATTR", "FUSE_GETXATTR", "FUSE_LISTXATTR",
        "FUSE_REMOVEXATTR", "FUSE_FLUSH", "FUSE_INIT", "FUSE_OPENDIR", "FUSE_READDIR", "FUSE_RELEASEDIR",
        "FUSE_FSYNCDIR", "FUSE_GETLK", "FUSE_SETLK", "FUSE_SETLKW", "FUSE_ACCESS", "FUSE_CREATE", "FUSE_INTERRUPT",
        "FUSE_BMAP", "FUSE_DESTROY", "FUSE_IOCTL", "FUSE_POLL", "FUSE_NOTIFY_REPLY", "FUSE_BATCH_FORGET",
        "FUSE_FALLOCATE", "FUSE_READDIRPLUS", "FUSE_RENAME2", "FUSE_LSEEK", "FUSE_COPY_FILE_RANGE",
        "FUSE_SETUPMAPPING", "FUSE_REMOVEMAPPING", "FUSE_SYNCFS", "FUSE_TMPFILE",
    ];
    OPS.contains(&n)
}
