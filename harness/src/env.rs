//! Environment seams: /dev/fuse without a kernel (SOCK_SEQPACKET socketpair behind a real
//! FuseSession/FuseChannel) and virtio-fs without a VMM (MockSplitQueue over
//! GuestMemoryMmap<AtomicBitmap>).

use std::fs::File;
use std::mem::ManuallyDrop;
use std::num::NonZeroUsize;
use std::os::unix::io::{AsRawFd, FromRawFd, RawFd};
use std::panic::{catch_unwind, AssertUnwindSafe};
use std::path::PathBuf;

use fuse_backend_rs::api::filesystem::FileSystem;
use fuse_backend_rs::api::server::Server;
use fuse_backend_rs::transport::{
    FsCacheReqHandler, FuseBuf, FuseChannel, FuseDevWriter, FuseSession, Reader, VirtioFsWriter, Writer,
};
use virtio_queue::desc::{split::Descriptor as SplitDescriptor, RawDescriptor};
use virtio_queue::mock::MockSplitQueue;
use vm_memory::bitmap::{AtomicBitmap, BitmapSlice};
use vm_memory::mmap::MmapRegionBuilder;
use vm_memory::{Bytes, GuestAddress, GuestMemoryMmap, GuestRegionMmap};

pub type GM = GuestMemoryMmap<AtomicBitmap>;

pub const CANARY: u8 = 0xC7;
pub const PAD: usize = 64;

/// Scratch root for this process: tmpfs by default.
pub fn scratch_root(kind: &str) -> PathBuf {
    let base = match kind {
        "ext4" => "/var/tmp",
        _ => "/dev/shm",
    };
    let p = PathBuf::from(format!("{}/fbrv-{}", base, std::process::id()));
    std::fs::create_dir_all(&p).expect("scratch root");
    p
}

pub fn cleanup_scratch() {
    for base in ["/dev/shm", "/var/tmp"] {
        let p = format!("{}/fbrv-{}", base, std::process::id());
        let _ = std::fs::remove_dir_all(p);
    }
}

/// What a server-like subject does with one request.
pub trait Serve {
    fn serve<S: BitmapSlice>(
        &self,
        r: Reader<'_, S>,
        w: Writer<'_, S>,
        vu: Option<&mut dyn FsCacheReqHandler>,
    ) -> Result<usize, String>;
}

impl<F: FileSystem + Sync> Serve for Server<F> {
    fn serve<S: BitmapSlice>(
        &self,
        r: Reader<'_, S>,
        w: Writer<'_, S>,
        vu: Option<&mut dyn FsCacheReqHandler>,
    ) -> Result<usize, String> {
        self.handle_message(r, w, vu, None).map_err(|e| format!("{:?}", e))
    }
}

/// Dummy DAX window handler so SETUPMAPPING/REMOVEMAPPING reach the filesystem.
pub struct NullCache;
impl FsCacheReqHandler for NullCache {
    fn map(&mut self, _foffset: u64, _moffset: u64, _len: u64, _flags: u64, _fd: RawFd) -> std::io::Result<()> {
        Ok(())
    }
    fn unmap(&mut self, _requests: Vec<fuse_backend_rs::abi::virtio_fs::RemovemappingOne>) -> std::io::Result<()> {
        Ok(())
    }
}

#[derive(Debug, Clone)]
pub struct Exec {
    /// return value of the handler
    pub ret: Result<usize, String>,
    pub panic: Option<String>,
    /// fusedev: one element per write/writev call on the device fd.
    /// virtio: zero or one element: the bytes of the written extent of the writable area.
    pub records: Vec<Vec<u8>>,
    /// memory-safety style problems detected by the environment (canaries, writes outside the area)
    pub problems: Vec<String>,
    /// virtio only: for every byte of the writable area in chain order: (gpa, changed from background, dirty)
    pub area: Vec<(u64, bool, bool)>,
}

fn panic_msg(e: Box<dyn std::any::Any + Send>) -> String {
    if let Some(s) = e.downcast_ref::<&str>() {
        s.to_string()
    } else if let Some(s) = e.downcast_ref::<String>() {
        s.clone()
    } else {
        "panic (non-string payload)".to_string()
    }
}

pub static IN_SUBJECT: std::sync::atomic::AtomicBool = std::sync::atomic::AtomicBool::new(false);

/// Panics inside the code under check are verdict material and stay quiet; panics of the harness
/// itself are printed (and end the shard with a machinery error).
pub fn quiet_panics() {
    let default = std::panic::take_hook();
    std::panic::set_hook(Box::new(move |info| {
        if !IN_SUBJECT.load(std::sync::atomic::Ordering::Relaxed) || std::env::var_os("FBRV_LOUD").is_some() {
            default(info);
        }
    }));
}

pub fn subject<R>(f: impl FnOnce() -> R) -> std::thread::Result<R> {
    IN_SUBJECT.store(true, std::sync::atomic::Ordering::Relaxed);
    let r = catch_unwind(AssertUnwindSafe(f));
    IN_SUBJECT.store(false, std::sync::atomic::Ordering::Relaxed);
    r
}

// -------------------------------------------------------------------------------------------
// fusedev

pub struct FuseDev {
    pub cli: RawFd,
    pub srv: RawFd,
    _session: ManuallyDrop<FuseSession>,
    chan: ManuallyDrop<FuseChannel>,
    rbuf: Vec<u8>,
    memfd: Option<File>,
}

fn set_bufs(fd: RawFd, sz: i32) {
    unsafe {
        for opt in [libc::SO_SNDBUFFORCE, libc::SO_RCVBUFFORCE, libc::SO_SNDBUF, libc::SO_RCVBUF] {
            libc::setsockopt(fd, libc::SOL_SOCKET, opt, &sz as *const i32 as *const libc::c_void, 4);
        }
    }
}

impl FuseDev {
    pub fn new() -> Self {
        let mut fds = [0i32; 2];
        let rc = unsafe { libc::socketpair(libc::AF_UNIX, libc::SOCK_SEQPACKET | libc::SOCK_CLOEXEC, 0, fds.as_mut_ptr()) };
        assert_eq!(rc, 0, "socketpair");
        set_bufs(fds[0], 8 << 20);
        set_bufs(fds[1], 8 << 20);
        let mnt = scratch_root("tmpfs").join("mnt");
        std::fs::create_dir_all(&mnt).unwrap();
        let mut session = FuseSession::new(&mnt, "fbrv", "", false).expect("FuseSession::new");
        // the session owns (a dup of) the server end
        let srv_file = unsafe { File::from_raw_fd(fds[0]) };
        session.set_fuse_file(srv_file);
        let chan = session.new_channel().expect("new_channel");
        let srv = session.get_fuse_file().unwrap().as_raw_fd();
        FuseDev {
            cli: fds[1],
            srv,
            _session: ManuallyDrop::new(session),
            chan: ManuallyDrop::new(chan),
            rbuf: vec![0u8; (2 << 20) + 8192],
            memfd: None,
        }
    }

    /// All records the server wrote since the last drain, one per write call.
    pub fn drain(&mut self) -> Vec<Vec<u8>> {
        let mut out = Vec::new();
        loop {
            let n = unsafe {
                libc::recv(self.cli, self.rbuf.as_mut_ptr() as *mut libc::c_void, self.rbuf.len(), libc::MSG_DONTWAIT)
            };
            if n < 0 {
                break;
            }
            out.push(self.rbuf[..n as usize].to_vec());
        }
        out
    }

    fn send(&self, req: &[u8]) {
        let n = unsafe { libc::send(self.cli, req.as_ptr() as *const libc::c_void, req.len(), 0) };
        assert_eq!(n as usize, req.len(), "send request to socketpair: {}", std::io::Error::last_os_error());
    }

    /// The production path: the request is read by `FuseChannel::get_request`, reader and writer
    /// share the channel's buffer.
    pub fn via_channel<H: Serve>(&mut self, h: &H, req: &[u8]) -> Exec {
        assert!(!req.is_empty());
        self.drain();
        self.send(req);
        let chan: &mut FuseChannel = &mut self.chan;
        let res = subject(|| {
            let (r, w) = chan.get_request().expect("get_request").expect("channel closed");
            h.serve(r, Writer::FuseDev(w), None)
        });
        let (ret, panic) = match res {
            Ok(r) => (r, None),
            Err(e) => (Err("panic".into()), Some(panic_msg(e))),
        };
        Exec { ret, panic, records: self.drain(), problems: Vec::new(), area: Vec::new() }
    }

    /// Like `via_sep`, but the device fd is an O_APPEND memfd (pwrite works, every write call
    /// appends): the single element of `records` is the concatenation of everything written.
    pub fn via_file<H: Serve>(&mut self, h: &H, req: &[u8], cap: usize) -> Exec {
        use std::io::{Read, Seek, SeekFrom};
        if self.memfd.is_none() {
            let fd = unsafe { libc::memfd_create(b"fbrv-dev\0".as_ptr() as *const libc::c_char, 0) };
            assert!(fd >= 0);
            unsafe { libc::fcntl(fd, libc::F_SETFL, libc::O_APPEND) };
            self.memfd = Some(unsafe { File::from_raw_fd(fd) });
        }
        let f = self.memfd.as_mut().unwrap();
        f.set_len(0).unwrap();
        let fd = f.as_raw_fd();
        let mut rq = vec![CANARY; PAD + req.len() + PAD];
        rq[PAD..PAD + req.len()].copy_from_slice(req);
        let mut wb = vec![CANARY; PAD + cap + PAD];
        let res = {
            let (rq_mid, wb_mid) = (&mut rq[PAD..PAD + req.len()], &mut wb[PAD..PAD + cap]);
            subject(|| {
                let r = Reader::<()>::from_fuse_buffer(FuseBuf::new(rq_mid)).expect("reader");
                let w = FuseDevWriter::<()>::new(fd, wb_mid).expect("writer");
                h.serve(r, Writer::FuseDev(w), None)
            })
        };
        let (ret, panic) = match res {
            Ok(r) => (r, None),
            Err(e) => (Err("panic".into()), Some(panic_msg(e))),
        };
        let mut problems = Vec::new();
        if rq[..PAD].iter().chain(rq[PAD + req.len()..].iter()).any(|b| *b != CANARY) || wb[..PAD].iter().chain(wb[PAD + cap..].iter()).any(|b| *b != CANARY) {
            problems.push("canary around a buffer damaged".to_string());
        }
        let mut content = Vec::new();
        let f = self.memfd.as_mut().unwrap();
        f.seek(SeekFrom::Start(0)).unwrap();
        f.read_to_end(&mut content).unwrap();
        Exec { ret, panic, records: if content.is_empty() { vec![] } else { vec![content] }, problems, area: Vec::new() }
    }

    /// Separate request and reply buffers with canaries around both; reply capacity `cap`.
    pub fn via_sep<H: Serve>(&mut self, h: &H, req: &[u8], cap: usize) -> Exec {
        self.drain();
        let mut rq = vec![CANARY; PAD + req.len() + PAD];
        rq[PAD..PAD + req.len()].copy_from_slice(req);
        let mut wb = vec![CANARY; PAD + cap + PAD];
        let fd = self.srv;
        let res = {
            let (rq_mid, wb_mid) = (&mut rq[PAD..PAD + req.len()], &mut wb[PAD..PAD + cap]);
            subject(|| {
                let r = Reader::<()>::from_fuse_buffer(FuseBuf::new(rq_mid)).expect("reader");
                let w = FuseDevWriter::<()>::new(fd, wb_mid).expect("writer");
                h.serve(r, Writer::FuseDev(w), None)
            })
        };
        let (ret, panic) = match res {
            Ok(r) => (r, None),
            Err(e) => (Err("panic".into()), Some(panic_msg(e))),
        };
        let mut problems = Vec::new();
        if rq[..PAD].iter().chain(rq[PAD + req.len()..].iter()).any(|b| *b != CANARY) {
            problems.push("canary around request buffer damaged".to_string());
        }
        if rq[PAD..PAD + req.len()] != *req {
            problems.push("request buffer modified".to_string());
        }
        if wb[..PAD].iter().chain(wb[PAD + cap..].iter()).any(|b| *b != CANARY) {
            problems.push("canary around reply buffer damaged".to_string());
        }
        Exec { ret, panic, records: self.drain(), problems, area: Vec::new() }
    }
}

// -------------------------------------------------------------------------------------------
// virtio-fs

pub const Q_BASE: u64 = 0;
pub const Q_SIZE: usize = 0x1_0000;
pub const A_BASE: u64 = 0x10_0000;
pub const B_BASE: u64 = 0x80_0000;
pub const VRING_DESC_F_WRITE: u16 = 2;

/// Where one descriptor lives.
#[derive(Clone, Debug, PartialEq, Eq, Hash)]
pub struct Seg {
    pub addr: u64,
    pub len: u32,
}

pub struct Virtio {
    pub mem: GM,
    pub page: usize,
    pub a_size: usize,
    pub b_size: usize,
    /// use the complemented background pattern (to tell "written with the same value" apart)
    pub flip: std::cell::Cell<bool>,
}

fn bg(addr: u64) -> u8 {
    // position dependent background, never 0 and never CANARY-free of structure
    (0xA5u8).wrapping_add((addr as u8).wrapping_mul(31)) | 0x80
}

impl Virtio {
    /// `page`: dirty-bitmap granularity in bytes for the two data regions.
    pub fn new(page: usize, a_size: usize, b_size: usize) -> Self {
        let mk = |base: u64, size: usize, page: usize| {
            let bm = AtomicBitmap::new(size, NonZeroUsize::new(page).unwrap());
            let region = MmapRegionBuilder::new_with_bitmap(size, bm).with_mmap_prot(libc::PROT_READ | libc::PROT_WRITE).with_mmap_flags(libc::MAP_ANONYMOUS | libc::MAP_PRIVATE | libc::MAP_NORESERVE).build().expect("mmap region");
            GuestRegionMmap::new(region, GuestAddress(base)).expect("guest region")
        };
        let regions = vec![mk(Q_BASE, Q_SIZE, 4096), mk(A_BASE, a_size, page), mk(B_BASE, b_size, page)];
        let mem = GM::from_regions(regions).expect("guest memory");
        Virtio { mem, page, a_size, b_size, flip: std::cell::Cell::new(false) }
    }

    /// Like `new`, but the data regions A and B are two halves of ONE host mapping: guest memory regions that are
    /// not adjacent in guest-physical space and are adjacent in host memory (a backing allocation split around a
    /// guest-physical hole). Each region still has its own dirty bitmap.
    pub fn new_adjacent(page: usize, a_size: usize, b_size: usize) -> Self {
        let total = a_size + b_size;
        let ptr = unsafe { libc::mmap(std::ptr::null_mut(), total, libc::PROT_READ | libc::PROT_WRITE, libc::MAP_ANONYMOUS | libc::MAP_PRIVATE | libc::MAP_NORESERVE, -1, 0) };
        assert!(ptr != libc::MAP_FAILED, "mmap of the shared backing failed");
        let mk = |base: u64, size: usize, page: usize| {
            let bm = AtomicBitmap::new(size, NonZeroUsize::new(page).unwrap());
            let region = MmapRegionBuilder::new_with_bitmap(size, bm).with_mmap_prot(libc::PROT_READ | libc::PROT_WRITE).with_mmap_flags(libc::MAP_ANONYMOUS | libc::MAP_PRIVATE | libc::MAP_NORESERVE).build().expect("mmap region");
            GuestRegionMmap::new(region, GuestAddress(base)).expect("guest region")
        };
        let mk_raw = |base: u64, off: usize, size: usize, page: usize| {
            let bm = AtomicBitmap::new(size, NonZeroUsize::new(page).unwrap());
            let region = unsafe { MmapRegionBuilder::new_with_bitmap(size, bm).with_mmap_prot(libc::PROT_READ | libc::PROT_WRITE).with_mmap_flags(libc::MAP_ANONYMOUS | libc::MAP_PRIVATE | libc::MAP_NORESERVE).with_raw_mmap_pointer((ptr as *mut u8).add(off)) }.build().expect("raw region");
            GuestRegionMmap::new(region, GuestAddress(base)).expect("guest region")
        };
        let regions = vec![mk(Q_BASE, Q_SIZE, 4096), mk_raw(A_BASE, 0, a_size, page), mk_raw(B_BASE, a_size, b_size, page)];
        let mem = GM::from_regions(regions).expect("guest memory");
        Virtio { mem, page, a_size, b_size, flip: std::cell::Cell::new(false) }
    }

    pub fn bg_byte(addr: u64) -> u8 {
        bg(addr)
    }

    pub fn region_of(&self, addr: u64) -> Option<(u64, usize)> {
        if addr >= A_BASE && addr < A_BASE + self.a_size as u64 {
            Some((A_BASE, self.a_size))
        } else if addr >= B_BASE && addr < B_BASE + self.b_size as u64 {
            Some((B_BASE, self.b_size))
        } else {
            None
        }
    }

    fn bitmap_of(&self, base: u64) -> &AtomicBitmap {
        use vm_memory::GuestMemory;
        let r = self.mem.find_region(GuestAddress(base)).unwrap();
        use std::ops::Deref;
        r.deref().bitmap()
    }

    pub fn fill_bg(&self, addr: u64, len: usize) {
        let f = if self.flip.get() { 0xffu8 } else { 0 };
        let v: Vec<u8> = (0..len as u64).map(|i| bg(addr + i) ^ f).collect();
        self.mem.write_slice(&v, GuestAddress(addr)).unwrap();
    }

    pub fn read(&self, addr: u64, len: usize) -> Vec<u8> {
        let mut v = vec![0u8; len];
        self.mem.read_slice(&mut v, GuestAddress(addr)).unwrap();
        v
    }

    pub fn write(&self, addr: u64, data: &[u8]) {
        self.mem.write_slice(data, GuestAddress(addr)).unwrap();
    }

    pub fn reset_dirty(&self, addr: u64, len: usize) {
        if let Some((base, _)) = self.region_of(addr) {
            self.bitmap_of(base).reset_addr_range((addr - base) as usize, len);
        }
    }

    pub fn set_dirty(&self, addr: u64) {
        use vm_memory::bitmap::Bitmap;
        if let Some((base, _)) = self.region_of(addr) {
            self.bitmap_of(base).mark_dirty((addr - base) as usize, 1);
        }
    }

    pub fn is_dirty(&self, addr: u64) -> bool {
        match self.region_of(addr) {
            Some((base, _)) => self.bitmap_of(base).is_addr_set((addr - base) as usize),
            None => false,
        }
    }

    /// Descriptors for the chain `rd` (device-readable) followed by `wr` (device-writable).
    pub fn descs(rd: &[Seg], wr: &[Seg]) -> Vec<RawDescriptor> {
        let mut descs: Vec<RawDescriptor> = Vec::new();
        for s in rd {
            descs.push(RawDescriptor::from(SplitDescriptor::new(s.addr, s.len, 0, 0)));
        }
        for s in wr {
            descs.push(RawDescriptor::from(SplitDescriptor::new(s.addr, s.len, VRING_DESC_F_WRITE, 0)));
        }
        descs
    }

    /// Fresh queue structures at the bottom of guest memory.
    pub fn queue(&self) -> MockSplitQueue<'_, GM> {
        self.mem.write_slice(&[0u8; 512], GuestAddress(Q_BASE)).unwrap();
        MockSplitQueue::new(&self.mem, 16)
    }

    /// Run one request laid out as `rd` segments (request bytes spread over them in order) and a
    /// reply area of `wr` segments. The span [lo, hi) covering all segments plus PAD on each side
    /// is reset to background first and checked afterwards.
    pub fn run<H: Serve>(&self, h: &H, req: &[u8], rd: &[Seg], wr: &[Seg], with_cache: bool) -> Exec {
        // prepare memory
        let mut spans: Vec<(u64, usize)> = Vec::new();
        for s in rd.iter().chain(wr.iter()) {
            if let Some((base, size)) = self.region_of(s.addr) {
                let lo = s.addr.saturating_sub(PAD as u64).max(base);
                let hi = (s.addr + s.len as u64 + PAD as u64).min(base + size as u64);
                spans.push((lo, (hi - lo) as usize));
            }
        }
        for (lo, len) in &spans {
            self.fill_bg(*lo, *len);
        }
        let mut pos = 0usize;
        for s in rd {
            let n = (s.len as usize).min(req.len() - pos.min(req.len()));
            if n > 0 && self.region_of(s.addr).is_some() {
                self.write(s.addr, &req[pos..pos + n]);
            }
            pos += n;
        }
        for (lo, len) in &spans {
            self.reset_dirty(*lo, *len);
        }
        let before: Vec<Vec<u8>> = spans.iter().map(|(lo, len)| self.read(*lo, *len)).collect();

        let mut cache = NullCache;
        let q = self.queue();
        let descs = Self::descs(rd, wr);
        let res = subject(|| -> Result<usize, String> {
            if descs.is_empty() {
                return Err("empty chain".into());
            }
            let chain = q.build_desc_chain(&descs).map_err(|e| format!("chain: {:?}", e))?;
            let r = Reader::from_descriptor_chain(&self.mem, chain.clone()).map_err(|e| format!("reader: {:?}", e))?;
            let w = VirtioFsWriter::new(&self.mem, chain).map_err(|e| format!("writer: {:?}", e))?;
            let vu: Option<&mut dyn FsCacheReqHandler> = if with_cache { Some(&mut cache) } else { None };
            h.serve(r, Writer::VirtioFs(w), vu)
        });
        let (ret, panic) = match res {
            Ok(r) => (r, None),
            Err(e) => (Err("panic".into()), Some(panic_msg(e))),
        };

        // analyse memory
        let mut problems = Vec::new();
        let in_wr = |a: u64| wr.iter().any(|s| a >= s.addr && a < s.addr + s.len as u64);
        for ((lo, len), bef) in spans.iter().zip(before.iter()) {
            let now = self.read(*lo, *len);
            for i in 0..*len {
                let a = lo + i as u64;
                if in_wr(a) {
                    continue;
                }
                if now[i] != bef[i] {
                    problems.push(format!("byte outside the writable descriptors modified at gpa {:#x}", a));
                    break;
                }
                if self.is_dirty(a) {
                    // with pages larger than a byte, a page shared with a writable descriptor is legitimately dirty
                    let pg = a / self.page as u64 * self.page as u64;
                    if !(0..self.page as u64).any(|i| in_wr(pg + i)) {
                        problems.push(format!("page outside the writable descriptors marked dirty at gpa {:#x}", a));
                        break;
                    }
                }
            }
        }
        // written extent of the writable area, in chain order
        let mut flat_changed: Vec<bool> = Vec::new();
        let mut flat: Vec<u8> = Vec::new();
        let mut area: Vec<(u64, bool, bool)> = Vec::new();
        let f = if self.flip.get() { 0xffu8 } else { 0 };
        for s in wr {
            if self.region_of(s.addr).is_none() {
                continue;
            }
            let now = self.read(s.addr, s.len as usize);
            for (i, b) in now.iter().enumerate() {
                let a = s.addr + i as u64;
                flat_changed.push(*b != (bg(a) ^ if self.flip.get() { 0xff } else { 0 }) || (self.page == 1 && self.is_dirty(a)));
                flat.push(*b);
                area.push((a, *b != (bg(a) ^ f), self.is_dirty(a)));
            }
        }
        let extent = flat_changed.iter().rposition(|c| *c).map(|p| p + 1).unwrap_or(0);
        let mut records = Vec::new();
        if extent > 0 {
            records.push(flat[..extent].to_vec());
        }
        Exec { ret, panic, records, problems, area }
    }
}

/// Cut `total` bytes into contiguous segments starting at `base` with `gap` bytes between them.
pub fn segs(base: u64, lens: &[usize], gap: usize) -> Vec<Seg> {
    let mut a = base;
    let mut v = Vec::new();
    for l in lens {
        v.push(Seg { addr: a, len: *l as u32 });
        a += (*l + gap) as u64;
    }
    v
}
