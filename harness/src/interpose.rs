//! libc interposition: these definitions live in the harness *binary*, so the static linker binds
//! the library's `libc::openat` etc. to them. They forward with raw system calls.
use fbrv::fault::gate;
use libc::{c_char, c_int, c_void, mode_t};

unsafe fn emfile() -> c_int {
    *libc::__errno_location() = libc::EMFILE;
    -1
}

#[no_mangle]
pub unsafe extern "C" fn openat(dirfd: c_int, path: *const c_char, flags: c_int, mode: mode_t) -> c_int {
    if gate() {
        return emfile();
    }
    libc::syscall(libc::SYS_openat, dirfd, path, flags, mode) as c_int
}

#[no_mangle]
pub unsafe extern "C" fn openat64(dirfd: c_int, path: *const c_char, flags: c_int, mode: mode_t) -> c_int {
    if gate() {
        return emfile();
    }
    libc::syscall(libc::SYS_openat, dirfd, path, flags | libc::O_LARGEFILE, mode) as c_int
}

#[no_mangle]
pub unsafe extern "C" fn open(path: *const c_char, flags: c_int, mode: mode_t) -> c_int {
    if gate() {
        return emfile();
    }
    libc::syscall(libc::SYS_openat, libc::AT_FDCWD, path, flags, mode) as c_int
}

#[no_mangle]
pub unsafe extern "C" fn open64(path: *const c_char, flags: c_int, mode: mode_t) -> c_int {
    if gate() {
        return emfile();
    }
    libc::syscall(libc::SYS_openat, libc::AT_FDCWD, path, flags | libc::O_LARGEFILE, mode) as c_int
}

#[no_mangle]
pub unsafe extern "C" fn dup(fd: c_int) -> c_int {
    if gate() {
        return emfile();
    }
    libc::syscall(libc::SYS_dup, fd) as c_int
}

#[no_mangle]
pub unsafe extern "C" fn open_by_handle_at(mount_fd: c_int, handle: *const c_void, flags: c_int) -> c_int {
    if gate() {
        return emfile();
    }
    libc::syscall(libc::SYS_open_by_handle_at, mount_fd, handle, flags) as c_int
}

pub fn mark() {
    fbrv::fault::INTERPOSED.store(true, std::sync::atomic::Ordering::SeqCst);
}
